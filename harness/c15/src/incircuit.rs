//! The in-circuit `AssignedAccumulator::accumulate` (`circuits/src/verifier/accumulator.rs`,
//! `AssignedMsm::{scale, add_msm, accumulate_with_r}` of `verifier/msm.rs`, `utils::powers`) on the
//! VALUES its cells carry, inside a real circuit run by `MockProver`.
//!
//! The code is generic over `S: SelfEmulation`; it is instantiated with the light back-end of the
//! aggregator (`LightBlstrsEmulation`: native scalar chip, Poseidon sponge, a curve chip that only
//! carries points) so that a run costs a few hundred rows. Members are witnessed with
//! `AssignedAccumulator::assign` (as the IVC example carries an accumulator), accumulated
//! in-circuit, the value of the result is read with `InnerValue::value` and
//!  * compared with the Lean model of the in-circuit operations (`aaccumulate` line),
//!  * compared with the off-circuit `Accumulator::accumulate` of the same members (oracle),
//!  * exposed as public input: the circuit must be satisfied by the off-circuit result and by no
//!    altered instance.

use std::cell::RefCell;
use std::collections::BTreeMap;

use ff::Field;
use midnight_aggregator::verif_hooks::{FakeCurveChip, LightBlstrsEmulation};
use midnight_circuits::{
    field::{
        native::{NB_ARITH_COLS, NB_ARITH_FIXED_COLS},
        NativeChip, NativeConfig,
    },
    hash::poseidon::{PoseidonChip, PoseidonConfig, NB_POSEIDON_ADVICE_COLS, NB_POSEIDON_FIXED_COLS},
    instructions::{hash::HashCPU, PublicInputInstructions},
    types::{ComposableChip, InnerValue, Instantiable},
    verifier::{Accumulator, AssignedAccumulator, Msm, SelfEmulation, VerifierGadget},
};
use midnight_proofs::{
    circuit::{Layouter, SimpleFloorPlanner, Value},
    dev::MockProver,
    plonk::{Circuit, ConstraintSystem, Error},
};
use mzkh::{catch, fe_hex, Ctx};
use rand::RngCore;
use rand_chacha::ChaCha8Rng;
use serde_json::json;

use crate::fmt::*;

type Light = LightBlstrsEmulation;

thread_local! {
    /// public-input form of the in-circuit result (the value of a `FakePoint` cannot be recovered,
    /// its pieces can)
    static OUT: RefCell<Option<Vec<F>>> = const { RefCell::new(None) };
}

#[derive(Clone, Debug)]
struct AccCircuit {
    accs: Vec<Accumulator<Light>>,
}

fn names_of(m: &Msm<Light>) -> Vec<String> {
    m.fixed_base_scalars().keys().cloned().collect()
}

impl Circuit<F> for AccCircuit {
    type Config = (NativeConfig, PoseidonConfig<F>);
    type FloorPlanner = SimpleFloorPlanner;
    type Params = ();

    fn without_witnesses(&self) -> Self {
        unreachable!()
    }

    fn configure(meta: &mut ConstraintSystem<F>) -> Self::Config {
        let nb_advice_cols = std::cmp::max(NB_ARITH_COLS, NB_POSEIDON_ADVICE_COLS);
        let nb_fixed_cols = std::cmp::max(NB_ARITH_FIXED_COLS, NB_POSEIDON_FIXED_COLS);
        let advice_columns: Vec<_> = (0..nb_advice_cols).map(|_| meta.advice_column()).collect();
        let fixed_columns: Vec<_> = (0..nb_fixed_cols).map(|_| meta.fixed_column()).collect();
        let committed_instance_column = meta.instance_column();
        let instance_column = meta.instance_column();
        let native_config = NativeChip::configure(
            meta,
            &(
                advice_columns[..NB_ARITH_COLS].try_into().unwrap(),
                fixed_columns[..NB_ARITH_FIXED_COLS].try_into().unwrap(),
                [committed_instance_column, instance_column],
            ),
        );
        let poseidon_config = PoseidonChip::configure(
            meta,
            &(
                advice_columns[..NB_POSEIDON_ADVICE_COLS].try_into().unwrap(),
                fixed_columns[..NB_POSEIDON_FIXED_COLS].try_into().unwrap(),
            ),
        );
        (native_config, poseidon_config)
    }

    fn synthesize(&self, config: Self::Config, mut layouter: impl Layouter<F>) -> Result<(), Error> {
        let scalar_chip = NativeChip::new(&config.0, &());
        let sponge_chip = PoseidonChip::new(&config.1, &scalar_chip);
        let curve_chip = FakeCurveChip::<G>::new(&scalar_chip);
        let verifier = VerifierGadget::<Light>::new(&curve_chip, &scalar_chip, &sponge_chip);

        let assigned: Vec<AssignedAccumulator<Light>> = self
            .accs
            .iter()
            .map(|a| {
                let (l, r) = (a.lhs(), a.rhs());
                AssignedAccumulator::<Light>::assign(
                    &mut layouter,
                    &curve_chip,
                    &scalar_chip,
                    l.scalars().len(),
                    r.scalars().len(),
                    &names_of(&l),
                    &names_of(&r),
                    Value::known(a.clone()),
                )
            })
            .collect::<Result<_, Error>>()?;
        // THE function under test
        let out = AssignedAccumulator::<Light>::accumulate(&mut layouter, &verifier, &scalar_chip, &sponge_chip, &assigned)?;
        {
            let cells = PublicInputInstructions::<F, AssignedAccumulator<Light>>::as_public_input(&verifier, &mut layouter, &out)?;
            let vals: Value<Vec<F>> = Value::from_iter(cells.iter().map(|c| c.value().copied()));
            vals.map(|v| OUT.with(|o| *o.borrow_mut() = Some(v)));
        }
        PublicInputInstructions::<F, AssignedAccumulator<Light>>::constrain_as_public_input(&verifier, &mut layouter, &out)?;

        scalar_chip.load(&mut layouter)?;
        sponge_chip.load(&mut layouter)?;
        curve_chip.finalize()
    }
}

fn lmsm(m: &SMsm, pts: &mut Pts) -> Msm<Light> {
    let bases: Vec<G> = m.terms.iter().map(|(_, b)| pts.pt(*b)).collect();
    let scalars: Vec<F> = m.terms.iter().map(|(s, _)| *s).collect();
    let map: BTreeMap<String, F> = m.fixed.iter().cloned().collect();
    Msm::<Light>::new(&bases, &scalars, &map)
}

fn lmsm_str(m: &Msm<Light>, pts: &Pts) -> String {
    let (b, s, f) = (m.bases(), m.scalars(), m.fixed_base_scalars());
    let t = if b.is_empty() { "-".to_string() } else { (0..b.len()).map(|i| format!("{}:{}", fe_hex(&s[i]), pts.base_str(&b[i]))).collect::<Vec<_>>().join(",") };
    let ft = if f.is_empty() { "-".to_string() } else { f.iter().map(|(k, s)| format!("{k}={}", fe_hex(s))).collect::<Vec<_>>().join(",") };
    format!("{t};{ft}")
}

fn lacc_str(a: &Accumulator<Light>, pts: &Pts) -> String {
    format!("{}|{}", lmsm_str(&a.lhs(), pts), lmsm_str(&a.rhs(), pts))
}

pub fn run(ctx: &mut Ctx, level: usize) {
    let mut rng: ChaCha8Rng = ctx.rng("c15:in-circuit");
    let mut pts = Pts::default();
    let nz = |rng: &mut ChaCha8Rng| F::from(rng.next_u64() | 1);
    let names = ["-G", "vkA_fixed_com_1", "vkA_fixed_com_10", "vkB_perm_com_0"];
    // (lhs key set, rhs key set) per member
    let mut patterns: Vec<Vec<(usize, usize)>> = vec![
        // the empty slice: the neutral accumulator, no cell assigned (regression of f706bff)
        vec![],
        vec![(0, 0b0011)],
        vec![(0, 0b0001), (0, 0b0110)],
        vec![(0, 0b0011), (0, 0b0011)],
        vec![(0, 0), (0, 0b1111), (0, 0b0101)],
        vec![(0b0001, 0b0110), (0b0010, 0b0101), (0b1000, 0b1001)],
        vec![(0, 0b0101), (0, 0b1010), (0, 0b0110), (0, 0b1001)],
    ];
    if level > 0 {
        patterns.push(vec![(0, 0b0001), (0, 0b0010), (0, 0b0100), (0, 0b1000), (0, 0b1111)]);
        patterns.push(vec![(0b1111, 0), (0, 0b1111)]);
    }
    let mut k_used = 0u32;
    for (pi, pat) in patterns.iter().enumerate() {
        let subset = |rng: &mut ChaCha8Rng, mask: usize| -> Vec<(String, F)> { (0..4).filter(|i| mask >> i & 1 == 1).map(|i| (names[i].to_string(), nz(rng))).collect() };
        let mut texts = vec![];
        let mut accs: Vec<Accumulator<Light>> = vec![];
        for (j, (la, ra)) in pat.iter().enumerate() {
            let lhs = SMsm { terms: vec![(if j % 2 == 0 { F::ONE } else { nz(&mut rng) }, nz(&mut rng))], fixed: subset(&mut rng, *la) };
            let rhs = SMsm { terms: (0..1 + (j + pi) % 2).map(|_| (nz(&mut rng), nz(&mut rng))).collect(), fixed: subset(&mut rng, *ra) };
            texts.push(format!("{}|{}", lhs.text(), rhs.text()));
            accs.push(Accumulator::<Light>::new(lmsm(&lhs, &mut pts), lmsm(&rhs, &mut pts)));
        }
        let hash_input: Vec<F> = accs.iter().flat_map(AssignedAccumulator::<Light>::as_public_input).collect();
        let r = <PoseidonChip<F> as HashCPU<F, F>>::hash(&hash_input);
        let off = Accumulator::<Light>::accumulate(&accs);
        let pi_off = AssignedAccumulator::<Light>::as_public_input(&off);
        let circuit = AccCircuit { accs: accs.clone() };
        // encoding of every base as the light back-end exposes it
        let mut enc = BTreeMap::new();
        for a in &accs {
            for b in a.lhs().bases().iter().chain(a.rhs().bases().iter()) {
                enc.insert(pts.base_str(b), <<Light as SelfEmulation>::AssignedPoint as Instantiable<F>>::as_public_input(b));
            }
        }
        let enc_text = mzkh::join(&enc.iter().map(|(b, fs)| format!("{b}={}", fs.iter().map(fe_hex).collect::<Vec<_>>().join("/"))).collect::<Vec<_>>());
        let hexl = |v: &[F]| mzkh::join(&v.iter().map(fe_hex).collect::<Vec<_>>());
        let line = format!("aaccumulate-pi {} {enc_text} {}", fe_hex(&r), texts.join(" "));
        // smallest k at which the circuit fits
        let mut done = false;
        for k in 8..=14u32 {
            OUT.with(|o| *o.borrow_mut() = None);
            let run = catch(|| MockProver::run(k, &circuit, vec![vec![], pi_off.clone()]).map_err(|e| format!("{e:?}")));
            let prover = match run {
                Ok(Ok(p)) => p,
                Ok(Err(e)) if e.contains("NotEnoughRows") || e.contains("not enough rows") => continue,
                Ok(Err(e)) => {
                    ctx.oracle_fail("in-circuit-accumulate:synthesis-error", "the circuit around AssignedAccumulator::accumulate does not synthesise", json!({"op": line, "k": k, "error": e}));
                    break;
                }
                Err(p) => {
                    if k < 14 && (p.contains("ot enough") || p.contains("usable_rows")) {
                        continue;
                    }
                    if pat.is_empty() {
                        ctx.oracle_fail("accumulate:empty-slice-panics", "AssignedAccumulator::accumulate(&[]) panics instead of returning a value", json!({"op": line, "k": k, "panic": p}));
                        ctx.case("aaccumulate:in-circuit", false, line.trim_end(), "panic");
                        break;
                    }
                    ctx.oracle_fail("in-circuit-accumulate:panic", "AssignedAccumulator::accumulate panics", json!({"op": line, "k": k, "panic": p}));
                    break;
                }
            };
            k_used = k_used.max(k);
            let val = OUT.with(|o| o.borrow_mut().take());
            let Some(val) = val else {
                ctx.oracle_fail("in-circuit-accumulate:no-value", "AssignedAccumulator::accumulate produced no value with known witnesses", json!({"op": line}));
                break;
            };
            ctx.case("aaccumulate:in-circuit", pat.len() > 1, line.trim_end(), &hexl(&val));
            // three-way: in-circuit value = off-circuit Accumulator::accumulate
            if val != pi_off {
                ctx.oracle_fail("accumulate:in-circuit-differs", "AssignedAccumulator::accumulate computes a different accumulator than the off-circuit Accumulator::accumulate on the same members", json!({"op": line, "in_circuit": hexl(&val), "off_circuit": lacc_str(&off, &pts)}));
            }
            // the circuit accepts the off-circuit result as its instance, and no altered instance
            let ok = catch(|| prover.verify().is_ok()).unwrap_or(false);
            if !ok {
                ctx.oracle_fail("accumulate:in-circuit-rejects-off-circuit-result", "the circuit exposing AssignedAccumulator::accumulate(accs) is not satisfied by as_public_input(Accumulator::accumulate(accs))", json!({"op": line}));
            }
            let mut alt = pi_off.clone();
            let pos = (rng.next_u64() as usize) % alt.len().max(1);
            if alt.is_empty() {
                alt.push(F::ONE); // an instance where there should be none
            } else {
                alt[pos] += F::ONE;
            }
            let bad = !pi_off.is_empty() && catch(|| MockProver::run(k, &circuit, vec![vec![], alt]).map(|p| p.verify().is_ok()).unwrap_or(false)).unwrap_or(false);
            if bad {
                ctx.oracle_fail("accumulate:in-circuit-accepts-altered-instance", "the circuit exposing AssignedAccumulator::accumulate(accs) is satisfied by an altered instance", json!({"op": line, "position": pos}));
            }
            ctx.count(&format!("aaccumulate:in-circuit:n={}:satisfied={}:altered-rejected={}", pat.len(), ok as u8, !bad as u8));
            done = true;
            break;
        }
        if !done {
            ctx.count("aaccumulate:in-circuit:not-run");
        }
    }
    // `powers` as visible in the result: member j's lhs scalar is multiplied by r^j
    ctx.set_extra("in_circuit_k", json!(k_used));
}
