//! Real layer: `zk_stdlib::batch_verify` / `zk_stdlib::verify` on real proofs of small ZkStdLib
//! relations (several relations, several k, several keys), and the off-circuit accumulator of
//! real guards.

use std::collections::{BTreeMap, HashMap};

use blake2b_simd::State as Blake2bState;
use ff::{Field, PrimeField};
use group::Group;
use midnight_circuits::{
    hash::poseidon::PoseidonChip,
    instructions::{hash::HashCPU, ArithInstructions, AssignmentInstructions, PublicInputInstructions},
    verifier::{self, Accumulator, AssignedAccumulator, SelfEmulation},
    types::Instantiable,
};
use midnight_curves::G2Projective;
use midnight_proofs::{
    circuit::{Layouter, Value},
    plonk::{prepare, Error},
    poly::kzg::{
        msm::DualMSM,
        params::{ParamsKZG, ParamsVerifierKZG},
        KZGCommitmentScheme,
    },
    transcript::{CircuitTranscript, Transcript},
};
use midnight_zk_stdlib::{MidnightCircuit, MidnightVK, Relation, ZkStdLib, ZkStdLibArch};
use mzkh::{catch, fe_hex, Ctx};
use rand::{seq::SliceRandom, Rng};
use rand_chacha::ChaCha8Rng;
use rand_core::SeedableRng;
use serde_json::json;

use crate::fmt::*;
use crate::rec::{self, Ev, RecH};

macro_rules! rel_io {
    () => {
        fn write_relation<W: std::io::Write>(&self, _w: &mut W) -> std::io::Result<()> {
            Ok(())
        }
        fn read_relation<R: std::io::Read>(_r: &mut R) -> std::io::Result<Self> {
            Ok(Self::default())
        }
    };
}

/// Relation A: default architecture, public input `a·b`.
#[derive(Clone, Default)]
pub struct RelA;
impl Relation for RelA {
    type Instance = Vec<F>;
    type Witness = Vec<F>;
    fn format_instance(i: &Vec<F>) -> Result<Vec<F>, Error> {
        Ok(i.clone())
    }
    fn circuit(&self, s: &ZkStdLib, l: &mut impl Layouter<F>, _i: Value<Vec<F>>, w: Value<Vec<F>>) -> Result<(), Error> {
        let x = s.assign(l, w.clone().map(|w| w[0]))?;
        let y = s.assign(l, w.map(|w| w[1]))?;
        let z = s.mul(l, &x, &y, None)?;
        s.constrain_as_public_input(l, &z)
    }
    rel_io!();
}

/// Relation B: Poseidon architecture, public input `H(w₀, w₁, w₂)`.
#[derive(Clone, Default)]
pub struct RelB;
impl Relation for RelB {
    type Instance = Vec<F>;
    type Witness = Vec<F>;
    fn format_instance(i: &Vec<F>) -> Result<Vec<F>, Error> {
        Ok(i.clone())
    }
    fn circuit(&self, s: &ZkStdLib, l: &mut impl Layouter<F>, _i: Value<Vec<F>>, w: Value<Vec<F>>) -> Result<(), Error> {
        let ws: Vec<Value<F>> = (0..3).map(|j| w.clone().map(|w| w[j])).collect();
        let m = s.assign_many(l, &ws)?;
        let out = s.poseidon(l, &m)?;
        s.constrain_as_public_input(l, &out)
    }
    fn used_chips(&self) -> ZkStdLibArch {
        ZkStdLibArch { poseidon: true, nr_pow2range_cols: 2, ..ZkStdLibArch::default() }
    }
    rel_io!();
}

/// Relation C: default architecture, two public inputs `a+b`, `a·b`.
#[derive(Clone, Default)]
pub struct RelC;
impl Relation for RelC {
    type Instance = Vec<F>;
    type Witness = Vec<F>;
    fn format_instance(i: &Vec<F>) -> Result<Vec<F>, Error> {
        Ok(i.clone())
    }
    fn circuit(&self, s: &ZkStdLib, l: &mut impl Layouter<F>, _i: Value<Vec<F>>, w: Value<Vec<F>>) -> Result<(), Error> {
        let x = s.assign(l, w.clone().map(|w| w[0]))?;
        let y = s.assign(l, w.map(|w| w[1]))?;
        let a = s.add(l, &x, &y)?;
        let z = s.mul(l, &x, &y, None)?;
        s.constrain_as_public_input(l, &a)?;
        s.constrain_as_public_input(l, &z)
    }
    rel_io!();
}

/// Relation D: SHA-256 architecture (larger k), public input: first digest byte of a 4-byte
/// preimage plus the preimage's first byte.
#[derive(Clone, Default)]
pub struct RelD;
impl Relation for RelD {
    type Instance = Vec<F>;
    type Witness = Vec<F>;
    fn format_instance(i: &Vec<F>) -> Result<Vec<F>, Error> {
        Ok(i.clone())
    }
    fn circuit(&self, s: &ZkStdLib, l: &mut impl Layouter<F>, _i: Value<Vec<F>>, w: Value<Vec<F>>) -> Result<(), Error> {
        let bytes: Vec<Value<u8>> = (0..4).map(|j| w.clone().map(|w| w[j].to_repr().as_ref()[0])).collect();
        let m = s.assign_many(l, &bytes)?;
        let d = s.sha2_256(l, &m)?;
        s.constrain_as_public_input(l, &d[0])?;
        s.constrain_as_public_input(l, &m[0])
    }
    fn used_chips(&self) -> ZkStdLibArch {
        ZkStdLibArch { sha2_256: true, ..ZkStdLibArch::default() }
    }
    rel_io!();
}

pub struct RelSet {
    pub name: &'static str,
    pub vk: MidnightVK,
    pub npi: usize,
    pub k: u32,
    /// honest (public inputs, proof) pairs
    pub honest: Vec<(Vec<F>, Vec<u8>)>,
}

#[derive(Clone)]
pub struct Mem {
    /// index (into `Real::rels`) of the relation whose KEY is used
    pub vk_of: usize,
    pub pi: Vec<F>,
    pub proof: Vec<u8>,
    pub desc: String,
    /// `Some((key of the honest base member, a))`: the proof is the base proof with its final
    /// opening point π replaced by `π + a·G`. No verifier challenge depends on π, so the guard's
    /// defect is `a·(τ − x₃)·G`: LINEAR in `a` for a fixed base proof.
    pub shift: Option<(Vec<u8>, F)>,
}

#[derive(Clone)]
pub struct Class {
    /// `L`, `E:<error>`, `T`, `B`, `G`, or `P` (prepare panicked)
    pub tag: String,
    pub guard: Option<DualMSM<E>>,
    pub summary: Option<F>,
    pub each: String,
    /// operations of `prepare` on the member's own transcript, stand-alone (recording hash)
    pub trace: Vec<Ev>,
}

pub struct Real {
    pub vp: ParamsVerifierKZG<E>,
    pub tau: F,
    pub rels: Vec<RelSet>,
    pub pts: Pts,
    cache: HashMap<Vec<u8>, Class>,
    pub stats_batches: u64,
}

fn sha2_first(pre: &[u8; 4]) -> u8 {
    // minimal SHA-256 (one block) to avoid an extra dependency
    const K: [u32; 64] = [
        0x428a2f98, 0x71374491, 0xb5c0fbcf, 0xe9b5dba5, 0x3956c25b, 0x59f111f1, 0x923f82a4, 0xab1c5ed5, 0xd807aa98, 0x12835b01,
        0x243185be, 0x550c7dc3, 0x72be5d74, 0x80deb1fe, 0x9bdc06a7, 0xc19bf174, 0xe49b69c1, 0xefbe4786, 0x0fc19dc6, 0x240ca1cc,
        0x2de92c6f, 0x4a7484aa, 0x5cb0a9dc, 0x76f988da, 0x983e5152, 0xa831c66d, 0xb00327c8, 0xbf597fc7, 0xc6e00bf3, 0xd5a79147,
        0x06ca6351, 0x14292967, 0x27b70a85, 0x2e1b2138, 0x4d2c6dfc, 0x53380d13, 0x650a7354, 0x766a0abb, 0x81c2c92e, 0x92722c85,
        0xa2bfe8a1, 0xa81a664b, 0xc24b8b70, 0xc76c51a3, 0xd192e819, 0xd6990624, 0xf40e3585, 0x106aa070, 0x19a4c116, 0x1e376c08,
        0x2748774c, 0x34b0bcb5, 0x391c0cb3, 0x4ed8aa4a, 0x5b9cca4f, 0x682e6ff3, 0x748f82ee, 0x78a5636f, 0x84c87814, 0x8cc70208,
        0x90befffa, 0xa4506ceb, 0xbef9a3f7, 0xc67178f2,
    ];
    let mut h: [u32; 8] = [0x6a09e667, 0xbb67ae85, 0x3c6ef372, 0xa54ff53a, 0x510e527f, 0x9b05688c, 0x1f83d9ab, 0x5be0cd19];
    let mut block = [0u8; 64];
    block[..4].copy_from_slice(pre);
    block[4] = 0x80;
    block[63] = 32;
    let mut w = [0u32; 64];
    for i in 0..16 {
        w[i] = u32::from_be_bytes([block[4 * i], block[4 * i + 1], block[4 * i + 2], block[4 * i + 3]]);
    }
    for i in 16..64 {
        let s0 = w[i - 15].rotate_right(7) ^ w[i - 15].rotate_right(18) ^ (w[i - 15] >> 3);
        let s1 = w[i - 2].rotate_right(17) ^ w[i - 2].rotate_right(19) ^ (w[i - 2] >> 10);
        w[i] = w[i - 16].wrapping_add(s0).wrapping_add(w[i - 7]).wrapping_add(s1);
    }
    let mut v = h;
    for i in 0..64 {
        let s1 = v[4].rotate_right(6) ^ v[4].rotate_right(11) ^ v[4].rotate_right(25);
        let ch = (v[4] & v[5]) ^ (!v[4] & v[6]);
        let t1 = v[7].wrapping_add(s1).wrapping_add(ch).wrapping_add(K[i]).wrapping_add(w[i]);
        let s0 = v[0].rotate_right(2) ^ v[0].rotate_right(13) ^ v[0].rotate_right(22);
        let maj = (v[0] & v[1]) ^ (v[0] & v[2]) ^ (v[1] & v[2]);
        let t2 = s0.wrapping_add(maj);
        v = [t1.wrapping_add(t2), v[0], v[1], v[2], v[3].wrapping_add(t1), v[4], v[5], v[6]];
    }
    for i in 0..8 {
        h[i] = h[i].wrapping_add(v[i]);
    }
    (h[0] >> 24) as u8
}

fn relset<R: Relation<Instance = Vec<F>, Witness = Vec<F>>>(
    name: &'static str,
    srs_big: &ParamsKZG<E>,
    rel: &R,
    npi: usize,
    cases: Vec<(Vec<F>, Vec<F>)>,
) -> RelSet {
    let k = MidnightCircuit::from_relation(rel).min_k();
    let mut srs = srs_big.clone();
    srs.downsize(k);
    let vk = midnight_zk_stdlib::setup_vk(&srs, rel);
    let pk = midnight_zk_stdlib::setup_pk(rel, &vk);
    let honest = cases
        .into_iter()
        .enumerate()
        .map(|(j, (inst, wit))| {
            let proof = midnight_zk_stdlib::prove::<R, Blake2bState>(&srs, &pk, rel, &inst, wit, ChaCha8Rng::seed_from_u64(0xC15 + j as u64))
                .unwrap_or_else(|e| panic!("honest proof of {name}: {e:?}"));
            (inst, proof)
        })
        .collect();
    RelSet { name, vk, npi, k, honest }
}

impl Real {
    pub fn build(ctx: &mut Ctx, with_d: bool) -> Real {
        let f = |v: u64| F::from(v);
        let ka = MidnightCircuit::from_relation(&RelA).min_k();
        let kb = MidnightCircuit::from_relation(&RelB).min_k();
        let kc = MidnightCircuit::from_relation(&RelC).min_k();
        let kd = if with_d { MidnightCircuit::from_relation(&RelD).min_k() } else { 0 };
        let kmax = ka.max(kb).max(kc).max(kd);
        let (srs, tau) = crate::synth::params_with_tau(kmax, 0xC15_5125);
        let mut rels = vec![];
        rels.push(relset("A", &srs, &RelA, 1, vec![
            (vec![f(6)], vec![f(2), f(3)]),
            (vec![f(35)], vec![f(5), f(7)]),
            (vec![F::ZERO], vec![F::ZERO, f(9)]),
        ]));
        let wb = |a: u64| vec![f(a), f(a + 1), f(a + 2)];
        rels.push(relset("B", &srs, &RelB, 1, vec![
            (vec![<PoseidonChip<F> as HashCPU<F, F>>::hash(&wb(1))], wb(1)),
            (vec![<PoseidonChip<F> as HashCPU<F, F>>::hash(&wb(10))], wb(10)),
        ]));
        rels.push(relset("C", &srs, &RelC, 2, vec![
            (vec![f(5), f(6)], vec![f(2), f(3)]),
            (vec![f(12), f(35)], vec![f(5), f(7)]),
        ]));
        if with_d {
            let pre = [1u8, 2, 3, 4];
            let d0 = sha2_first(&pre);
            rels.push(relset("D", &srs, &RelD, 2, vec![(
                vec![f(d0 as u64), f(1)],
                pre.iter().map(|b| f(*b as u64)).collect(),
            )]));
        }
        ctx.set_extra(
            "relations",
            json!(rels.iter().map(|r| json!({"name": r.name, "k": r.k, "npi": r.npi, "honest": r.honest.len(), "proof_len": r.honest[0].1.len()})).collect::<Vec<_>>()),
        );
        Real { vp: srs.verifier_params(), tau, rels, pts: Pts::default(), cache: HashMap::new(), stats_batches: 0 }
    }

    pub fn honest(&self, rel: usize, j: usize) -> Mem {
        let r = &self.rels[rel];
        let (pi, proof) = &r.honest[j % r.honest.len()];
        Mem { vk_of: rel, pi: pi.clone(), proof: proof.clone(), desc: format!("{}{}", r.name, j % r.honest.len()), shift: None }
    }

    fn key(m: &Mem) -> Vec<u8> {
        let mut k = vec![m.vk_of as u8];
        k.extend((m.pi.len() as u32).to_le_bytes());
        for p in &m.pi {
            k.extend_from_slice(p.to_repr().as_ref());
        }
        k.extend_from_slice(&m.proof);
        k
    }

    /// Pseudo-defect of an invalid member in the one-dimensional model: a non-zero scalar that
    /// is a function of the member's identity (equal members, equal defects).
    fn pseudo_defect(m: &Mem) -> F {
        let of = |bytes: &[u8]| {
            let h = blake2b_simd::blake2b(bytes);
            let d = crate::rec::sample_fq(h.as_bytes());
            if d == F::ZERO {
                F::ONE
            } else {
                d
            }
        };
        match &m.shift {
            // members of one π-shift family have proportional defects
            Some((base, a)) => {
                let mut k = b"pi-shift-family".to_vec();
                k.extend_from_slice(base);
                *a * of(&k)
            }
            None => of(&Self::key(m)),
        }
    }

    /// The honest member `m` with its final opening point π replaced by `π + a·G`.
    pub fn shifted(&self, m: &Mem, a: F) -> Mem {
        use group::GroupEncoding;
        assert!(m.shift.is_none());
        let n = m.proof.len();
        let mut repr = <G as GroupEncoding>::Repr::default();
        repr.as_mut().copy_from_slice(&m.proof[n - 48..]);
        let pi: G = Option::from(G::from_bytes(&repr)).expect("π of an honest proof");
        let pi2 = pi + G::generator() * a;
        let mut x = m.clone();
        x.proof[n - 48..].copy_from_slice(pi2.to_bytes().as_ref());
        x.shift = Some((Self::key(m), a));
        x.desc = format!("{}~pi+{}G", m.desc, fe_hex(&a));
        x
    }

    /// Everything the batching code can see of one member, obtained through the public
    /// single-proof entry points: `plonk::prepare` on the member's own transcript, the summary
    /// challenge, `assert_empty`, the guard's own pairing check, and `zk_stdlib::verify`.
    pub fn classify(&mut self, ctx: &mut Ctx, m: &Mem) -> Class {
        let key = Self::key(m);
        if let Some(c) = self.cache.get(&key) {
            return c.clone();
        }
        let rel = &self.rels[m.vk_of];
        let each = match catch(|| midnight_zk_stdlib::verify::<RelA, Blake2bState>(&self.vp, &rel.vk, &m.pi, None, &m.proof)) {
            Ok(r) => res_str(&r),
            Err(p) => {
                ctx.oracle_fail("verify:panic", "zk_stdlib::verify panics", json!({"member": m.desc, "panic": p}));
                "panic".to_string()
            }
        };
        let mut c = Class { tag: String::new(), guard: None, summary: None, each, trace: vec![] };
        if m.pi.len() != rel.npi {
            c.tag = "L".into();
        } else {
            // the recording hash is byte-for-byte the Blake2b transcript hash: same guard, same
            // challenges; its log is the member's own schedule (key representation, instances,
            // proof elements, challenges) as a stand-alone `prepare` performs it
            rec::reset(None);
            let mut t = CircuitTranscript::<RecH>::init_from_bytes(&m.proof);
            let r = catch(|| {
                prepare::<F, KZGCommitmentScheme<E>, CircuitTranscript<RecH>>(rel.vk.vk(), &[&[G::identity()]], &[&[&m.pi]], &mut t)
            });
            c.trace = rec::take_log().into_iter().filter(|(id, e)| *id == 0 && *e != Ev::Init).map(|(_, e)| e).collect();
            match r {
                Err(_) => c.tag = "P".into(),
                Ok(Err(e)) => c.tag = format!("E:{}", err_name(&e)),
                Ok(Ok(g)) => {
                    c.summary = Some(t.squeeze_challenge::<F>());
                    if t.assert_empty().is_err() {
                        c.tag = "T".into();
                    } else if g.clone().check(&self.vp) {
                        c.tag = "G".into();
                    } else {
                        c.tag = "B".into();
                    }
                    c.guard = Some(g);
                }
            }
        }
        ctx.count(&format!("member-class:{}", c.tag.split(':').next().unwrap()));
        self.cache.insert(key, c.clone());
        c
    }

    fn member_text(m: &Mem, c: &Class) -> String {
        // one-dimensional realisation over τ = 1
        let good = "0x1:0x1:n|0x1:0x1:n".to_string();
        match c.tag.as_str() {
            "L" => format!("0;0;D{good}"),
            "T" => format!("1;1;D{good}"),
            "G" => format!("1;0;D{good}"),
            "B" => format!("1;0;D0x1:0x1:n|0x1:{}:n", fe_hex(&(F::ONE - Self::pseudo_defect(m)))),
            t if t.starts_with("E:") => format!("1;0;E{}", &t[2..]),
            _ => "1;0;Epanic".to_string(),
        }
    }

    fn call_batch<H>(&self, nv: usize, np: usize, npr: usize, ms: &[Mem]) -> Result<Result<(), Error>, String>
    where
        H: midnight_proofs::transcript::TranscriptHash,
        G: midnight_proofs::transcript::Hashable<H>,
        F: midnight_proofs::transcript::Hashable<H> + midnight_proofs::transcript::Sampleable<H>,
    {
        // slices of possibly different lengths (cyclic reuse of the members' components)
        let n = ms.len().max(1);
        let vks: Vec<MidnightVK> = (0..nv).map(|i| self.rels[ms[i % n].vk_of].vk.clone()).collect();
        let pis: Vec<Vec<F>> = (0..np).map(|i| ms[i % n].pi.clone()).collect();
        let proofs: Vec<Vec<u8>> = (0..npr).map(|i| ms[i % n].proof.clone()).collect();
        catch(|| midnight_zk_stdlib::batch_verify::<H>(&self.vp, &vks, &pis, &proofs))
    }

    /// One batch through the real `batch_verify` (honest transcript hash), with every oracle and
    /// every correspondence line derived from it. `kind` labels the distribution.
    pub fn batch(&mut self, ctx: &mut Ctx, kind: &str, ms: &[Mem]) {
        self.batch_lens(ctx, kind, ms, ms.len(), ms.len(), ms.len());
    }

    pub fn batch_lens(&mut self, ctx: &mut Ctx, kind: &str, ms: &[Mem], nv: usize, np: usize, npr: usize) {
        self.stats_batches += 1;
        let classes: Vec<Class> = ms.iter().map(|m| self.classify(ctx, m)).collect();
        let descr = ms.iter().map(|m| m.desc.clone()).collect::<Vec<_>>().join(",");
        let hexs = |b: &[u8]| b.iter().map(|x| format!("{x:02x}")).collect::<String>();
        // everything needed to replay: key (relation name, k), raw public inputs, proof bytes
        let detail = json!({"kind": kind, "members": descr, "classes": classes.iter().map(|c| c.tag.clone()).collect::<Vec<_>>(), "lens": [nv, np, npr],
            "replay": ms.iter().map(|m| json!({"vk_of_relation": self.rels[m.vk_of].name, "k": self.rels[m.vk_of].k, "public_inputs": m.pi.iter().map(fe_hex).collect::<Vec<_>>(), "proof_hex": hexs(&m.proof)})).collect::<Vec<_>>(),
            "srs": "ParamsKZG::unsafe_setup(kmax, ChaCha8Rng::seed_from_u64(0xC155125)); relations RelA..RelD of harness/c15/src/real.rs"});
        // the members the model sees are the first `nv` (zip of three slices stops at the shortest,
        // but a mismatch is rejected before)
        let seen: Vec<usize> = (0..nv).map(|i| i % ms.len().max(1)).filter(|_| !ms.is_empty()).collect();
        let seen_ms: Vec<&Mem> = seen.iter().map(|i| &ms[*i]).collect();
        let seen_cl: Vec<&Class> = seen.iter().map(|i| &classes[*i]).collect();

        rec::reset(None);
        let got = self.call_batch::<RecH>(nv, np, npr, ms);
        let log = rec::take_log();
        let plain = self.call_batch::<Blake2bState>(nv, np, npr, ms);
        let (res, plain) = match (got, plain) {
            (Ok(r), Ok(p)) => (r, p),
            (g, p) => {
                let key = if ms.is_empty() { "batch_verify:empty" } else { "batch_verify:panic" };
                ctx.oracle_fail(key, "zk_stdlib::batch_verify panics", json!({"batch": detail, "panic": format!("{:?} / {:?}", g.err(), p.err())}));
                ctx.case(kind, true, &format!("rbatch {np} {npr} {}", seen_cl.iter().map(|c| c.tag.clone()).collect::<Vec<_>>().join(" ")).trim_end().to_string(), "panic");
                return;
            }
        };
        if res_str(&res) != res_str(&plain) {
            ctx.oracle_fail("harness:recording-hash-differs", "the recording hash changes the verdict of batch_verify", detail.clone());
        }
        // ---- the property: accepted iff every member is accepted on its own
        let each_ok = seen_cl.iter().all(|c| c.each == "ok");
        let lens_ok = np == nv && npr == nv;
        if lens_ok {
            if res.is_ok() && !each_ok {
                ctx.oracle_fail("batch_verify:accepts-invalid-member", "batch_verify accepts a batch with a member that verify rejects", detail.clone());
            }
            if res.is_err() && each_ok {
                ctx.oracle_fail("batch_verify:rejects-valid-batch", "batch_verify rejects a batch all of whose members verify accepts", detail.clone());
            }
        } else if res.is_ok() {
            ctx.oracle_fail("batch_verify:accepts-length-mismatch", "batch_verify accepts slices of different lengths", detail.clone());
        }
        ctx.count(&format!("{kind}:n={}:{}", nv, if res.is_ok() { "accepted" } else { "rejected" }));
        // ---- class-level line
        let each_s = if lens_ok { mzkh::join(&seen_cl.iter().map(|c| c.each.clone()).collect::<Vec<_>>()) } else { mzkh::join(&seen_cl.iter().map(|c| c.each.clone()).collect::<Vec<_>>()) };
        let line = format!("rbatch {np} {npr} {}", seen_cl.iter().map(|c| c.tag.clone()).collect::<Vec<_>>().join(" "));
        ctx.case(kind, nv > 0, line.trim_end(), &format!("batch={} each={}", res_str(&res), each_s));
        // ---- schedule of the batching transcript (instance 0 of the recording hash)
        let ev0: Vec<String> = log
            .iter()
            .filter(|(id, _)| *id == 0)
            .map(|(_, e)| match e {
                Ev::Init => "init".to_string(),
                Ev::Absorb(b) => format!("absorb:{}", mzkh::le_bytes_hex(b)),
                Ev::Squeeze(_) => "squeeze".to_string(),
            })
            .collect();
        let sched = format!(
            "rsched {np} {npr} {}",
            seen_cl.iter().map(|c| match c.summary { Some(s) => format!("{}@{}", c.tag, fe_hex(&s)), None => c.tag.clone() }).collect::<Vec<_>>().join(" ")
        );
        ctx.case("rsched", nv > 0, sched.trim_end(), &if ev0.is_empty() { "-".to_string() } else { ev0.join(" ") });
        // ---- every hasher operation in program order (kinds, byte lengths, which transcript):
        // the model composes the members' stand-alone schedules; `r` must come last
        let ev_tok = |e: &Ev| match e {
            Ev::Init => (0usize, 0usize),
            Ev::Absorb(b) => (1, b.len()),
            Ev::Squeeze(_) => (2, 0),
        };
        let gline = format!(
            "gsched {np} {npr} {}",
            seen_cl
                .iter()
                .map(|c| {
                    let stage = match c.tag.as_str() { "L" => 0, "T" => 2, "G" | "B" => 3, _ => 1 };
                    let tr: Vec<String> = c.trace.iter().map(|e| { let (k, l) = ev_tok(e); format!("{k}/{l}") }).collect();
                    format!("{stage}:{}", mzkh::join(&tr))
                })
                .collect::<Vec<_>>()
                .join(" ")
        );
        let gall: Vec<String> = log.iter().map(|(id, e)| { let (k, l) = ev_tok(e); format!("{id}.{k}.{l}") }).collect();
        ctx.case("gsched", nv > 0, gline.trim_end(), &if gall.is_empty() { "-".to_string() } else { gall.join(" ") });
        // what member i absorbs inside the batch is, byte for byte, what it absorbs stand-alone,
        // and the scalar absorbed into the batching transcript after it is ITS summary
        if lens_ok {
            let mut absorbed0 = log.iter().filter_map(|(id, e)| match (id, e) { (0, Ev::Absorb(b)) => Some(b.clone()), _ => None });
            for (i, c) in seen_cl.iter().enumerate() {
                let own: Vec<&Ev> = log.iter().filter(|(id, e)| *id == i + 1 && *e != Ev::Init).map(|(_, e)| e).collect();
                if own.is_empty() && c.tag == "L" {
                    break;
                }
                let n = c.trace.len().min(own.len());
                if own.len() < c.trace.len() || own[..n].iter().zip(c.trace.iter()).any(|(a, b)| **a != *b) {
                    fail_limited(ctx, "batch_verify:member-transcript-differs", "inside batch_verify a member's transcript does not absorb/squeeze what its stand-alone prepare does", json!({"member": i, "batch": detail}));
                }
                if let Some(s) = c.summary {
                    match absorbed0.next() {
                        Some(b) if b == s.to_repr().as_ref() => ctx.count("gsched:summary-absorbed-in-position"),
                        _ => fail_limited(ctx, "batch_verify:summary-not-absorbed", "the batching transcript does not absorb the member's summary challenge at the member's position", json!({"member": i, "batch": detail})),
                    }
                }
                if !(c.tag == "G" || c.tag == "B") {
                    break;
                }
            }
            // r is squeezed after the LAST absorption, and only once
            let pos_sq: Vec<usize> = log.iter().enumerate().filter(|(_, (id, e))| *id == 0 && matches!(e, Ev::Squeeze(_))).map(|(i, _)| i).collect();
            if seen_cl.iter().all(|c| c.tag == "G" || c.tag == "B") && (pos_sq.len() != 1 || pos_sq[0] != log.len() - 1) {
                fail_limited(ctx, "batch_verify:r-not-last", "the batching challenge is not squeezed after every member's transcript operations", json!({"squeezes_at": pos_sq, "log_len": log.len(), "batch": detail}));
            }
        }
        // ---- the actual challenge r, the model of the loop at that r, replay of the loop
        let r = log.iter().find_map(|(id, e)| match (id, e) {
            (0, Ev::Squeeze(o)) => Some(rec::sample_fq(o)),
            _ => None,
        });
        if let Some(r) = r {
            let line = format!(
                "batch 0x1 {} {np} {npr} {}",
                fe_hex(&r),
                seen_ms.iter().zip(seen_cl.iter()).map(|(m, c)| Self::member_text(m, c)).collect::<Vec<_>>().join(" ")
            );
            ctx.case("batch-at-r", nv > 0, line.trim_end(), &format!("batch={} each={}", res_str(&res), each_s));
            if seen_cl.iter().all(|c| c.guard.is_some()) && !seen_cl.is_empty() {
                let mut acc = seen_cl[0].guard.clone().unwrap();
                for c in seen_cl.iter().skip(1) {
                    acc.scale(r);
                    acc.add_msm(c.guard.clone().unwrap());
                }
                if acc.check(&self.vp) != res.is_ok() && seen_cl.iter().all(|c| c.tag == "G" || c.tag == "B") {
                    ctx.oracle_fail("batch_verify:not-horner-of-guards", "batch_verify differs from the check of Σ r^(n-1-i)·guardᵢ at its own challenge r", detail.clone());
                }
                ctx.count("horner-replay");
            }
        }
    }

    /// `batch_verify` with the batching challenge forced to `r` (a legitimate instantiation of
    /// the `H: TranscriptHash` parameter): the model of the loop at that `r` must agree,
    /// including batches with invalid members accepted at a root of the combination polynomial.
    pub fn batch_forced(&mut self, ctx: &mut Ctx, kind: &str, ms: &[Mem], r: F) {
        let classes: Vec<Class> = ms.iter().map(|m| self.classify(ctx, m)).collect();
        rec::reset(Some(r));
        let got = self.call_batch::<RecH>(ms.len(), ms.len(), ms.len(), ms);
        let _ = rec::take_log();
        let n = ms.len();
        let line = format!(
            "batch 0x1 {} {n} {n} {}",
            fe_hex(&r),
            ms.iter().zip(classes.iter()).map(|(m, c)| Self::member_text(m, c)).collect::<Vec<_>>().join(" ")
        );
        let each_s = mzkh::join(&classes.iter().map(|c| c.each.clone()).collect::<Vec<_>>());
        let s = match &got {
            Ok(r) => res_str(r),
            Err(_) => "panic".into(),
        };
        let invalid = classes.iter().any(|c| c.each != "ok");
        ctx.count(&format!("{kind}:{}", if s == "ok" { if invalid { "accepted-at-root" } else { "accepted" } } else { "rejected" }));
        ctx.case(kind, true, line.trim_end(), &format!("batch={s} each={each_s}"));
    }

    /// The multi-opening challenge x₃ of an honest member: the scalar of the `π` term on the right
    /// side of its guard (`… + x₃·π − v·G`).
    fn x3_of(&mut self, ctx: &mut Ctx, m: &Mem) -> Option<F> {
        let c = self.classify(ctx, m);
        let g = c.guard?;
        let (_, right) = g.split();
        right.iter().find_map(|(l, s, _)| match l {
            midnight_proofs::poly::CommitmentLabel::Custom(n) if n == "π" => Some(**s),
            _ => None,
        })
    }

    /// Coordinated alteration of TWO DIFFERENT honest proofs: `π₁ + (τ − x₃⁽²⁾)·G` and
    /// `π₂ − (τ − x₃⁽¹⁾)·G` (points computable from the proofs and `[τ]G` of the public SRS).
    /// The defects are `±(τ − x₃⁽¹⁾)(τ − x₃⁽²⁾)·G`: opposite, so the pair passes iff the two
    /// positions get the same combination coefficient.
    pub fn cross_pair(&mut self, ctx: &mut Ctx, m1: &Mem, m2: &Mem) -> Option<(Mem, Mem)> {
        let (x1, x2) = (self.x3_of(ctx, m1)?, self.x3_of(ctx, m2)?);
        let mut fam = b"cross-pair".to_vec();
        fam.extend(Self::key(m1));
        fam.extend(Self::key(m2));
        let mut a = self.shifted(m1, self.tau - x2);
        let mut b = self.shifted(m2, -(self.tau - x1));
        a.shift = Some((fam.clone(), F::ONE));
        b.shift = Some((fam, -F::ONE));
        a.desc = format!("{}~pi+(tau-x3[{}])G", m1.desc, m2.desc);
        b.desc = format!("{}~pi-(tau-x3[{}])G", m2.desc, m1.desc);
        Some((a, b))
    }

    /// The batching challenge `batch_verify` draws on this batch (recording hash), if it gets
    /// that far.
    pub fn learn_r(&self, ms: &[Mem]) -> Option<F> {
        rec::reset(None);
        let _ = self.call_batch::<RecH>(ms.len(), ms.len(), ms.len(), ms);
        rec::take_log().iter().find_map(|(id, e)| match (id, e) {
            (0, Ev::Squeeze(o)) => Some(rec::sample_fq(o)),
            _ => None,
        })
    }

    /// The attack that works iff the batching challenge does not depend on member `j`: all
    /// members valid except `i` (π shifted by `G`); learn `r`; replace member `j` by the π-shift
    /// that cancels member `i` AT THAT `r` (`a_j = −r^(j−i)`); submit. With a challenge that
    /// absorbs every member the second run draws a different `r` and rejects.
    pub fn adaptive_attack(&mut self, ctx: &mut Ctx, fill: &[Mem], base: &Mem, i: usize, j: usize) {
        assert!(i != j);
        let mut ms = fill.to_vec();
        ms[i] = self.shifted(base, F::ONE);
        ms[j] = self.shifted(base, F::ZERO);
        let Some(r) = self.learn_r(&ms) else { return };
        let a_j = if j > i { -r.pow([(j - i) as u64]) } else { -r.invert().unwrap_or(F::ONE).pow([(i - j) as u64]) };
        ms[j] = self.shifted(base, a_j);
        self.batch(ctx, "batch:adaptive-attack", &ms);
    }

    // ------------------------------------------------------------------ invalid members
    pub fn corrupt(&self, rng: &mut ChaCha8Rng, m: &Mem) -> Mem {
        let mut x = m.clone();
        x.shift = None;
        let pos = rng.gen_range(0..x.proof.len());
        x.proof[pos] ^= 1 << rng.gen_range(0..8);
        x.desc = format!("{}~flip{}", m.desc, pos);
        x
    }
    /// Flip inside the evaluations part of the proof (scalars: stays parseable with high
    /// probability, the guard becomes invalid).
    pub fn corrupt_eval(&self, rng: &mut ChaCha8Rng, m: &Mem) -> Mem {
        let mut x = m.clone();
        x.shift = None;
        // the last 48 bytes are π, before that q_evals (32 bytes each)
        let pos = x.proof.len() - 48 - 1 - rng.gen_range(0..24);
        x.proof[pos] ^= 1 << rng.gen_range(0..6);
        x.desc = format!("{}~eval{}", m.desc, pos);
        x
    }
    pub fn wrong_pi(&self, rng: &mut ChaCha8Rng, m: &Mem) -> Mem {
        let mut x = m.clone();
        x.shift = None;
        let j = rng.gen_range(0..x.pi.len());
        x.pi[j] += F::from(rng.gen_range(1..5u64));
        x.desc = format!("{}~pi{}", m.desc, j);
        x
    }
    pub fn wrong_vk(&self, rng: &mut ChaCha8Rng, m: &Mem) -> Mem {
        let mut x = m.clone();
        x.shift = None;
        let others: Vec<usize> = (0..self.rels.len()).filter(|i| *i != m.vk_of).collect();
        x.vk_of = *others.choose(rng).unwrap();
        x.desc = format!("{}~vk{}", m.desc, self.rels[x.vk_of].name);
        x
    }
    pub fn truncated(&self, rng: &mut ChaCha8Rng, m: &Mem) -> Mem {
        let mut x = m.clone();
        x.shift = None;
        let cut = rng.gen_range(1..40);
        x.proof.truncate(x.proof.len() - cut);
        x.desc = format!("{}~cut{}", m.desc, cut);
        x
    }
    pub fn trailing(&self, rng: &mut ChaCha8Rng, m: &Mem) -> Mem {
        let mut x = m.clone();
        x.shift = None;
        for _ in 0..rng.gen_range(1..4) {
            x.proof.push(rng.gen());
        }
        x.desc = format!("{}~trail", m.desc);
        x
    }
    pub fn pi_len(&self, rng: &mut ChaCha8Rng, m: &Mem) -> Mem {
        let mut x = m.clone();
        x.shift = None;
        if rng.gen_bool(0.5) {
            x.pi.push(F::ONE);
        } else {
            x.pi.pop();
        }
        x.desc = format!("{}~pilen", m.desc);
        x
    }
    /// Proof of another statement of the same relation (valid proof, wrong public input).
    pub fn swapped(&self, m: &Mem) -> Mem {
        let r = &self.rels[m.vk_of];
        let j = r.honest.iter().position(|(pi, _)| *pi != m.pi).unwrap_or(0);
        let mut x = m.clone();
        x.shift = None;
        x.proof = r.honest[j].1.clone();
        x.desc = format!("{}~proofof{}", m.desc, j);
        x
    }

    pub fn invalid(&self, rng: &mut ChaCha8Rng, m: &Mem, how: usize) -> Mem {
        match how % 9 {
            0 => self.corrupt_eval(rng, m),
            1 => self.wrong_pi(rng, m),
            2 => self.wrong_vk(rng, m),
            3 => self.corrupt(rng, m),
            4 => self.truncated(rng, m),
            5 => self.trailing(rng, m),
            6 => self.pi_len(rng, m),
            7 => self.swapped(m),
            _ => self.corrupt(rng, m),
        }
    }

    pub fn random_honest(&self, rng: &mut ChaCha8Rng) -> Mem {
        let rel = rng.gen_range(0..self.rels.len());
        self.honest(rel, rng.gen_range(0..8))
    }

    // ------------------------------------------------------------------ accumulators of real guards
    /// Accumulator of one member's guard, with the fixed bases of its key under `name`.
    fn real_acc(&mut self, ctx: &mut Ctx, m: &Mem, c: &Class, name: &str, emit: bool) -> Option<(Accumulator<S>, BTreeMap<String, G>, bool)> {
        let g = c.guard.clone()?;
        let fb = verifier::fixed_bases::<S>(name, self.rels[m.vk_of].vk.vk());
        let got = catch(|| Accumulator::<S>::from_dual_msm(g.clone(), name, &fb));
        let gchk = g.clone().check(&self.vp);
        // structure line with opaque identifiers
        let dual_text = dual_str_opaque(&g, &mut self.pts);
        let fb_text = mzkh::join(&fb.iter().map(|(k, b)| format!("{k}={}", self.pts.opaque(b))).collect::<Vec<_>>());
        match got {
            Ok(acc) => {
                if emit {
                    ctx.case("fromdual:real-guard", true, &format!("fromdual {name} {dual_text} {fb_text}"), &acc_str(&acc, &self.pts, false));
                }
                let tau_g2: <S as SelfEmulation>::G2Affine = (G2Projective::generator() * self.tau).into();
                let achk = acc.check(&tau_g2, &fb);
                if achk != gchk {
                    ctx.oracle_fail("from_dual_msm:changes-verdict", "Accumulator::from_dual_msm(guard).check differs from guard.check on a real proof", json!({"member": m.desc, "acc": achk, "guard": gchk}));
                }
                Some((acc, fb, gchk))
            }
            Err(p) => {
                // with the WRONG key's fixed bases the sanity assertion fires: that is the
                // documented behaviour (model: `panic`)
                if emit {
                    ctx.case("fromdual:real-guard", true, &format!("fromdual {name} {dual_text} {fb_text}"), "panic");
                }
                ctx.oracle_fail("from_dual_msm:panic-on-own-key", "Accumulator::from_dual_msm panics on a guard prepared under the same key", json!({"member": m.desc, "panic": p}));
                None
            }
        }
    }

    pub fn accumulate(&mut self, ctx: &mut Ctx, kind: &str, ms: &[Mem], emit_struct: bool) {
        let classes: Vec<Class> = ms.iter().map(|m| self.classify(ctx, m)).collect();
        let mut accs = vec![];
        let mut fb_all: BTreeMap<String, G> = BTreeMap::new();
        let mut each = vec![];
        for (m, c) in ms.iter().zip(classes.iter()) {
            let name = format!("vk{}", self.rels[m.vk_of].name);
            let Some((acc, fb, ok)) = self.real_acc(ctx, m, c, &name, emit_struct) else { return };
            fb_all.extend(fb);
            accs.push(acc);
            each.push(ok);
        }
        let tau_g2: <S as SelfEmulation>::G2Affine = (G2Projective::generator() * self.tau).into();
        let detail = json!({"members": ms.iter().map(|m| m.desc.clone()).collect::<Vec<_>>(), "each": each});
        let hash_input: Vec<F> = accs.iter().flat_map(AssignedAccumulator::<S>::as_public_input).collect();
        let r = <PoseidonChip<F> as HashCPU<F, F>>::hash(&hash_input);
        let out = match catch(|| Accumulator::<S>::accumulate(&accs)) {
            Ok(o) => o,
            Err(p) => {
                ctx.oracle_fail("accumulate:panic", "Accumulator::accumulate panics on a non-empty slice", json!({"batch": detail, "panic": p}));
                return;
            }
        };
        let chk = out.check(&tau_g2, &fb_all);
        let mut col = out.clone();
        col.collapse();
        let cchk = col.check(&tau_g2, &fb_all);
        let want = each.iter().all(|b| *b);
        if chk != want {
            ctx.oracle_fail(if want { "accumulate:rejects-valid" } else { "accumulate:accepts-invalid" }, "check of Accumulator::accumulate differs from the conjunction of the members' guard checks (real proofs)", detail.clone());
        }
        if cchk != chk {
            ctx.oracle_fail("accumulator:collapse-changes-verdict", "Accumulator::collapse changes the result of check (real proofs)", detail.clone());
        }
        // collapsed members first, as in the IVC example
        let collapsed: Vec<Accumulator<S>> = accs.iter().map(|a| { let mut c = a.clone(); c.collapse(); c }).collect();
        let out2 = Accumulator::<S>::accumulate(&collapsed);
        if out2.check(&tau_g2, &fb_all) != want {
            ctx.oracle_fail(if want { "accumulate:rejects-valid" } else { "accumulate:accepts-invalid" }, "accumulate of collapsed accumulators differs from the conjunction (real proofs)", detail.clone());
        }
        ctx.count(&format!("{kind}:n={}:{}", ms.len(), if want { "all-valid" } else { "has-invalid" }));
        // class-level model line: one-dimensional accumulators with the same verdicts, same r
        let pseudo: Vec<String> = ms
            .iter()
            .zip(each.iter())
            .map(|(m, ok)| {
                let d = if *ok { F::ZERO } else { Self::pseudo_defect(m) };
                format!("0x1:0x1;-|0x1:{};-", fe_hex(&(F::ONE - d)))
            })
            .collect();
        ctx.case(kind, true, &format!("accumulate-check 0x1 {} - {}", fe_hex(&r), pseudo.join(" ")), &format!("{} {}", chk as u8, cchk as u8));
        if emit_struct {
            let texts: Vec<String> = accs.iter().map(|a| acc_str(a, &self.pts, false)).collect();
            ctx.case("accumulate:real-guards", true, &format!("accumulate {} {}", fe_hex(&r), texts.join(" ")), &acc_str(&out, &self.pts, false));
        }
    }

    /// The same adaptive attack on `Accumulator::accumulate`: the challenge actually used is
    /// visible in the output (`lhs` scalars are `1, r, r², …` for proof accumulators); member `j`
    /// is then replaced by the π-shift that cancels member `i` at that challenge
    /// (`Σ rᵏ·δₖ = 0` ⇒ `a_j = −r^(i−j)`). A challenge that hashes every member changes.
    pub fn adaptive_accumulate(&mut self, ctx: &mut Ctx, fill: &[Mem], base: &Mem, i: usize, j: usize) {
        assert!(i != j && fill.len() >= 2);
        let mut ms = fill.to_vec();
        ms[i] = self.shifted(base, F::ONE);
        ms[j] = self.shifted(base, F::ZERO);
        let mut accs = vec![];
        for m in &ms {
            let c = self.classify(ctx, m);
            let name = format!("vk{}", self.rels[m.vk_of].name);
            let Some((acc, _, _)) = self.real_acc(ctx, m, &c, &name, false) else { return };
            accs.push(acc);
        }
        let out = Accumulator::<S>::accumulate(&accs);
        let sc = out.lhs().scalars();
        if sc.len() != ms.len() || sc[0] != F::ONE {
            return;
        }
        let r = sc[1];
        let a_j = if i > j { -r.pow([(i - j) as u64]) } else { -r.invert().unwrap_or(F::ONE).pow([(j - i) as u64]) };
        ms[j] = self.shifted(base, a_j);
        self.accumulate(ctx, "accumulate:real:adaptive-attack", &ms, false);
    }

    /// Regression of 348977f on real proofs: the batched guard `Σ r^(n-1-i)·guardᵢ` of several
    /// proofs under ONE key, converted with `from_dual_msm`, must check like the batched guard.
    pub fn from_dual_of_batched(&mut self, ctx: &mut Ctx, ms: &[Mem], r: F) {
        let classes: Vec<Class> = ms.iter().map(|m| self.classify(ctx, m)).collect();
        if classes.iter().any(|c| c.guard.is_none()) || ms.iter().any(|m| m.vk_of != ms[0].vk_of) {
            return;
        }
        let mut acc = classes[0].guard.clone().unwrap();
        for c in classes.iter().skip(1) {
            acc.scale(r);
            acc.add_msm(c.guard.clone().unwrap());
        }
        let name = format!("vk{}", self.rels[ms[0].vk_of].name);
        let fb = verifier::fixed_bases::<S>(&name, self.rels[ms[0].vk_of].vk.vk());
        let gchk = acc.clone().check(&self.vp);
        let tau_g2: <S as SelfEmulation>::G2Affine = (G2Projective::generator() * self.tau).into();
        let detail = json!({"members": ms.iter().map(|m| m.desc.clone()).collect::<Vec<_>>(), "r": fe_hex(&r)});
        match catch(|| Accumulator::<S>::from_dual_msm(acc.clone(), &name, &fb)) {
            Ok(a) => {
                let achk = a.check(&tau_g2, &fb);
                ctx.count(&format!("fromdual:real-batched-guard:n={}:{}", ms.len(), if gchk { "valid" } else { "invalid" }));
                if achk != gchk {
                    ctx.oracle_fail("from_dual_msm:repeated-label", "Accumulator::from_dual_msm of a batched real guard: check differs from the guard's check", detail);
                }
                let dual_text = dual_str_opaque(&acc, &mut self.pts);
                let fb_text = mzkh::join(&fb.iter().map(|(k, b)| format!("{k}={}", self.pts.opaque(b))).collect::<Vec<_>>());
                ctx.case("fromdual:real-batched-guard", true, &format!("fromdual {name} {dual_text} {fb_text}"), &acc_str(&a, &self.pts, false));
            }
            Err(p) => ctx.oracle_fail("from_dual_msm:panic", "Accumulator::from_dual_msm panics on a batched real guard", json!({"batch": detail, "panic": p})),
        }
    }

    pub fn shuffle(rng: &mut ChaCha8Rng, ms: &mut [Mem]) {
        ms.shuffle(rng);
    }
}
