//! Dump of the real constraint system (gates, lookups, column layout) of the native chip +
//! pow2range chip configuration, for every pow2range column count 1..=4.
use ff::PrimeField;
use midnight_proofs::plonk::{ConstraintSystem, Expression};
use mzkh::fe_hex;
use serde_json::{json, Value};

use crate::{
    prog::{configure, Params},
    F,
};

pub fn expr_json(e: &Expression<F>) -> Value {
    match e {
        Expression::Constant(c) => json!({"t": "const", "v": fe_hex(c)}),
        Expression::Selector(s) => json!({"t": "sel", "i": s.index(), "simple": s.is_simple()}),
        Expression::Fixed(q) => json!({"t": "fixed", "c": q.column_index(), "r": q.rotation().0}),
        Expression::Advice(q) => json!({"t": "adv", "c": q.column_index(), "r": q.rotation().0}),
        Expression::Instance(q) => json!({"t": "inst", "c": q.column_index(), "r": q.rotation().0}),
        Expression::Challenge(c) => json!({"t": "chal", "i": c.index()}),
        Expression::Negated(a) => json!({"t": "neg", "a": expr_json(a)}),
        Expression::Sum(a, b) => json!({"t": "sum", "a": expr_json(a), "b": expr_json(b)}),
        Expression::Product(a, b) => json!({"t": "prod", "a": expr_json(a), "b": expr_json(b)}),
        Expression::Scaled(a, c) => json!({"t": "scaled", "a": expr_json(a), "v": fe_hex(c)}),
    }
}

pub fn cs_json(nr_cols: usize) -> Value {
    let mut cs = ConstraintSystem::<F>::default();
    let cfg = configure(&mut cs, &Params { nr_cols, max_bit_len: 8 });
    let gates: Vec<Value> = cs
        .gates()
        .iter()
        .map(|g| {
            json!({
                "name": g.name(),
                "polys": g.polynomials().iter().map(expr_json).collect::<Vec<_>>(),
            })
        })
        .collect();
    let lookups: Vec<Value> = cs
        .lookups()
        .iter()
        .map(|l| {
            json!({
                "name": l.name(),
                "inputs": l.input_expressions().iter().map(expr_json).collect::<Vec<_>>(),
                "table": l.table_expressions().iter().map(expr_json).collect::<Vec<_>>(),
            })
        })
        .collect();
    json!({
        "nr_cols": nr_cols,
        "num_advice": cs.num_advice_columns(),
        "num_fixed": cs.num_fixed_columns(),
        "num_selectors": cs.num_selectors(),
        "advice_cols": cfg.advice.iter().map(|c| c.index()).collect::<Vec<_>>(),
        "fixed_cols": cfg.fixed.iter().map(|c| c.index()).collect::<Vec<_>>(),
        "gates": gates,
        "lookups": lookups,
    })
}

pub fn dump(path: &str) {
    let configs: Vec<Value> = (1..=4).map(cs_json).collect();
    let modulus = F::MODULUS.to_string();
    let out = json!({
        "modulus": modulus,
        "num_bits": F::NUM_BITS,
        "configs": configs,
    });
    std::fs::write(path, serde_json::to_vec_pretty(&out).unwrap()).unwrap();
}
