//! Oracles of the second extension round, all through the REAL chips and the real `MockProver`,
//! none through the Lean model:
//!
//! * `vector_oracle`: for every shape `(M, A)` of the sweep and EVERY length `0..=M`, two vectors
//!   that differ in exactly one payload entry must not be declared equal (`is_equal` = 0,
//!   `assert_equal` unsatisfiable, `assert_not_equal` satisfiable); two vectors that differ only in
//!   their fillers must be declared equal; vectors of different lengths with the same leading data
//!   must not be declared equal.
//! * `vec_value_oracle`: `InnerValue::value` of every vector a program produces is the payload its
//!   definition prescribes (`assign`: the data; `resize`: unchanged; `trim_beginning(n)`: without
//!   the first `n` elements).
//! * `batch_oracle`: every cell returned by the batch assignments (`assign_many` of bits / bytes,
//!   `assign_many_small`) for 1..4 lookup columns and every batch length `0..=9` is range-checked: an
//!   out-of-range value written at ANY batch position of the honest advice table must be rejected.
use ff::Field;
use midnight_proofs::dev::CellValue;
use mzkh::{catch, fe_hex, Ctx};
use rand::Rng;
use serde_json::json;

use crate::{
    prog::{op, Arg::*, Op, Outcome, Params},
    run::{honest_accept, k_for, mock, record, run_case, Case},
    F,
};

fn mk(kind: &str, params: &Params, ops: Vec<Op>, inputs: Vec<F>, first_op: usize) -> Case {
    Case { kind: kind.into(), params: params.clone(), ops, inputs, first_op, deterministic: true, variants: vec![] }
}

fn key(case: &Case) -> String {
    format!("{} ; in={}", case.header(), mzkh::join(&case.inputs.iter().map(fe_hex).collect::<Vec<_>>()))
}

fn vassign(m: usize, a: usize, len: usize, filler: Option<F>) -> Op {
    match filler {
        None => op("vassign", vec![N(m as u64), N(a as u64), N(len as u64)]),
        Some(f) => op("vassignf", vec![N(m as u64), N(a as u64), N(len as u64), C(f)]),
    }
}

/// One pair of vectors: the program `x ; y ; is_equal(x, y) ; assert_[not_]equal(x, y)` with the
/// assertion that SHOULD hold must be accepted with the expected `is_equal` bit, and the program
/// with the opposite assertion must be rejected.
#[allow(clippy::too_many_arguments)]
fn check_pair(
    ctx: &mut Ctx,
    params: &Params,
    (m, a): (usize, usize),
    x: (&[F], Option<F>),
    y: (&[F], Option<F>),
    expect_equal: bool,
    what: &str,
) {
    let (i, j) = (0usize, m + 1);
    let prefix = vec![vassign(m, a, x.0.len(), x.1), vassign(m, a, y.0.len(), y.1)];
    let shape = vec![N(m as u64), N(a as u64)];
    let vop = |name: &'static str| {
        let mut args = vec![V(i), V(j)];
        args.extend(shape.iter().cloned());
        op(name, args)
    };
    let inputs: Vec<F> = x.0.iter().chain(y.0.iter()).copied().collect();
    let (good, bad) = if expect_equal { ("vaeq", "vaneq") } else { ("vaneq", "vaeq") };
    let mut ops = prefix.clone();
    ops.push(vop("viseq"));
    ops.push(vop(good));
    let kind = format!("vo:{}", if expect_equal { "equal" } else { "differ" });
    let case = mk(&kind, params, ops, inputs.clone(), 2);
    let Some((rec, _)) = run_case(ctx, &case, true) else { return };
    ctx.count(&format!("vector-oracle:{what}:{}", if expect_equal { "equal" } else { "differ" }));
    if let Some(h) = honest_accept(ctx, &case, &rec) {
        let bit = h.outcome.vars.get(2 * (m + 1)).and_then(|v| v.4);
        let want = if expect_equal { F::ONE } else { F::ZERO };
        if h.verdict == Ok(true) && bit != Some(want) {
            ctx.oracle_fail(
                &format!("vector-equal:{}", key(&case)),
                if expect_equal {
                    "VectorGadget::is_equal declares two vectors with the same length and payload different (they differ only in fillers)"
                } else {
                    "VectorGadget::is_equal declares two different vectors equal (accepted by MockProver)"
                },
                json!({"case": key(&case), "shape": [m, a], "x": x.0.iter().map(fe_hex).collect::<Vec<_>>(),
                       "y": y.0.iter().map(fe_hex).collect::<Vec<_>>(), "difference": what,
                       "is_equal": bit.map(|b| fe_hex(&b)), "expected": fe_hex(&want)}),
            );
        }
    }
    // the opposite assertion must be unsatisfiable for the honest prover
    let mut ops = prefix;
    ops.push(vop(bad));
    let case2 = mk(&format!("{kind}:neg"), params, ops, inputs, 2);
    if let Ok((rec2, _)) = record(&case2) {
        let mr = mock(&case2, k_for(&rec2), vec![]);
        ctx.count("mock:vector-neg");
        if mr.verdict == Ok(true) {
            ctx.oracle_fail(
                &format!("vector-assert:{}", key(&case2)),
                if expect_equal {
                    "VectorGadget::assert_not_equal is satisfied by two vectors with the same length and payload"
                } else {
                    "VectorGadget::assert_equal is satisfied by two different vectors (accepted by MockProver)"
                },
                json!({"case": key(&case2), "shape": [m, a], "x": x.0.iter().map(fe_hex).collect::<Vec<_>>(),
                       "y": y.0.iter().map(fe_hex).collect::<Vec<_>>(), "difference": what}),
            );
        }
    }
}

pub fn vector_shapes(ctx: &Ctx) -> Vec<(usize, usize)> {
    if ctx.thorough() {
        crate::vecops::SHAPES.to_vec()
    } else if ctx.search() {
        // the failing-input search: small shapes first (every alignment class)
        vec![(4, 4), (4, 2), (4, 1), (8, 4), (6, 2), (6, 3), (16, 8)]
    } else {
        vec![(8, 4), (6, 2), (4, 1), (4, 4), (16, 8)]
    }
}

pub fn vector_oracle(ctx: &mut Ctx) {
    let params = Params { nr_cols: 4, max_bit_len: 8 };
    let mut rng = ctx.rng("vector-oracle");
    for (m, a) in vector_shapes(ctx) {
        for len in 0..=m {
            let data: Vec<F> = (0..len).map(|_| F::from(rng.gen_range(1..1000u64))).collect();
            // (i) exactly one payload entry differs
            let positions: Vec<usize> = if m <= 8 || ctx.thorough() {
                (0..len).collect()
            } else {
                let mut p = vec![0, len / 2, len.saturating_sub(1)];
                p.retain(|x| *x < len);
                p.sort();
                p.dedup();
                p
            };
            for j in positions {
                let mut d2 = data.clone();
                d2[j] += F::ONE;
                check_pair(ctx, &params, (m, a), (&data, None), (&d2, None), false, "one-payload-entry");
            }
            // (ii) only the fillers differ (zero vs non-zero, two non-zero fillers)
            let f1 = F::from(rng.gen_range(1..1000u64));
            let f2 = f1 + F::from(rng.gen_range(1..1000u64));
            check_pair(ctx, &params, (m, a), (&data, None), (&data, Some(f1)), true, "fillers");
            check_pair(ctx, &params, (m, a), (&data, Some(f1)), (&data, Some(f2)), true, "fillers");
            // (iii) a filler equal to the payload value next to it, other length
            if len < m {
                let mut longer = data.clone();
                longer.push(F::from(7u64));
                check_pair(ctx, &params, (m, a), (&data, Some(F::from(7u64))), (&longer, Some(F::from(7u64))), false, "length");
            }
        }
    }
}

/// Number of variables an operation appends (vector programs only).
fn nb_vars(o: &Op) -> Option<usize> {
    let n = |i: usize| o.args[i].n_pub() as usize;
    Some(match o.name {
        "vassign" | "vassignf" => n(0) + 1,
        "vresize" => n(3) + 1,
        "vlimits" => 2,
        "vpad" | "vtrim" => n(1) + (o.name == "vtrim") as usize,
        "viseq" | "visneq" | "viseqf" | "visneqf" => 1,
        "vaeq" | "vaneq" | "vaeqf" | "vaneqf" => 0,
        _ => return None,
    })
}

/// `InnerValue::value` of every vector of a vector program against the definition.
pub fn vec_value_oracle(ctx: &mut Ctx, case: &Case, out: &Outcome) {
    let mut expected: std::collections::BTreeMap<usize, Vec<F>> = Default::default();
    let mut nvars = 0usize;
    let mut it = case.inputs.iter().copied();
    for o in &case.ops {
        let Some(nv) = nb_vars(o) else { return };
        let arg_v = |i: usize| match &o.args[i] {
            V(x) => *x,
            N(x) => *x as usize,
            _ => usize::MAX,
        };
        match o.name {
            "vassign" | "vassignf" => {
                let len = o.args[2].n_pub() as usize;
                let data: Vec<F> = (0..len).filter_map(|_| it.next()).collect();
                expected.insert(nvars, data);
            }
            "vresize" => {
                if let Some(p) = expected.get(&arg_v(0)).cloned() {
                    expected.insert(nvars, p);
                }
            }
            "vtrim" => {
                if let Some(p) = expected.get(&arg_v(0)).cloned() {
                    let k = o.args[3].n_pub() as usize;
                    expected.insert(nvars, p[k.min(p.len())..].to_vec());
                }
            }
            _ => {}
        }
        nvars += nv;
    }
    for (first, shape, val) in &out.vec_values {
        let (Some(e), Some(v)) = (expected.get(first), val) else { continue };
        ctx.count("vector-value:checked");
        if e != v {
            ctx.oracle_fail(
                &format!("vector-value:{}", key(case)),
                "the payload (InnerValue::value) of a vector produced by assign / resize / trim_beginning differs from its definition",
                json!({"case": key(case), "vector_at_var": first, "shape": [shape.0, shape.1],
                       "got": v.iter().map(fe_hex).collect::<Vec<_>>(),
                       "expected": e.iter().map(fe_hex).collect::<Vec<_>>()}),
            );
        }
    }
}

fn two_pow(k: u32) -> F {
    let mut x = F::ONE;
    for _ in 0..k {
        x = x + x;
    }
    x
}

/// Batch assignments: structure + values through the model (trace / eval lines), and the range
/// oracle at every batch position.
pub fn batch_oracle(ctx: &mut Ctx) {
    let mut rng = ctx.rng("batch-oracle");
    let cfgs: Vec<Params> = if ctx.thorough() {
        crate::gen::configs(ctx)
    } else {
        (1..=4).map(|nr| Params { nr_cols: nr, max_bit_len: if nr == 4 { 8 } else { 8 + nr } }).collect()
    };
    for d in cfgs {
        for len in 0..=9usize {
            let kr = rng.gen_range(0..=8u32);
            for (name, k) in [("ams", kr), ("ams", 8), ("inbmany", 1), ("inymany", 8)] {
                // honest values on the boundary: 2^k - 1 at even positions, random below 2^k elsewhere
                let top = (1u64 << k) - 1;
                let inputs: Vec<F> = (0..len)
                    .map(|i| F::from(if i % 2 == 0 { top } else { rng.gen_range(0..=top) }))
                    .collect();
                let o = if name == "ams" {
                    op("ams", vec![N(len as u64), N(k as u64)])
                } else {
                    op(name, vec![N(len as u64)])
                };
                let mut case = mk(&format!("batch:{name}"), &d, vec![o], inputs, 0);
                case.deterministic = false;
                let Some((rec, _)) = run_case(ctx, &case, true) else { continue };
                let Some(h) = honest_accept(ctx, &case, &rec) else { continue };
                let Some(mut prover) = h.prover else { continue };
                for (i, (_, reg, off, colkey, _)) in h.outcome.vars.iter().enumerate() {
                    let Some(col) = colkey.strip_prefix('a').and_then(|c| c.parse::<usize>().ok()) else {
                        ctx.oracle_fail(
                            &format!("batch-cell:{}:{i}", case.header()),
                            "a batch assignment returns a cell that is not an advice cell",
                            json!({"case": key(&case), "position": i, "cell": format!("{reg}.{off}.{colkey}")}),
                        );
                        continue;
                    };
                    let Some(r) = rec.regions.get(*reg) else { continue };
                    let row = r.start + *off;
                    let saved = prover.advice()[col][row];
                    for (fname, fv) in [("2^k", two_pow(k)), ("2^k+1", two_pow(k) + F::ONE), ("-1", -F::ONE)] {
                        prover.verif_advice_mut()[col][row] = CellValue::Assigned(fv);
                        let verdict = catch(|| prover.verify().is_ok()).unwrap_or(false);
                        ctx.count(&format!("batch-range:{}", if verdict { "accepted" } else { "rejected" }));
                        if verdict {
                            ctx.oracle_fail(
                                &format!("batch-range:{}:{i}", case.header()),
                                "MockProver accepts an out-of-range value in a cell returned by a batch assignment of small values (the cell escapes the range check)",
                                json!({"case": key(&case), "position": i, "cell": format!("{reg}.{off}.{colkey}"),
                                       "bit_length": k, "forged": fe_hex(&fv), "fault": fname,
                                       "lookup_columns": d.nr_cols}),
                            );
                            break;
                        }
                    }
                    prover.verif_advice_mut()[col][row] = saved;
                }
            }
        }
    }
}
