//! `MapGadget` (circuits/src/map/map_gadget.rs, map/cpu.rs).
//!
//! * Inside the program interpreter the REAL gadget is instantiated with `ToyHash`, a hash chip
//!   built from one `add_and_mul` of the native gadget (`h(x, y) = x + 2y + 7 + 3xy`), so that the
//!   whole synthesis lives in the columns of the native chip and is compared cell by cell with the
//!   Lean emitters (`Model/C04/Map.lean`); the values are compared with a Merkle-root
//!   specification computed independently on the Lean side. `ToyHash` is NOT collision resistant:
//!   nothing about soundness is claimed from these runs.
//! * `map_oracle` runs the real gadget with the real Poseidon chip through `MockProver`: honest
//!   `get` of present / absent keys and `insert` are accepted with the values of the CPU map; a
//!   wrong value for a present key, an absent key claimed present, and forged advice tables (value
//!   or root replaced everywhere) are rejected.
use ff::Field;
use midnight_circuits::{
    field::AssignedNative,
    hash::poseidon::PoseidonChip,
    instructions::{
        hash::HashCPU,
        map::{MapCPU, MapInstructions},
        ArithInstructions, AssertionInstructions, AssignmentInstructions, HashInstructions,
        PublicInputInstructions,
    },
    map::{cpu::MapMt, map_gadget::MapGadget},
    testing_utils::FromScratch,
};
use midnight_proofs::{
    circuit::{Layouter, SimpleFloorPlanner, Value},
    dev::{CellValue, MockProver},
    plonk::{Circuit, ConstraintSystem, Error},
};
use mzkh::{catch, fe_hex, Ctx};
use rand::Rng;
use serde_json::json;

use crate::{
    prog::{Var, NG},
    F,
};

/// `h(x, y) = x + 2y + 7 + 3xy` through `add_and_mul` (one row of the arithmetic gate).
#[derive(Clone, Debug)]
pub struct ToyHash {
    ng: NG,
}

impl ToyHash {
    pub fn new(ng: &NG) -> Self {
        ToyHash { ng: ng.clone() }
    }
}

impl HashCPU<F, F> for ToyHash {
    fn hash(inputs: &[F]) -> F {
        assert_eq!(inputs.len(), 2, "ToyHash: two inputs");
        let (x, y) = (inputs[0], inputs[1]);
        x + F::from(2u64) * y + F::from(7u64) + F::from(3u64) * x * y
    }
}

impl HashInstructions<F, AssignedNative<F>, AssignedNative<F>> for ToyHash {
    fn hash(&self, layouter: &mut impl Layouter<F>, inputs: &[AssignedNative<F>]) -> Result<AssignedNative<F>, Error> {
        assert_eq!(inputs.len(), 2, "ToyHash: two inputs");
        self.ng.add_and_mul(
            layouter,
            (F::ONE, &inputs[0]),
            (F::from(2u64), &inputs[1]),
            (F::ZERO, &inputs[0]),
            F::from(7u64),
            F::from(3u64),
        )
    }
}

pub type ToyMap = MapGadget<F, NG, ToyHash>;

/// Execute a map operation of the program interpreter; returns `false` if `name` is not one.
pub fn exec_map(
    name: &str,
    args: &[crate::prog::Arg],
    ng: &NG,
    map: &mut Option<ToyMap>,
    vars: &mut Vec<Var>,
    l: &mut impl Layouter<F>,
) -> Result<bool, Error> {
    use crate::prog::Arg;
    let var = |i: usize| -> AssignedNative<F> {
        match &args[i] {
            Arg::V(x) => vars[*x].native(),
            _ => panic!("map op: variable expected"),
        }
    };
    match name {
        // minit k:v,k:v,... : the committed map
        "minit" => {
            let pairs = match &args[0] {
                Arg::Pairs(p) => p.clone(),
                _ => panic!("minit: pairs expected"),
            };
            let mut mt = MapMt::<F, ToyHash>::new(&F::ZERO);
            for (k, v) in &pairs {
                mt.insert(k, v);
            }
            let mut g = ToyMap::new(ng, &ToyHash::new(ng));
            g.init(l, Value::known(mt))?;
            vars.push(Var::N(g.succinct_repr()));
            *map = Some(g);
        }
        "mget" => {
            let key = var(0);
            let g = map.as_ref().expect("mget before minit");
            let v = g.get(l, &key)?;
            vars.push(Var::N(v));
        }
        "minsert" => {
            let (key, value) = (var(0), var(1));
            let g = map.as_mut().expect("minsert before minit");
            g.insert(l, &key, &value)?;
            vars.push(Var::N(g.succinct_repr()));
        }
        _ => return Ok(false),
    }
    Ok(true)
}

// ---------------------------------------------------------------------------------------------
// Oracle with the real Poseidon chip

type PMap = MapGadget<F, NG, PoseidonChip<F>>;
type PMt = MapMt<F, PoseidonChip<F>>;

#[derive(Clone, Debug)]
enum Mode {
    /// `get(key)`, then the result is asserted equal to the claimed value
    Get { claimed: F },
    /// `insert(key, value)`; the new root is exposed
    Insert { value: F },
}

struct MapCircuit {
    map: PMt,
    key: F,
    mode: Mode,
    got: std::cell::RefCell<Option<F>>,
}

impl Circuit<F> for MapCircuit {
    type Config = <PMap as FromScratch<F>>::Config;
    type FloorPlanner = SimpleFloorPlanner;
    type Params = ();

    fn without_witnesses(&self) -> Self {
        unreachable!()
    }

    fn configure(meta: &mut ConstraintSystem<F>) -> Self::Config {
        let committed = meta.instance_column();
        let instance = meta.instance_column();
        PMap::configure_from_scratch(meta, &[committed, instance])
    }

    fn synthesize(&self, config: Self::Config, mut layouter: impl Layouter<F>) -> Result<(), Error> {
        let ng = NG::new_from_scratch(&config.0);
        let pos = PoseidonChip::<F>::new_from_scratch(&config.1);
        let mut g = PMap::new(&ng, &pos);
        g.init(&mut layouter, Value::known(self.map.clone()))?;
        let key: AssignedNative<F> = ng.assign(&mut layouter, Value::known(self.key))?;
        ng.constrain_as_public_input(&mut layouter, &g.succinct_repr())?;
        match &self.mode {
            Mode::Get { claimed } => {
                let v = g.get(&mut layouter, &key)?;
                let mut out = None;
                v.value().map(|x| out = Some(*x));
                *self.got.borrow_mut() = out;
                let c: AssignedNative<F> = ng.assign(&mut layouter, Value::known(*claimed))?;
                ng.assert_equal(&mut layouter, &v, &c)?;
            }
            Mode::Insert { value } => {
                let v: AssignedNative<F> = ng.assign(&mut layouter, Value::known(*value))?;
                g.insert(&mut layouter, &key, &v)?;
                ng.constrain_as_public_input(&mut layouter, &g.succinct_repr())?;
            }
        }
        g.load_from_scratch(&mut layouter)
    }
}

fn run(c: &MapCircuit, pi: Vec<F>) -> Result<(bool, Option<MockProver<F>>), String> {
    let r = catch(|| MockProver::run(15, c, vec![vec![], pi]));
    match r {
        Err(p) => Err(format!("panic: {p}")),
        Ok(Err(e)) => Err(format!("error: {e:?}")),
        Ok(Ok(prover)) => {
            let ok = catch(|| prover.verify().is_ok()).unwrap_or(false);
            Ok((ok, Some(prover)))
        }
    }
}

/// Replace every advice cell holding `old` by `new`; returns the number of cells changed.
fn replace_all(prover: &mut MockProver<F>, old: F, new: F) -> usize {
    let mut hits = vec![];
    for (c, col) in prover.advice().iter().enumerate() {
        for (r, v) in col.iter().enumerate() {
            if matches!(v, CellValue::Assigned(x) if *x == old) {
                hits.push((c, r));
            }
        }
    }
    for (c, r) in &hits {
        prover.verif_advice_mut()[*c][*r] = CellValue::Assigned(new);
    }
    hits.len()
}

pub fn map_oracle(ctx: &mut Ctx) {
    let mut rng = ctx.rng("map-oracle");
    let n_maps = if ctx.thorough() { 3 } else { 1 };
    for mi in 0..n_maps {
        let n_entries = if mi == 0 { 2 } else { rng.gen_range(0..6) };
        let entries: Vec<(F, F)> =
            (0..n_entries).map(|_| (F::from(rng.gen_range(1..1u64 << 40)), F::random(&mut rng))).collect();
        let mut mt = PMt::new(&F::ZERO);
        for (k, v) in &entries {
            mt.insert(k, v);
        }
        let root = mt.succinct_repr();
        let absent = F::from(rng.gen_range((1u64 << 41)..(1u64 << 42)));
        let desc = |key: &F, what: &str| {
            json!({"map": entries.iter().map(|(k, v)| format!("{}:{}", fe_hex(k), fe_hex(v))).collect::<Vec<_>>(),
                   "root": fe_hex(&root), "key": fe_hex(key), "what": what})
        };
        let mut keys: Vec<(F, F, &str)> = vec![(absent, F::ZERO, "absent")];
        if let Some((k, v)) = entries.first() {
            keys.push((*k, *v, "present"));
        }
        for (key, truth, kind) in keys {
            // honest get: accepted, value of the CPU map
            let c = MapCircuit { map: mt.clone(), key, mode: Mode::Get { claimed: truth }, got: Default::default() };
            match run(&c, vec![root]) {
                Ok((ok, prover)) => {
                    ctx.count(&format!("map:get:{kind}:{}", if ok { "accepted" } else { "rejected" }));
                    let got = *c.got.borrow();
                    if !ok || got != Some(truth) {
                        ctx.oracle_fail(
                            &format!("map-get-honest:{kind}:{mi}"),
                            "MapGadget::get of an honest prover is rejected or returns a value that differs from the committed map",
                            json!({"case": desc(&key, kind), "accepted": ok, "got": got.map(|g| fe_hex(&g)), "expected": fe_hex(&truth)}),
                        );
                    }
                    // forged tables: the value (everywhere it occurs) / the root replaced
                    if let (true, Some(mut prover)) = (ok, prover) {
                        let forged_v = truth + F::ONE;
                        let targets: Vec<(&str, F, F)> = if truth == F::ZERO {
                            // the value 0 occurs all over the table: only the root is targeted
                            vec![("root", root, root + F::ONE)]
                        } else {
                            vec![("value", truth, forged_v), ("root", root, root + F::ONE)]
                        };
                        for (what, old, new) in targets {
                            let n = replace_all(&mut prover, old, new);
                            let acc = catch(|| prover.verify().is_ok()).unwrap_or(false);
                            ctx.count(&format!("map:forged-{what}:{}", if acc { "accepted" } else { "rejected" }));
                            if acc && n > 0 {
                                ctx.oracle_fail(
                                    &format!("map-forged:{what}:{kind}:{mi}"),
                                    "MockProver accepts a forged advice table of MapGadget::get (value or root replaced in every cell holding it)",
                                    json!({"case": desc(&key, kind), "replaced": what, "cells": n, "old": fe_hex(&old), "new": fe_hex(&new)}),
                                );
                            }
                            replace_all(&mut prover, new, old);
                        }
                    }
                }
                Err(e) => ctx.oracle_fail(
                    &format!("map-get-honest:{kind}:{mi}"),
                    "MapGadget::get fails to synthesise for an honest prover",
                    json!({"case": desc(&key, kind), "error": e}),
                ),
            }
            // a wrong value claimed for the key (absent key claimed present with value 1)
            let wrong = truth + F::ONE;
            let c = MapCircuit { map: mt.clone(), key, mode: Mode::Get { claimed: wrong }, got: Default::default() };
            if let Ok((ok, _)) = run(&c, vec![root]) {
                ctx.count(&format!("map:get-wrong:{kind}:{}", if ok { "accepted" } else { "rejected" }));
                if ok {
                    ctx.oracle_fail(
                        &format!("map-get-wrong:{kind}:{mi}"),
                        "MapGadget::get accepts a value that is not the one committed for the key (wrong value / absent key claimed present)",
                        json!({"case": desc(&key, kind), "claimed": fe_hex(&wrong), "committed": fe_hex(&truth)}),
                    );
                }
            }
            // the prover initialises the gadget with a map in which the key has the claimed value,
            // but the public root is the committed one
            let mut lying = mt.clone();
            lying.insert(&key, &wrong);
            let c = MapCircuit { map: lying, key, mode: Mode::Get { claimed: wrong }, got: Default::default() };
            if let Ok((ok, _)) = run(&c, vec![root]) {
                ctx.count(&format!("map:get-other-map:{kind}:{}", if ok { "accepted" } else { "rejected" }));
                if ok {
                    ctx.oracle_fail(
                        &format!("map-get-other-map:{kind}:{mi}"),
                        "MapGadget::get proves a value against a public root that does not commit to it",
                        json!({"case": desc(&key, kind), "claimed": fe_hex(&wrong), "committed": fe_hex(&truth)}),
                    );
                }
            }
        }
        // insert: accepted with the CPU root after insertion; rejected with another new root
        let (ik, iv) = (absent, F::random(&mut rng));
        let mut after = mt.clone();
        after.insert(&ik, &iv);
        let c = MapCircuit { map: mt.clone(), key: ik, mode: Mode::Insert { value: iv }, got: Default::default() };
        for (new_root, expect, what) in [(after.succinct_repr(), true, "cpu-root"), (root, false, "old-root")] {
            if let Ok((ok, _)) = run(&c, vec![root, new_root]) {
                ctx.count(&format!("map:insert:{what}:{}", if ok { "accepted" } else { "rejected" }));
                if ok != expect {
                    ctx.oracle_fail(
                        &format!("map-insert:{what}:{mi}"),
                        if expect {
                            "MapGadget::insert of an honest prover is rejected against the root of the CPU map after insertion"
                        } else {
                            "MapGadget::insert is accepted against a new root that is not the root after insertion"
                        },
                        json!({"case": desc(&ik, what), "value": fe_hex(&iv), "new_root": fe_hex(&new_root)}),
                    );
                }
            }
        }
    }
}
