//! Correspondence and oracle runs.
use ff::Field;
use midnight_proofs::{
    circuit::{verif_hooks, SimpleFloorPlanner},
    dev::{CellValue, MockProver},
    plonk::{Circuit, ConstraintSystem, FloorPlanner},
};
use mzkh::{catch, fe_hex, Ctx};
use serde_json::json;

use crate::{
    gen,
    prog::{render_prog, Op, Outcome, Params, ProgCircuit},
    rec::Rec,
    F,
};

/// A program with its configuration and witness inputs.
#[derive(Clone, Debug)]
pub struct Case {
    pub kind: String,
    pub params: Params,
    pub ops: Vec<Op>,
    pub inputs: Vec<F>,
    /// index of the first op that belongs to the operation under test (earlier ops only
    /// prepare inputs); used by the fault injector.
    pub first_op: usize,
    /// whether the outputs are determined by the inputs (false for documented
    /// non-canonical decompositions).
    pub deterministic: bool,
    /// further input vectors for the same program, used by the range oracle only (honest
    /// witnesses that may lie outside an asserted range: the expected verdict is computed by
    /// `spec_eval`).
    pub variants: Vec<Vec<F>>,
}

impl Case {
    pub fn header(&self) -> String {
        format!("{} {} ; {}", self.params.nr_cols, self.params.max_bit_len, render_prog(&self.ops))
    }
}

/// Real synthesis through the recording backend.
pub fn record(case: &Case) -> Result<(Rec, Outcome), String> {
    let circuit = ProgCircuit::new(case.params.clone(), case.ops.clone(), case.inputs.clone());
    let r = catch(|| {
        let mut cs = ConstraintSystem::<F>::default();
        let config = ProgCircuit::configure_with_params(&mut cs, case.params.clone());
        let mut rec = Rec::new();
        let constants = cs.constants().clone();
        SimpleFloorPlanner::synthesize(&mut rec, &circuit, config, constants)
            .map_err(|e| format!("{e:?}"))
            .map(|_| rec)
    });
    match r {
        Err(p) => Err(format!("panic: {p}")),
        Ok(Err(e)) => Err(format!("error: {e}")),
        Ok(Ok(rec)) => {
            let out = circuit.outcome.borrow().clone();
            Ok((rec, out))
        }
    }
}

pub fn render_outcome_cells(out: &Outcome) -> String {
    let v: Vec<String> =
        out.vars.iter().map(|(ty, k, o, key, _)| format!("{ty}:{k}.{o}.{key}")).collect();
    format!("O[{}]", v.join(" "))
}

/// `NativeGadget::constrained_cells` as the hook returns it, canonical cell names.
pub fn render_outcome_bounds(out: &Outcome) -> String {
    let v: Vec<String> =
        out.bounds.iter().map(|(k, o, key, b)| format!("{k}.{o}.{key}<{}", mzkh::big_hex(b))).collect();
    format!("B[{}]", v.join(" "))
}

pub fn render_outcome_values(out: &Outcome) -> String {
    let v: Vec<String> = out
        .vars
        .iter()
        .map(|(_, _, _, _, val)| val.map(|x| fe_hex(&x)).unwrap_or_else(|| "?".into()))
        .collect();
    mzkh::join(&v)
}

/// Number of rows needed by a recorded synthesis (for choosing k).
fn rows_needed(rec: &Rec) -> usize {
    let mut m = 0usize;
    for r in &rec.regions {
        for e in &r.events {
            let row = match e {
                crate::rec::Ev::Sel(_, r) | crate::rec::Ev::Fix(_, r, _) | crate::rec::Ev::Adv(_, r) => *r,
            };
            m = m.max(row + 1);
        }
    }
    m
}

pub fn k_for(rec: &Rec) -> u32 {
    let need = rows_needed(rec) + 16;
    let mut k = 6;
    while (1usize << k) < need {
        k += 1;
    }
    k
}

pub type Fault = (usize, Box<dyn Fn(F) -> F>);

pub struct MockRun {
    pub verdict: Result<bool, String>,
    pub outcome: Outcome,
    pub hits: Vec<(usize, F, F)>,
    pub nb_advice: usize,
    pub prover: Option<MockProver<F>>,
}

/// Real synthesis + real `MockProver::verify`, optionally under a tamper plan (H1).
pub fn mock(case: &Case, k: u32, faults: Vec<Fault>) -> MockRun {
    let circuit = ProgCircuit::new(case.params.clone(), case.ops.clone(), case.inputs.clone());
    verif_hooks::set_plan::<F>(verif_hooks::TamperPlan::new(faults));
    let r = catch(|| MockProver::run(k, &circuit, vec![vec![], vec![]]));
    let plan = verif_hooks::take_plan::<F>();
    let (hits, nb) = plan.map(|p| (p.hits, p.counter)).unwrap_or((vec![], 0));
    let outcome = circuit.outcome.borrow().clone();
    match r {
        Err(p) => MockRun { verdict: Err(format!("panic: {p}")), outcome, hits, nb_advice: nb, prover: None },
        Ok(Err(e)) => MockRun { verdict: Err(format!("error: {e:?}")), outcome, hits, nb_advice: nb, prover: None },
        Ok(Ok(prover)) => {
            let v = catch(|| prover.verify().is_ok());
            match v {
                Ok(b) => MockRun { verdict: Ok(b), outcome, hits, nb_advice: nb, prover: Some(prover) },
                Err(p) => MockRun { verdict: Err(format!("verify panic: {p}")), outcome, hits, nb_advice: nb, prover: None },
            }
        }
    }
}

fn case_key(case: &Case) -> String {
    format!(
        "{} ; in={}",
        case.header(),
        mzkh::join(&case.inputs.iter().map(fe_hex).collect::<Vec<_>>())
    )
}

/// One case: structural trace line, honest-value line, completeness oracle.
pub fn run_case(ctx: &mut Ctx, case: &Case, with_values: bool) -> Option<(Rec, Outcome)> {
    let hdr = case.header();
    let (rec, out) = match record(case) {
        Ok(x) => x,
        Err(e) => {
            // an honest synthesis of an admissible program must not fail
            ctx.oracle_fail(
                &format!("synth:{}", case_key(case)),
                "honest synthesis of an admissible program fails",
                json!({"case": case_key(case), "error": e}),
            );
            return None;
        }
    };
    let trace = format!("{} {} {}", rec.render(), render_outcome_cells(&out), render_outcome_bounds(&out));
    ctx.case(&format!("trace:{}", case.kind), true, &format!("trace {hdr}"), &trace);
    ctx.count_n("trace_regions", rec.regions.len() as u64);
    // table must enumerate exactly [0, 2^tag) for each tag
    check_table(ctx, case, &rec);
    if with_values {
        let ins = mzkh::join(&case.inputs.iter().map(fe_hex).collect::<Vec<_>>());
        ctx.case(
            &format!("eval:{}", case.kind),
            true,
            &format!("eval {hdr} ; {ins}"),
            &render_outcome_values(&out),
        );
    }
    Some((rec, out))
}

fn check_table(ctx: &mut Ctx, case: &Case, rec: &Rec) {
    let rows = rec.table_rows();
    let mut i = 0;
    while i < rows.len() {
        let tag = rows[i].0;
        let t = mzkh::fe_big(&tag);
        let t: u32 = t.to_u32_digits().first().copied().unwrap_or(0);
        let n = 1usize << t;
        let ok = i + n <= rows.len()
            && (0..n).all(|j| rows[i + j].0 == tag && rows[i + j].1 == F::from(j as u64));
        if !ok {
            ctx.oracle_fail(
                &format!("table:{}", case.header()),
                "pow2range table does not enumerate [0,2^tag) for a loaded tag",
                json!({"case": case.header(), "row": i, "tag": t}),
            );
            return;
        }
        i += n;
    }
}

/// Honest witness must be accepted by the real MockProver (completeness).
pub fn honest_accept(ctx: &mut Ctx, case: &Case, rec: &Rec) -> Option<MockRun> {
    let k = k_for(rec);
    let m = mock(case, k, vec![]);
    ctx.count("mock:honest");
    match &m.verdict {
        Ok(true) => {}
        other => {
            ctx.oracle_fail(
                &format!("honest:{}", case_key(case)),
                "MockProver rejects the honest witness of an admissible input",
                json!({"case": case_key(case), "verdict": format!("{other:?}")}),
            );
        }
    }
    Some(m)
}

/// Advice values of a MockProver in the recorder's canonical cell order.
pub fn advice_line(rec: &Rec, prover: &MockProver<F>) -> String {
    let adv = prover.advice();
    let vals: Vec<String> = rec
        .advice_cells()
        .iter()
        .map(|(_, (c, row), _)| match adv[*c][*row] {
            CellValue::Assigned(v) => fe_hex(&v),
            _ => "0x0".to_string(),
        })
        .collect();
    mzkh::join(&vals)
}

/// Copy-constraint classes over absolute cells ("a<col>", row) / ("f<col>", row) / ("i..").
pub struct Classes {
    parent: Vec<usize>,
    index: std::collections::HashMap<(String, usize), usize>,
    cells: Vec<(String, usize)>,
}

impl Classes {
    pub fn new(rec: &Rec) -> Self {
        let mut c = Classes { parent: vec![], index: Default::default(), cells: vec![] };
        for ((c1, r1), (c2, r2)) in &rec.copies {
            let a = c.id(crate::rec::col_key(c1), *r1);
            let b = c.id(crate::rec::col_key(c2), *r2);
            let (ra, rb) = (c.find(a), c.find(b));
            if ra != rb {
                c.parent[ra] = rb;
            }
        }
        c
    }
    fn id(&mut self, key: String, row: usize) -> usize {
        if let Some(i) = self.index.get(&(key.clone(), row)) {
            return *i;
        }
        let i = self.parent.len();
        self.parent.push(i);
        self.index.insert((key.clone(), row), i);
        self.cells.push((key, row));
        i
    }
    fn find(&mut self, mut a: usize) -> usize {
        while self.parent[a] != a {
            self.parent[a] = self.parent[self.parent[a]];
            a = self.parent[a];
        }
        a
    }
    /// All cells in the class of an advice cell (including itself).
    pub fn class_of(&mut self, col: usize, row: usize) -> Vec<(String, usize)> {
        let key = (format!("a{col}"), row);
        match self.index.get(&key).copied() {
            None => vec![key],
            Some(i) => {
                let r = self.find(i);
                let n = self.parent.len();
                let mut out = vec![];
                for j in 0..n {
                    if self.find(j) == r {
                        out.push(self.cells[j].clone());
                    }
                }
                out
            }
        }
    }
}

fn two_pow(j: u32) -> F {
    let mut x = F::from(1u64);
    for _ in 0..j {
        x = x + x;
    }
    x
}

/// Fault values for an honest value `v`: +1, -1, 0, 1-v, v+2^j, random.
pub fn fault_values(v: F, rng: &mut impl rand::Rng) -> Vec<(String, F)> {
    use ff::Field;
    let j = [1u32, 7, 8, 16, 64, 128, 253, 254][rng.gen_range(0..8)];
    vec![
        ("+1".into(), v + F::ONE),
        ("-1".into(), v - F::ONE),
        ("0".into(), F::ZERO),
        ("1-v".into(), F::ONE - v),
        (format!("+2^{j}"), v + two_pow(j)),
        ("rand".into(), F::random(rng)),
    ]
}

/// Fault injection on the table of the real MockProver (H2): every advice cell that belongs to
/// the operation under test x every fault value, (a) the cell alone, (b) the cell together with
/// its whole copy class. The forged table must be rejected unless all outputs are unchanged.
/// Each examined table is also sent to the model (`check` request): the model's constraint
/// evaluator must agree with the real verdict.
pub fn tamper_case(ctx: &mut Ctx, case: &Case, rec: &Rec, honest: MockRun, budget: usize) {
    use rand::seq::SliceRandom;
    let Some(mut prover) = honest.prover else { return };
    let hdr = case.header();
    // honest table: model must accept it as well
    ctx.case(&format!("check:{}", case.kind), true, &format!("check {hdr} ; {}", advice_line(rec, &prover)), "1");
    // first region that belongs to the operation under test
    let prefix = Case { ops: case.ops[..case.first_op].to_vec(), inputs: case.inputs.clone(), ..case.clone() };
    let first_region = match record_prefix(&prefix) {
        Some(n) => n,
        None => return,
    };
    let cells = rec.advice_cells();
    let mut classes = Classes::new(rec);
    let canon = rec.canon();
    let region_of = |key: &str, row: usize| -> Option<usize> { canon.owner.get(&(key.to_string(), row)).map(|x| x.0) };
    let honest_vals: Vec<Option<F>> = honest.outcome.vars.iter().map(|v| v.4).collect();
    // absolute coordinates of the output variables
    let var_cells: Vec<Option<(usize, usize)>> = honest
        .outcome
        .vars
        .iter()
        .map(|(_, k, o, key, _)| {
            if !key.starts_with('a') {
                return None;
            }
            let col: usize = key[1..].parse().unwrap();
            rec.regions.get(*k).map(|r| (col, r.start + *o))
        })
        .collect();
    let mut rng = ctx.rng(&format!("tamper:{}", case_key(case)));
    let mut targets: Vec<usize> = (0..cells.len()).filter(|i| cells[*i].0 .0 >= first_region).collect();
    targets.shuffle(&mut rng);
    let mut done = 0usize;
    for ti in targets {
        if done >= budget {
            break;
        }
        let ((k, o, c), (col, row), _) = cells[ti];
        let v = match prover.advice()[col][row] {
            CellValue::Assigned(v) => v,
            _ => continue,
        };
        let class = classes.class_of(col, row);
        let class_adv = class.iter().all(|(key, _)| key.starts_with('a'));
        let class_in_op = class.iter().all(|(key, r)| {
            key.starts_with('a') && region_of(key, *r).map(|x| x >= first_region).unwrap_or(false)
        });
        let class_ok = class_adv;
        let mut faults = fault_values(v, &mut rng);
        faults.shuffle(&mut rng);
        for (fname, fv) in faults {
            if fv == v || done >= budget {
                continue;
            }
            for mode in ["cell", "class"] {
                if mode == "class" && (!class_ok || class.len() < 2) {
                    continue;
                }
                let group: Vec<(usize, usize)> = if mode == "cell" {
                    vec![(col, row)]
                } else {
                    class.iter().map(|(key, r)| (key[1..].parse::<usize>().unwrap(), *r)).collect()
                };
                let saved: Vec<CellValue<F>> = group.iter().map(|(c, r)| prover.advice()[*c][*r]).collect();
                for (c2, r2) in &group {
                    prover.verif_advice_mut()[*c2][*r2] = CellValue::Assigned(fv);
                }
                let verdict = catch(|| prover.verify().is_ok()).unwrap_or(false);
                done += 1;
                ctx.count(&format!("tamper:{mode}:{}", if verdict { "accepted" } else { "rejected" }));
                ctx.case(
                    &format!("check:{}", case.kind),
                    true,
                    &format!("check {hdr} ; {}", advice_line(rec, &prover)),
                    if verdict { "1" } else { "0" },
                );
                if verdict {
                    // typed variables and assertions must hold on whatever the accepted table holds
                    let table_vals: Vec<Option<F>> = var_cells
                        .iter()
                        .zip(honest_vals.iter())
                        .map(|(vc, hv)| match vc {
                            Some((c, r)) => match prover.advice()[*c][*r] {
                                CellValue::Assigned(x) => Some(x),
                                _ => *hv,
                            },
                            None => *hv,
                        })
                        .collect();
                    let types: Vec<String> = honest.outcome.vars.iter().map(|v| v.0.clone()).collect();
                    if let Some(why) = semantic_violation(case, &table_vals, &types) {
                        ctx.oracle_fail(
                            &format!("forged-meaning:{}:{k}.{o}.a{c}:{mode}", case.header()),
                            "MockProver accepts a forged advice table that violates the type of a variable or an asserted relation",
                            json!({"case": case_key(case), "cell": format!("{k}.{o}.a{c}"), "mode": mode,
                                   "fault": fname, "honest": fe_hex(&v), "forged": fe_hex(&fv), "why": why}),
                        );
                    }
                }
                if verdict && case.deterministic && (mode == "cell" || class_in_op) {
                    // outputs as the forged table holds them
                    let changed: Vec<usize> = var_cells
                        .iter()
                        .enumerate()
                        .filter(|(i, vc)| match (vc, honest_vals[*i]) {
                            (Some((c, r)), Some(hv)) => {
                                matches!(prover.advice()[*c][*r], CellValue::Assigned(x) if x != hv)
                            }
                            _ => false,
                        })
                        .map(|(i, _)| i)
                        .filter(|i| *i >= nb_input_vars(case))
                        .collect();
                    if !changed.is_empty() {
                        ctx.oracle_fail(
                            &format!("forged:{}:{k}.{o}.a{c}:{mode}", case.header()),
                            "MockProver accepts a forged advice table whose outputs differ from the operation's definition",
                            json!({"case": case_key(case), "cell": format!("{k}.{o}.a{c}"), "mode": mode,
                                   "fault": fname, "honest": fe_hex(&v), "forged": fe_hex(&fv),
                                   "changed_vars": changed}),
                        );
                    }
                }
                for ((c2, r2), sv) in group.iter().zip(saved) {
                    prover.verif_advice_mut()[*c2][*r2] = sv;
                }
            }
        }
    }
}

/// Meaning of typed variables and of assertion operations, evaluated on the values a (forged)
/// table holds: an accepted table must respect them. Returns a description of the first
/// violated one.
fn semantic_violation(case: &Case, vals: &[Option<F>], types: &[String]) -> Option<String> {
    use crate::prog::Arg;
    let big = |i: usize| vals.get(i).copied().flatten().map(|v| mzkh::fe_big(&v));
    let two = num_bigint::BigUint::from(2u8);
    for (i, ty) in types.iter().enumerate() {
        let Some(v) = big(i) else { continue };
        let bound = match ty.as_str() {
            "B" => Some(two.clone()),
            "Y" => Some(num_bigint::BigUint::from(256u32)),
            t if t.starts_with('D') => t[1..].parse::<u32>().ok().map(|n| two.pow(n)),
            _ => None,
        };
        if let Some(b) = bound {
            if v >= b {
                return Some(format!("variable {i} of type {ty} holds {}", mzkh::big_hex(&v)));
            }
        }
    }
    let var = |a: &Arg| match a {
        Arg::V(i) => big(*i),
        _ => None,
    };
    for o in &case.ops {
        let a = &o.args;
        let bad = match o.name {
            "aeq" | "baeq" => matches!((var(&a[0]), var(&a[1])), (Some(x), Some(y)) if x != y),
            "aneq" | "baneq" => matches!((var(&a[0]), var(&a[1])), (Some(x), Some(y)) if x == y),
            "aeqf" => match (&a[1], var(&a[0])) {
                (Arg::C(c), Some(x)) => x != mzkh::fe_big(c),
                _ => false,
            },
            "aneqf" => match (&a[1], var(&a[0])) {
                (Arg::C(c), Some(x)) => x == mzkh::fe_big(c),
                _ => false,
            },
            "az" => matches!(var(&a[0]), Some(x) if x != num_bigint::BigUint::from(0u8)),
            "anz" => matches!(var(&a[0]), Some(x) if x == num_bigint::BigUint::from(0u8)),
            "alf" => match (&a[1], var(&a[0])) {
                (Arg::Big(b), Some(x)) => x >= *b,
                _ => false,
            },
            "bnot" => match (&a[1], var(&a[0])) {
                (Arg::N(k), Some(x)) => x >= two.pow(*k as u32),
                _ => false,
            },
            "yaeq" => matches!((var(&a[0]), var(&a[1])), (Some(x), Some(y)) if x != y),
            "yaneq" => matches!((var(&a[0]), var(&a[1])), (Some(x), Some(y)) if x == y),
            "yaeqf" => match (&a[1], var(&a[0])) {
                (Arg::N(c), Some(x)) => x != num_bigint::BigUint::from(*c),
                _ => false,
            },
            "yaneqf" => match (&a[1], var(&a[0])) {
                (Arg::N(c), Some(x)) => x == num_bigint::BigUint::from(*c),
                _ => false,
            },
            "asltp2" => match (&a[1], var(&a[0])) {
                (Arg::N(k), Some(x)) => x >= two.pow(*k as u32),
                _ => false,
            },
            "rc" => match (&a[0], &a[1]) {
                (Arg::Vs(l), Arg::N(k)) => {
                    l.iter().any(|i| matches!(big(*i), Some(x) if x >= two.pow(*k as u32)))
                }
                _ => false,
            },
            _ => false,
        };
        if bad {
            return Some(format!("assertion `{}` does not hold on the accepted values", o.render()));
        }
    }
    None
}

/// After a fault has been written, recompute the cells an honest prover would derive from the
/// faulted ones: the output cell of every arithmetic row of the operation under test (column 4
/// when its coefficient is -1, else column 0 when its coefficient is -1 and the row has no
/// product term), a few passes, chains bottom-up. Emulates "deviate at a hint, then follow the
/// protocol" at table level. Returns the cells it overwrote with their previous values.
fn repair(
    prover: &mut MockProver<F>,
    rec: &Rec,
    classes: &mut Classes,
    first_region: usize,
    frozen: &[(usize, usize)],
) -> Vec<((usize, usize), CellValue<F>)> {
    use ff::Field;
    let canon = rec.canon();
    let mut saved = vec![];
    let mut rows: Vec<usize> = vec![];
    for (k, r) in rec.regions.iter().enumerate() {
        if k < first_region || r.name == "pow2range table" {
            continue;
        }
        for e in &r.events {
            if let crate::rec::Ev::Sel(0, row) = e {
                rows.push(*row);
            }
        }
    }
    rows.sort();
    rows.dedup();
    let fx = |c: usize, row: usize| rec.fixed.get(&(c, row)).copied().unwrap_or(F::ZERO);
    for pass in 0..3 {
        let order: Vec<usize> = if pass % 2 == 0 { rows.iter().rev().copied().collect() } else { rows.clone() };
        for row in order {
            let adv = |p: &MockProver<F>, c: usize, r: usize| match p.advice()[c][r] {
                CellValue::Assigned(v) => v,
                _ => F::ZERO,
            };
            let (qn, mab, mac, k0) = (fx(0, row), fx(1, row), fx(2, row), fx(3, row));
            let cs: Vec<F> = (0..5).map(|i| fx(4 + i, row)).collect();
            let a: Vec<F> = (0..5).map(|i| adv(prover, i, row)).collect();
            let next0 = adv(prover, 0, row + 1);
            let target = if cs[4] == -F::ONE {
                Some(4usize)
            } else if cs[0] == -F::ONE && mab == F::ZERO && mac == F::ZERO {
                Some(0usize)
            } else {
                None
            };
            let Some(t) = target else { continue };
            let mut v = k0 + qn * next0 + mab * a[0] * a[1] + mac * a[0] * a[2];
            for i in 0..5 {
                if i != t {
                    v += cs[i] * a[i];
                }
            }
            if v == a[t] || frozen.contains(&(t, row)) {
                continue;
            }
            let cl = classes.class_of(t, row);
            let ok = cl.iter().all(|(key, r)| {
                key.starts_with('a') && canon.owner.get(&(key.clone(), *r)).map(|x| x.0 >= first_region).unwrap_or(false)
            });
            if !ok {
                continue;
            }
            for (key, r) in cl {
                let c: usize = key[1..].parse().unwrap();
                if frozen.contains(&(c, r)) {
                    continue;
                }
                saved.push(((c, r), prover.advice()[c][r]));
                prover.verif_advice_mut()[c][r] = CellValue::Assigned(v);
            }
        }
    }
    saved
}

/// Pairs of cells inside one region of the operation under test, each written together with
/// its copy class, small fault set on both (search tier): finds forgeries that need a hint and
/// the value it justifies to move together (e.g. `aux` and `res` of the equality tests).
pub fn pair_search(ctx: &mut Ctx, case: &Case, rec: &Rec, honest: MockRun, budget: usize) {
    use ff::Field;
    let Some(mut prover) = honest.prover else { return };
    let prefix = Case { ops: case.ops[..case.first_op].to_vec(), inputs: case.inputs.clone(), ..case.clone() };
    let Some(first_region) = record_prefix(&prefix) else { return };
    let n_in = nb_input_vars(case);
    let cells = rec.advice_cells();
    let mut classes = Classes::new(rec);
    let canon = rec.canon();
    let honest_vals: Vec<Option<F>> = honest.outcome.vars.iter().map(|v| v.4).collect();
    let types: Vec<String> = honest.outcome.vars.iter().map(|v| v.0.clone()).collect();
    let var_cells: Vec<Option<(usize, usize)>> = honest
        .outcome
        .vars
        .iter()
        .map(|(_, k, o, key, _)| {
            if !key.starts_with('a') {
                return None;
            }
            let col: usize = key[1..].parse().unwrap();
            rec.regions.get(*k).map(|r| (col, r.start + *o))
        })
        .collect();
    let mut done = 0usize;
    let small = |v: F| vec![F::ZERO, F::ONE, F::ONE - v, v + F::ONE, v - F::ONE, -v];
    let mut by_region: std::collections::BTreeMap<usize, Vec<usize>> = Default::default();
    for (i, c) in cells.iter().enumerate() {
        if c.0 .0 >= first_region {
            by_region.entry(c.0 .0).or_default().push(i);
        }
    }
    for (_, idxs) in by_region {
        for a in 0..idxs.len() {
            for b in (a + 1)..idxs.len() {
                let (ca, cb) = (cells[idxs[a]], cells[idxs[b]]);
                let group = |classes: &mut Classes, col: usize, row: usize| -> Option<Vec<(usize, usize)>> {
                    let cl = classes.class_of(col, row);
                    if !cl.iter().all(|(k, r)| {
                        k.starts_with('a') && canon.owner.get(&(k.clone(), *r)).map(|x| x.0 >= first_region).unwrap_or(false)
                    }) {
                        return None;
                    }
                    Some(cl.iter().map(|(k, r)| (k[1..].parse::<usize>().unwrap(), *r)).collect())
                };
                let (Some(ga), Some(gb)) = (group(&mut classes, ca.1 .0, ca.1 .1), group(&mut classes, cb.1 .0, cb.1 .1)) else { continue };
                if ga.iter().any(|x| gb.contains(x)) {
                    continue;
                }
                let (va, vb) = match (prover.advice()[ca.1 .0][ca.1 .1], prover.advice()[cb.1 .0][cb.1 .1]) {
                    (CellValue::Assigned(x), CellValue::Assigned(y)) => (x, y),
                    _ => continue,
                };
                for fa in small(va) {
                    for fb in small(vb) {
                        if (fa == va && fb == vb) || done >= budget {
                            continue;
                        }
                        let all: Vec<((usize, usize), F)> =
                            ga.iter().map(|c| (*c, fa)).chain(gb.iter().map(|c| (*c, fb))).collect();
                        let saved: Vec<CellValue<F>> = all.iter().map(|((c, r), _)| prover.advice()[*c][*r]).collect();
                        for ((c, r), v) in &all {
                            prover.verif_advice_mut()[*c][*r] = CellValue::Assigned(*v);
                        }
                        let mut verdict = catch(|| prover.verify().is_ok()).unwrap_or(false);
                        done += 1;
                        let mut repaired = vec![];
                        if !verdict {
                            // follow the protocol downstream of the two faulted cells
                            let frozen: Vec<(usize, usize)> = all.iter().map(|(c, _)| *c).collect();
                            repaired = repair(&mut prover, rec, &mut classes, first_region, &frozen);
                            if !repaired.is_empty() {
                                verdict = catch(|| prover.verify().is_ok()).unwrap_or(false);
                                ctx.count(&format!("pair+repair:{}", if verdict { "accepted" } else { "rejected" }));
                            }
                        }
                        ctx.count(&format!("pair:{}", if verdict { "accepted" } else { "rejected" }));
                        if verdict {
                            let table_vals: Vec<Option<F>> = var_cells
                                .iter()
                                .zip(honest_vals.iter())
                                .map(|(vc, hv)| match vc {
                                    Some((c, r)) => match prover.advice()[*c][*r] {
                                        CellValue::Assigned(x) => Some(x),
                                        _ => *hv,
                                    },
                                    None => *hv,
                                })
                                .collect();
                            let changed: Vec<usize> = (n_in..table_vals.len())
                                .filter(|i| table_vals[*i] != honest_vals[*i])
                                .collect();
                            let why = semantic_violation(case, &table_vals, &types);
                            if (case.deterministic && !changed.is_empty()) || why.is_some() {
                                ctx.oracle_fail(
                                    &format!("forged-pair:{}:{}.{}.a{}+{}.{}.a{}", case.header(), ca.0 .0, ca.0 .1, ca.0 .2, cb.0 .0, cb.0 .1, cb.0 .2),
                                    "MockProver accepts a forged advice table (two cells moved together) whose outputs differ from the operation's definition",
                                    json!({"case": case_key(case),
                                           "cells": [format!("{}.{}.a{}", ca.0 .0, ca.0 .1, ca.0 .2), format!("{}.{}.a{}", cb.0 .0, cb.0 .1, cb.0 .2)],
                                           "forged": [fe_hex(&fa), fe_hex(&fb)], "honest": [fe_hex(&va), fe_hex(&vb)],
                                           "changed_vars": changed, "why": why}),
                                );
                            }
                        }
                        for ((c, r), sv) in repaired.iter().rev() {
                            prover.verif_advice_mut()[*c][*r] = *sv;
                        }
                        for (((c, r), _), sv) in all.iter().zip(saved) {
                            prover.verif_advice_mut()[*c][*r] = sv;
                        }
                    }
                }
            }
        }
    }
}

/// What the range oracle knows about a program on given inputs.
pub struct Spec {
    /// value of every variable (None = not determined by the specification)
    pub vals: Vec<Option<num_bigint::BigUint>>,
    /// do all range assertions / domain conditions of the program hold on the honest witness?
    pub ok: bool,
    /// the first assertion that fails
    pub why: Option<String>,
}

/// The mathematical meaning of the range assertions, conversions and comparisons of a program
/// on an honest witness, over the integers (independent of the Lean model and of the code under
/// test). `None` when the program uses an operation outside this fragment.
pub fn spec_eval(case: &Case, inputs: &[F]) -> Option<Spec> {
    use crate::prog::Arg;
    use num_bigint::BigUint;
    let pm = gen::modulus();
    let two = BigUint::from(2u8);
    let mut vals: Vec<Option<BigUint>> = vec![];
    let mut ok = true;
    let mut why: Option<String> = None;
    let mut it = inputs.iter();
    let mut fail = |ok: &mut bool, cond: bool, o: &Op| {
        if !cond && *ok {
            *ok = false;
            why = Some(o.render());
        }
    };
    for o in &case.ops {
        let a = &o.args;
        let v = |i: usize| -> Option<BigUint> {
            match &a[i] {
                Arg::V(j) => vals.get(*j).cloned().flatten(),
                _ => None,
            }
        };
        let cbig = |i: usize| -> BigUint {
            match &a[i] {
                Arg::C(c) => mzkh::fe_big(c),
                Arg::Big(b) => b.clone(),
                Arg::N(n) => BigUint::from(*n),
                _ => panic!("spec: constant expected"),
            }
        };
        let b2 = |b: bool| Some(BigUint::from(b as u8));
        match o.name {
            "in" => vals.push(Some(mzkh::fe_big(it.next()?))),
            "inb" => {
                let x = mzkh::fe_big(it.next()?);
                if x >= two {
                    return None;
                }
                vals.push(Some(x));
            }
            "iny" => {
                let x = mzkh::fe_big(it.next()?);
                if x >= BigUint::from(256u32) {
                    return None;
                }
                vals.push(Some(x));
            }
            "fix" => vals.push(Some(cbig(0))),
            "y2n" | "b2n" => vals.push(v(0)),
            "n2y" => {
                let x = v(0)?;
                fail(&mut ok, x < BigUint::from(256u32), o);
                vals.push(Some(x));
            }
            "n2b" => {
                let x = v(0)?;
                fail(&mut ok, x < two, o);
                vals.push(Some(x));
            }
            "alf" => {
                let x = v(0)?;
                fail(&mut ok, x < cbig(1), o);
            }
            "inlf" => {
                let x = mzkh::fe_big(it.next()?);
                fail(&mut ok, x < cbig(0), o);
                vals.push(Some(x));
            }
            "bnd" => {
                let x = v(0)?;
                fail(&mut ok, x < two.pow(a[1].n_pub() as u32), o);
                vals.push(Some(x));
            }
            "asltp2" => {
                let x = v(0)?;
                fail(&mut ok, x < two.pow(a[1].n_pub() as u32), o);
            }
            "altp2" => {
                let x = mzkh::fe_big(it.next()?);
                fail(&mut ok, x < two.pow(a[0].n_pub() as u32), o);
                vals.push(Some(x));
            }
            "aeq" => {
                let (x, y) = (v(0)?, v(1)?);
                fail(&mut ok, x == y, o);
            }
            "ltf" => vals.push(b2(v(0)? < cbig(1))),
            "leqf" => vals.push(b2(v(0)? <= cbig(1))),
            "geqf" => vals.push(b2(v(0)? >= cbig(1))),
            "gtf" => vals.push(b2(v(0)? > cbig(1))),
            "lt" => vals.push(b2(v(0)? < v(1)?)),
            "leq" => vals.push(b2(v(0)? <= v(1)?)),
            "geq" => vals.push(b2(v(0)? >= v(1)?)),
            "gt" => vals.push(b2(v(0)? > v(1)?)),
            "not" => vals.push(Some(BigUint::from(1u8) - v(0)?)),
            "bnot" => {
                let x = v(0)?;
                let m = two.pow(a[1].n_pub() as u32);
                fail(&mut ok, x < m, o);
                vals.push(if x < m { Some(&m - 1u8 - &x) } else { None });
            }
            "divrem" | "rem" => {
                let x = v(0)?;
                let d = cbig(1);
                let bound = match &a[2] {
                    Arg::OptBig(Some(b)) => b.clone(),
                    _ => &pm - 1u8,
                };
                let (q, r) = (&x / &d, &x % &d);
                if d != BigUint::from(1u8) {
                    fail(&mut ok, q < &bound / &d + 1u8, o);
                }
                if o.name == "divrem" {
                    vals.push(Some(q));
                }
                vals.push(Some(r));
            }
            _ => return None,
        }
    }
    Some(Spec { vals, ok, why })
}

/// The range oracle: for the inputs of the case and each of its variants, the real MockProver
/// must accept the honest witness iff every range assertion of the program holds on it, and
/// the values the real synthesis computes must be the specified ones.
pub fn range_oracle(ctx: &mut Ctx, case: &Case, rec: &Rec) {
    let k = k_for(rec);
    let mut all: Vec<Vec<F>> = vec![case.inputs.clone()];
    all.extend(case.variants.iter().cloned());
    for inputs in all {
        let Some(spec) = spec_eval(case, &inputs) else {
            ctx.count("range-oracle:unsupported");
            continue;
        };
        let c2 = Case { inputs: inputs.clone(), variants: vec![], ..case.clone() };
        let m = mock(&c2, k, vec![]);
        let accepted = m.verdict == Ok(true);
        ctx.count(&format!(
            "range-oracle:{}:{}",
            if spec.ok { "in-range" } else { "out-of-range" },
            if accepted { "accepted" } else { "rejected" }
        ));
        if accepted && !spec.ok {
            ctx.oracle_fail(
                &format!("range-accepts:{}", case_key(&c2)),
                "MockProver accepts an honest witness that lies outside an asserted range",
                json!({"case": case_key(&c2), "violated": spec.why}),
            );
        } else if !accepted && spec.ok {
            ctx.oracle_fail(
                &format!("range-rejects:{}", case_key(&c2)),
                "MockProver rejects an honest witness although every asserted range holds",
                json!({"case": case_key(&c2), "verdict": format!("{:?}", m.verdict)}),
            );
        } else if accepted {
            let got: Vec<Option<F>> = m.outcome.vars.iter().map(|v| v.4).collect();
            for (i, (g, s)) in got.iter().zip(spec.vals.iter()).enumerate() {
                if let (Some(g), Some(s)) = (g, s) {
                    if mzkh::fe_big(g) != *s {
                        ctx.oracle_fail(
                            &format!("wrong-output:{}", case_key(&c2)),
                            "an accepted honest execution outputs a value that differs from the operation's definition",
                            json!({"case": case_key(&c2), "var": i, "got": fe_hex(g), "expected": mzkh::big_hex(s)}),
                        );
                        break;
                    }
                }
            }
        }
    }
}

/// Number of variables produced by the input-preparation prefix.
fn nb_input_vars(case: &Case) -> usize {
    let prefix = Case { ops: case.ops[..case.first_op].to_vec(), inputs: case.inputs.clone(), ..case.clone() };
    record(&prefix).map(|(_, o)| o.vars.len()).unwrap_or(0)
}

fn record_prefix(prefix: &Case) -> Option<usize> {
    record(prefix).ok().map(|(rec, _)| rec.regions.iter().filter(|r| r.name != "pow2range table").count())
}

/// Targeted forgery against `div_rem` without a declared dividend bound. The operation is the
/// composition `r = assign_lower_than_fixed(d); q = assign_lower_than_fixed((p-1)/d + 1);
/// assert dividend = d*q + r`; the replica program below issues exactly these public calls with
/// prover-chosen `(q, r)` (the harness first checks that the replica's constraint system is
/// cell-for-cell identical to the one `div_rem` builds). With `p - 1 = d*Q + R`, the pair
/// `(Q, x + R + 1)` satisfies every constraint for every dividend `x < d - R - 1` although
/// `x / d = 0`: the sum wraps around the modulus.
pub fn attack_divrem(ctx: &mut Ctx) {
    use crate::prog::{op, Arg::*, Params};
    use num_bigint::BigUint;
    let pm = gen::modulus();
    let params = Params { nr_cols: 4, max_bit_len: 8 };
    let mut accepted = vec![];
    for d in [3u64, 5, 7, 10, 255, 65537] {
        let dv = BigUint::from(d);
        let q_cap = (&pm - 1u8) / &dv; // Q
        let rr = (&pm - 1u8) % &dv; // R
        if &rr + 2u8 > dv {
            ctx.count("attack:divrem:not-applicable");
            continue; // no dividend x with x + R + 1 < d
        }
        let x = BigUint::from(0u8);
        let real = Case {
            kind: "divrem-nobound".into(),
            params: params.clone(),
            ops: vec![op("in", vec![]), op("divrem", vec![V(0), Big(dv.clone()), OptBig(None)])],
            inputs: vec![gen::big_fe(&x)],
            first_op: 1,
            deterministic: true,
            variants: vec![],
        };
        let replica = |xv: &BigUint, rv: &BigUint, qv: &BigUint| Case {
            kind: "divrem-replica".into(),
            params: params.clone(),
            ops: vec![
                op("in", vec![]),
                op("inlf", vec![Big(dv.clone())]),
                op("inlf", vec![Big(&q_cap + 1u8)]),
                op("lc", vec![Terms(vec![(gen::big_fe(&dv), 2), (F::from(1u64), 1)]), C(F::from(0u64))]),
                op("aeq", vec![V(0), V(3)]),
            ],
            inputs: vec![gen::big_fe(xv), gen::big_fe(rv), gen::big_fe(qv)],
            first_op: 1,
            deterministic: false,
            variants: vec![],
        };
        let honest_rep = replica(&x, &(&x % &dv), &(&x / &dv));
        let (Ok((rec_real, _)), Ok((rec_rep, _))) = (record(&real), record(&honest_rep)) else {
            ctx.count("attack:divrem:record-failed");
            continue;
        };
        if rec_real.render() != rec_rep.render() {
            // the replica no longer reproduces div_rem's constraint system: nothing is claimed
            ctx.count("attack:divrem:replica-differs");
            continue;
        }
        ctx.count("attack:divrem:replica-identical");
        let forged = replica(&x, &(&x + &rr + 1u8), &q_cap);
        let m = mock(&forged, k_for(&rec_rep), vec![]);
        ctx.count(&format!("attack:divrem:{:?}", m.verdict));
        if m.verdict == Ok(true) {
            accepted.push(json!({"divisor": d, "dividend": "0x0", "forged_quotient": mzkh::big_hex(&q_cap),
                       "forged_remainder": mzkh::big_hex(&(&x + &rr + 1u8)),
                       "true_quotient": "0x0", "true_remainder": "0x0",
                       "program": case_key(&forged)}));
        }
    }
    if !accepted.is_empty() {
        ctx.oracle_fail(
            "div_rem:no-dividend-bound:wraparound",
            "div_rem without a dividend bound accepts a forged (quotient, remainder): d*q + r wraps around the modulus",
            json!({"where": "circuits/src/instructions/division.rs: div_rem (q_strict_bound = dividend_bound/divisor + 1 with dividend_bound = p-1 allows d*q + r >= p)",
                   "accepted_forgeries": accepted}),
        );
    }
}

pub fn run(ctx: &mut Ctx) {
    attack_divrem(ctx);
    // hypothesis `OptOK` of the range-check theorems, for every bit length of every configuration
    // used below (the real chips are then exercised on these configurations)
    for p in gen::configs(ctx) {
        ctx.case("optok", true, &format!("optok {} {}", p.nr_cols, p.max_bit_len), "1");
    }
    crate::oracles::vector_oracle(ctx);
    crate::oracles::batch_oracle(ctx);
    crate::mapops::map_oracle(ctx);
    let cases = gen::cases(ctx);
    let budget = if ctx.quick() { 6 } else if ctx.thorough() { 10 } else { 8 };
    for case in &cases {
        let Some((rec, out)) = run_case(ctx, case, true) else { continue };
        let vector_case = case.kind.starts_with('v') || case.kind.starts_with("map:");
        if vector_case {
            crate::oracles::vec_value_oracle(ctx, case, &out);
            if ctx.search() {
                // failing inputs of the vector operations come from `vector_oracle` / the value oracle
                continue;
            }
        }
        let oracle_case = case.kind.starts_with("bc:");
        if oracle_case {
            range_oracle(ctx, case, &rec);
            if ctx.search() {
                // the search tier only looks for failing inputs: for these cases the range oracle is it
                continue;
            }
        }
        let Some(honest) = honest_accept(ctx, case, &rec) else { continue };
        let budget = if oracle_case {
            budget.min(if ctx.quick() { 0 } else { 2 })
        } else if vector_case {
            // vector / map programs are many and large: a few faults each (their failing inputs come
            // from the dedicated oracles)
            if ctx.quick() { 2 } else { 4 }
        } else {
            budget
        };
        tamper_case(ctx, case, &rec, honest, budget);
        if !ctx.quick() && !oracle_case && !vector_case {
            if let Some(h2) = honest_accept(ctx, case, &rec) {
                pair_search(ctx, case, &rec, h2, if ctx.search() { 40 } else { 40 });
            }
        }
    }
}
