//! Correspondence and oracle runs.
use ff::Field;
use midnight_proofs::{
    circuit::{verif_hooks, SimpleFloorPlanner},
    dev::{CellValue, MockProver},
    plonk::{Circuit, ConstraintSystem, FloorPlanner},
};
use mzkh::{catch, fe_hex, Ctx};
use serde_json::json;

use crate::{
    gen,
    prog::{render_prog, Op, Outcome, Params, ProgCircuit},
    rec::Rec,
    F,
};

/// A program with its configuration and witness inputs.
#[derive(Clone, Debug)]
pub struct Case {
    pub kind: String,
    pub params: Params,
    pub ops: Vec<Op>,
    pub inputs: Vec<F>,
    /// index of the first op that belongs to the operation under test (earlier ops only
    /// prepare inputs); used by the fault injector.
    pub first_op: usize,
    /// whether the outputs are determined by the inputs (false for documented
    /// non-canonical decompositions).
    pub deterministic: bool,
}

impl Case {
    pub fn header(&self) -> String {
        format!("{} {} ; {}", self.params.nr_cols, self.params.max_bit_len, render_prog(&self.ops))
    }
}

/// Real synthesis through the recording backend.
pub fn record(case: &Case) -> Result<(Rec, Outcome), String> {
    let circuit = ProgCircuit::new(case.params.clone(), case.ops.clone(), case.inputs.clone());
    let r = catch(|| {
        let mut cs = ConstraintSystem::<F>::default();
        let config = ProgCircuit::configure_with_params(&mut cs, case.params.clone());
        let mut rec = Rec::new();
        let constants = cs.constants().clone();
        SimpleFloorPlanner::synthesize(&mut rec, &circuit, config, constants)
            .map_err(|e| format!("{e:?}"))
            .map(|_| rec)
    });
    match r {
        Err(p) => Err(format!("panic: {p}")),
        Ok(Err(e)) => Err(format!("error: {e}")),
        Ok(Ok(rec)) => {
            let out = circuit.outcome.borrow().clone();
            Ok((rec, out))
        }
    }
}

pub fn render_outcome_cells(out: &Outcome) -> String {
    let v: Vec<String> =
        out.vars.iter().map(|(ty, k, o, key, _)| format!("{ty}:{k}.{o}.{key}")).collect();
    format!("O[{}]", v.join(" "))
}

pub fn render_outcome_values(out: &Outcome) -> String {
    let v: Vec<String> = out
        .vars
        .iter()
        .map(|(_, _, _, _, val)| val.map(|x| fe_hex(&x)).unwrap_or_else(|| "?".into()))
        .collect();
    mzkh::join(&v)
}

/// Number of rows needed by a recorded synthesis (for choosing k).
fn rows_needed(rec: &Rec) -> usize {
    let mut m = 0usize;
    for r in &rec.regions {
        for e in &r.events {
            let row = match e {
                crate::rec::Ev::Sel(_, r) | crate::rec::Ev::Fix(_, r, _) | crate::rec::Ev::Adv(_, r) => *r,
            };
            m = m.max(row + 1);
        }
    }
    m
}

pub fn k_for(rec: &Rec) -> u32 {
    let need = rows_needed(rec) + 16;
    let mut k = 6;
    while (1usize << k) < need {
        k += 1;
    }
    k
}

pub type Fault = (usize, Box<dyn Fn(F) -> F>);

pub struct MockRun {
    pub verdict: Result<bool, String>,
    pub outcome: Outcome,
    pub hits: Vec<(usize, F, F)>,
    pub nb_advice: usize,
    pub prover: Option<MockProver<F>>,
}

/// Real synthesis + real `MockProver::verify`, optionally under a tamper plan (H1).
pub fn mock(case: &Case, k: u32, faults: Vec<Fault>) -> MockRun {
    let circuit = ProgCircuit::new(case.params.clone(), case.ops.clone(), case.inputs.clone());
    verif_hooks::set_plan::<F>(verif_hooks::TamperPlan::new(faults));
    let r = catch(|| MockProver::run(k, &circuit, vec![vec![], vec![]]));
    let plan = verif_hooks::take_plan::<F>();
    let (hits, nb) = plan.map(|p| (p.hits, p.counter)).unwrap_or((vec![], 0));
    let outcome = circuit.outcome.borrow().clone();
    match r {
        Err(p) => MockRun { verdict: Err(format!("panic: {p}")), outcome, hits, nb_advice: nb, prover: None },
        Ok(Err(e)) => MockRun { verdict: Err(format!("error: {e:?}")), outcome, hits, nb_advice: nb, prover: None },
        Ok(Ok(prover)) => {
            let v = catch(|| prover.verify().is_ok());
            match v {
                Ok(b) => MockRun { verdict: Ok(b), outcome, hits, nb_advice: nb, prover: Some(prover) },
                Err(p) => MockRun { verdict: Err(format!("verify panic: {p}")), outcome, hits, nb_advice: nb, prover: None },
            }
        }
    }
}

fn case_key(case: &Case) -> String {
    format!(
        "{} ; in={}",
        case.header(),
        mzkh::join(&case.inputs.iter().map(fe_hex).collect::<Vec<_>>())
    )
}

/// One case: structural trace line, honest-value line, completeness oracle.
pub fn run_case(ctx: &mut Ctx, case: &Case, with_values: bool) -> Option<(Rec, Outcome)> {
    let hdr = case.header();
    let (rec, out) = match record(case) {
        Ok(x) => x,
        Err(e) => {
            // an honest synthesis of an admissible program must not fail
            ctx.oracle_fail(
                &format!("synth:{}", case_key(case)),
                "honest synthesis of an admissible program fails",
                json!({"case": case_key(case), "error": e}),
            );
            return None;
        }
    };
    let trace = format!("{} {}", rec.render(), render_outcome_cells(&out));
    ctx.case(&format!("trace:{}", case.kind), true, &format!("trace {hdr}"), &trace);
    ctx.count_n("trace_regions", rec.regions.len() as u64);
    // table must enumerate exactly [0, 2^tag) for each tag
    check_table(ctx, case, &rec);
    if with_values {
        let ins = mzkh::join(&case.inputs.iter().map(fe_hex).collect::<Vec<_>>());
        ctx.case(
            &format!("eval:{}", case.kind),
            true,
            &format!("eval {hdr} ; {ins}"),
            &render_outcome_values(&out),
        );
    }
    Some((rec, out))
}

fn check_table(ctx: &mut Ctx, case: &Case, rec: &Rec) {
    let rows = rec.table_rows();
    let mut i = 0;
    while i < rows.len() {
        let tag = rows[i].0;
        let t = mzkh::fe_big(&tag);
        let t: u32 = t.to_u32_digits().first().copied().unwrap_or(0);
        let n = 1usize << t;
        let ok = i + n <= rows.len()
            && (0..n).all(|j| rows[i + j].0 == tag && rows[i + j].1 == F::from(j as u64));
        if !ok {
            ctx.oracle_fail(
                &format!("table:{}", case.header()),
                "pow2range table does not enumerate [0,2^tag) for a loaded tag",
                json!({"case": case.header(), "row": i, "tag": t}),
            );
            return;
        }
        i += n;
    }
}

/// Honest witness must be accepted by the real MockProver (completeness).
pub fn honest_accept(ctx: &mut Ctx, case: &Case, rec: &Rec) -> Option<MockRun> {
    let k = k_for(rec);
    let m = mock(case, k, vec![]);
    ctx.count("mock:honest");
    match &m.verdict {
        Ok(true) => {}
        other => {
            ctx.oracle_fail(
                &format!("honest:{}", case_key(case)),
                "MockProver rejects the honest witness of an admissible input",
                json!({"case": case_key(case), "verdict": format!("{other:?}")}),
            );
        }
    }
    Some(m)
}

/// Advice values of a MockProver in the recorder's canonical cell order.
pub fn advice_line(rec: &Rec, prover: &MockProver<F>) -> String {
    let adv = prover.advice();
    let vals: Vec<String> = rec
        .advice_cells()
        .iter()
        .map(|(_, (c, row), _)| match adv[*c][*row] {
            CellValue::Assigned(v) => fe_hex(&v),
            _ => "0x0".to_string(),
        })
        .collect();
    mzkh::join(&vals)
}

pub fn run(ctx: &mut Ctx) {
    let cases = gen::cases(ctx);
    for case in &cases {
        let Some((rec, out)) = run_case(ctx, case, true) else { continue };
        let Some(honest) = honest_accept(ctx, case, &rec) else { continue };
        let _ = (out, honest);
    }
}
