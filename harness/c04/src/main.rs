//! Correspondence harness of property C04 (stub).
use mzkh::Ctx;

fn main() {
    let ctx = Ctx::from_args("C04");
    ctx.finish();
}
