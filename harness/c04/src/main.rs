//! Correspondence harness of property C04 (native-field gadgets complete and sound).
//!
//! * `h-c04 --dump-gates FILE`: runs the REAL `NativeChip::configure` / `Pow2RangeChip::configure`
//!   and writes every gate polynomial and lookup argument as an expression AST (JSON); the
//!   translator `translators/c04_gates.py` renders it as Lean terms.
//! * `h-c04 --tier T --seed S --out DIR`: correspondence + oracle run (see `run.rs`).
mod gates;
mod gen;
mod mapops;
mod oracles;
mod prog;
mod rec;
mod run;
mod vecops;

pub type F = midnight_curves::Fq;

fn main() {
    let args: Vec<String> = std::env::args().collect();
    if args.len() >= 3 && args[1] == "--dump-gates" {
        gates::dump(&args[2]);
        return;
    }
    let mut ctx = mzkh::Ctx::from_args("C04");
    run::run(&mut ctx);
    ctx.finish();
}
