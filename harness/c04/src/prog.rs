//! Small programs over the native gadget: a list of operations on a growing list of
//! variables. The same text is interpreted by the Lean model (`MidnightZK.Model.C04.Interp`)
//! and, here, by the REAL chips of /repo inside a circuit.

use std::cell::RefCell;

use ff::Field;
use midnight_circuits::{
    field::{
        decomposition::{
            chip::{P2RDecompositionChip, P2RDecompositionConfig},
            instructions::CoreDecompositionInstructions,
            pow2range::{Pow2RangeChip, Pow2RangeConfig},
        },
        AssignedBounded, AssignedNative, NativeChip, NativeConfig, NativeGadget,
    },
    instructions::{
        decomposition::Pow2RangeInstructions, ArithInstructions, AssertionInstructions,
        AssignmentInstructions, BinaryInstructions, CanonicityInstructions,
        BitwiseInstructions, ComparisonInstructions, ControlFlowInstructions, ConversionInstructions,
        DecompositionInstructions, DivisionInstructions, EqualityInstructions,
        RangeCheckInstructions, ZeroInstructions,
    },
    types::{AssignedBit, AssignedByte, ComposableChip},
};
use midnight_proofs::{
    circuit::{Layouter, SimpleFloorPlanner, Value},
    plonk::{Advice, Circuit, Column, ConstraintSystem, Error, Fixed},
};
use mzkh::{big_hex, fe_hex};
use num_bigint::BigUint;

use crate::F;

pub type NG = NativeGadget<F, P2RDecompositionChip<F>, NativeChip<F>>;

#[derive(Clone, Debug)]
pub enum Arg {
    V(usize),
    Vs(Vec<usize>),
    C(F),
    Cs(Vec<F>),
    N(u64),
    OptN(Option<u64>),
    Big(BigUint),
    OptBig(Option<BigUint>),
    Terms(Vec<(F, usize)>),
    Pairs(Vec<(F, F)>),
}

impl Arg {
    pub fn render(&self) -> String {
        match self {
            Arg::V(i) => i.to_string(),
            Arg::Vs(v) => mzkh::join(v),
            Arg::C(c) => fe_hex(c),
            Arg::Cs(v) => mzkh::join(&v.iter().map(fe_hex).collect::<Vec<_>>()),
            Arg::N(n) => n.to_string(),
            Arg::OptN(None) | Arg::OptBig(None) => "-".into(),
            Arg::OptN(Some(n)) => n.to_string(),
            Arg::Big(b) => big_hex(b),
            Arg::OptBig(Some(b)) => big_hex(b),
            Arg::Terms(t) => {
                mzkh::join(&t.iter().map(|(c, v)| format!("{}:{}", fe_hex(c), v)).collect::<Vec<_>>())
            }
            Arg::Pairs(t) => {
                mzkh::join(&t.iter().map(|(k, v)| format!("{}:{}", fe_hex(k), fe_hex(v))).collect::<Vec<_>>())
            }
        }
    }
    fn v(&self) -> usize {
        match self {
            Arg::V(i) => *i,
            _ => panic!("arg: var expected"),
        }
    }
    fn vs(&self) -> &[usize] {
        match self {
            Arg::Vs(v) => v,
            _ => panic!("arg: var list expected"),
        }
    }
    fn c(&self) -> F {
        match self {
            Arg::C(c) => *c,
            _ => panic!("arg: const expected"),
        }
    }
    fn n(&self) -> u64 {
        match self {
            Arg::N(n) => *n,
            _ => panic!("arg: nat expected"),
        }
    }
    pub fn n_pub(&self) -> u64 {
        self.n()
    }
    fn big(&self) -> BigUint {
        match self {
            Arg::Big(b) => b.clone(),
            _ => panic!("arg: big expected"),
        }
    }
}

#[derive(Clone, Debug)]
pub struct Op {
    pub name: &'static str,
    pub args: Vec<Arg>,
}

pub fn op(name: &'static str, args: Vec<Arg>) -> Op {
    Op { name, args }
}

impl Op {
    pub fn render(&self) -> String {
        let mut s = self.name.to_string();
        for a in &self.args {
            s.push(' ');
            s.push_str(&a.render());
        }
        s
    }
    /// Number of witness inputs the op consumes.
    pub fn nb_inputs(&self) -> usize {
        match self.name {
            "in" | "inb" | "iny" | "altp2" | "inlf" => 1,
            "ams" | "inmany" | "inbmany" | "inymany" => self.args[0].n() as usize,
            "vassign" | "vassignf" => self.args[2].n() as usize,
            _ => 0,
        }
    }
}

pub fn render_prog(ops: &[Op]) -> String {
    ops.iter().map(|o| o.render()).collect::<Vec<_>>().join(" ; ")
}

#[derive(Clone, Debug)]
pub enum Var {
    N(AssignedNative<F>),
    B(AssignedBit<F>),
    Y(AssignedByte<F>),
    D(AssignedBounded<F>, AssignedNative<F>),
}

impl Var {
    pub fn native(&self) -> AssignedNative<F> {
        match self {
            Var::N(x) => x.clone(),
            Var::B(b) => b.clone().into(),
            Var::Y(y) => y.clone().into(),
            Var::D(_, x) => x.clone(),
        }
    }
    pub fn ty(&self) -> String {
        match self {
            Var::N(_) => "N".into(),
            Var::B(_) => "B".into(),
            Var::Y(_) => "Y".into(),
            Var::D(d, _) => format!("D{}", d.bound()),
        }
    }
}

#[derive(Clone, Debug, Default)]
pub struct Params {
    pub nr_cols: usize,
    pub max_bit_len: usize,
}

#[derive(Clone, Debug)]
pub struct Cfg {
    pub native: NativeConfig,
    pub p2r: Pow2RangeConfig,
    pub max_bit_len: usize,
    pub advice: [Column<Advice>; 5],
    pub fixed: [Column<Fixed>; 9],
}

/// What the synthesis left behind: type, canonical cell and value of every variable.
#[derive(Clone, Debug, Default)]
pub struct Outcome {
    /// (type, region index, offset, column key, value)
    pub vars: Vec<(String, usize, usize, String, Option<F>)>,
    /// value (`InnerValue::value`) of every vector of the program, by first variable index
    pub vec_values: Vec<(usize, (usize, usize), Option<Vec<F>>)>,
    /// `NativeGadget::constrained_cells` at the end of the synthesis (hook
    /// `verif_constrained_cells`): (region index, offset, column key, strict upper bound), sorted.
    pub bounds: Vec<(usize, usize, String, BigUint)>,
    pub completed: bool,
}

pub struct ProgCircuit {
    pub params: Params,
    pub ops: Vec<Op>,
    pub inputs: Vec<F>,
    pub outcome: RefCell<Outcome>,
}

impl ProgCircuit {
    pub fn new(params: Params, ops: Vec<Op>, inputs: Vec<F>) -> Self {
        ProgCircuit { params, ops, inputs, outcome: RefCell::new(Outcome::default()) }
    }
}

pub fn configure(meta: &mut ConstraintSystem<F>, params: &Params) -> Cfg {
    let committed = meta.instance_column();
    let instance = meta.instance_column();
    let advice: [Column<Advice>; 5] = core::array::from_fn(|_| meta.advice_column());
    let fixed: [Column<Fixed>; 9] = core::array::from_fn(|_| meta.fixed_column());
    let native = NativeChip::<F>::configure(meta, &(advice, fixed, [committed, instance]));
    let p2r = Pow2RangeChip::<F>::configure(meta, &advice[1..=params.nr_cols]);
    Cfg { native, p2r, max_bit_len: params.max_bit_len, advice, fixed }
}

impl Circuit<F> for ProgCircuit {
    type Config = Cfg;
    type FloorPlanner = SimpleFloorPlanner;
    type Params = Params;

    fn without_witnesses(&self) -> Self {
        unreachable!()
    }

    fn params(&self) -> Params {
        self.params.clone()
    }

    fn configure_with_params(meta: &mut ConstraintSystem<F>, params: Params) -> Cfg {
        configure(meta, &params)
    }

    fn configure(_meta: &mut ConstraintSystem<F>) -> Cfg {
        unreachable!()
    }

    fn synthesize(&self, config: Cfg, mut layouter: impl Layouter<F>) -> Result<(), Error> {
        let native_chip = NativeChip::<F>::new(&config.native, &());
        let dconf = P2RDecompositionConfig::new(&config.native, &config.p2r);
        let decomp = P2RDecompositionChip::<F>::new(&dconf, &config.max_bit_len);
        let g: NG = NativeGadget::new(decomp.clone(), native_chip.clone());
        let mut vars: Vec<Var> = vec![];
        let mut vecs: crate::vecops::Vecs = Default::default();
        let vg = midnight_circuits::vec::vector_gadget::VectorGadget::new(&g);
        let mut inputs = self.inputs.iter().copied();
        let mut map: Option<crate::mapops::ToyMap> = None;
        for o in &self.ops {
            exec(o, &g, &native_chip, &decomp, &vg, &mut vars, &mut vecs, &mut map, &mut inputs, &mut layouter)?;
        }
        decomp.load(&mut layouter)?;
        let mut out = Outcome::default();
        for v in &vars {
            let n = v.native();
            let cell = n.cell();
            let key = cell_col_key(&cell.column);
            let mut val = None;
            n.value().map(|x| val = Some(*x));
            out.vars.push((v.ty(), *cell.region_index, cell.row_offset, key, val));
        }
        let mut bounds: Vec<(usize, usize, String, BigUint)> = g
            .verif_constrained_cells()
            .into_iter()
            .map(|(x, b)| {
                let cell = x.cell();
                (*cell.region_index, cell.row_offset, cell_col_key(&cell.column), b)
            })
            .collect();
        bounds.sort_by_key(|(k, o, key, _)| (*k, *o, if key.starts_with('f') { 1u8 } else { 2 }, key[1..].parse::<usize>().unwrap_or(0)));
        out.bounds = bounds;
        let mut vv: Vec<_> = vecs.iter().map(|(i, v)| (*i, v.shape(), v.value())).collect();
        vv.sort_by_key(|x| x.0);
        out.vec_values = vv;
        out.completed = true;
        *self.outcome.borrow_mut() = out;
        Ok(())
    }
}

fn cell_col_key(c: &Column<midnight_proofs::plonk::Any>) -> String {
    match c.column_type() {
        midnight_proofs::plonk::Any::Advice(_) => format!("a{}", c.index()),
        midnight_proofs::plonk::Any::Fixed => format!("f{}", c.index()),
        midnight_proofs::plonk::Any::Instance => format!("i{}", c.index()),
    }
}

fn nat(vars: &[Var], i: usize) -> AssignedNative<F> {
    match &vars[i] {
        Var::N(x) => x.clone(),
        other => panic!("var {i}: native expected, got {}", other.ty()),
    }
}
fn bit(vars: &[Var], i: usize) -> AssignedBit<F> {
    match &vars[i] {
        Var::B(x) => x.clone(),
        other => panic!("var {i}: bit expected, got {}", other.ty()),
    }
}
fn byte(vars: &[Var], i: usize) -> AssignedByte<F> {
    match &vars[i] {
        Var::Y(x) => x.clone(),
        other => panic!("var {i}: byte expected, got {}", other.ty()),
    }
}
fn bounded(vars: &[Var], i: usize) -> AssignedBounded<F> {
    match &vars[i] {
        Var::D(x, _) => x.clone(),
        other => panic!("var {i}: bounded expected, got {}", other.ty()),
    }
}
fn bits(vars: &[Var], l: &[usize]) -> Vec<AssignedBit<F>> {
    l.iter().map(|i| bit(vars, *i)).collect()
}

fn fe_to_big(x: &F) -> BigUint {
    mzkh::fe_big(x)
}

#[allow(clippy::too_many_arguments)]
pub fn exec(
    o: &Op,
    g: &NG,
    nc: &NativeChip<F>,
    dc: &P2RDecompositionChip<F>,
    vg: &midnight_circuits::vec::vector_gadget::VectorGadget<F>,
    vars: &mut Vec<Var>,
    vecs: &mut crate::vecops::Vecs,
    map: &mut Option<crate::mapops::ToyMap>,
    inputs: &mut impl Iterator<Item = F>,
    l: &mut impl Layouter<F>,
) -> Result<(), Error> {
    let a = &o.args;
    if crate::vecops::exec_vec(o.name, a, vg, vars, vecs, inputs, l)? {
        return Ok(());
    }
    if crate::mapops::exec_map(o.name, a, g, map, vars, l)? {
        return Ok(());
    }
    let mut next_in = || Value::known(inputs.next().expect("not enough inputs"));
    match o.name {
        // ---- assignments
        "in" => {
            let x: AssignedNative<F> = g.assign(l, next_in())?;
            vars.push(Var::N(x));
        }
        "inb" => {
            let v = next_in().map(|x| x != F::ZERO);
            let x: AssignedBit<F> = g.assign(l, v)?;
            vars.push(Var::B(x));
        }
        "iny" => {
            let v = next_in().map(|x| fe_to_big(&x).to_bytes_le()[0]);
            let x: AssignedByte<F> = g.assign(l, v)?;
            vars.push(Var::Y(x));
        }
        "inmany" => {
            let vals: Vec<Value<F>> = (0..a[0].n()).map(|_| next_in()).collect();
            let xs: Vec<AssignedNative<F>> = g.assign_many(l, &vals)?;
            vars.extend(xs.into_iter().map(Var::N));
        }
        "inbmany" => {
            let vals: Vec<Value<bool>> =
                (0..a[0].n()).map(|_| next_in().map(|x| x != F::ZERO)).collect();
            let xs: Vec<AssignedBit<F>> = g.assign_many(l, &vals)?;
            vars.extend(xs.into_iter().map(Var::B));
        }
        "inymany" => {
            let vals: Vec<Value<u8>> =
                (0..a[0].n()).map(|_| next_in().map(|x| fe_to_big(&x).to_bytes_le()[0])).collect();
            let xs: Vec<AssignedByte<F>> = g.assign_many(l, &vals)?;
            vars.extend(xs.into_iter().map(Var::Y));
        }
        "fix" => {
            let x: AssignedNative<F> = g.assign_fixed(l, a[0].c())?;
            vars.push(Var::N(x));
        }
        "fixb" => {
            let x: AssignedBit<F> = g.assign_fixed(l, a[0].n() != 0)?;
            vars.push(Var::B(x));
        }
        "fixy" => {
            let x: AssignedByte<F> = g.assign_fixed(l, a[0].n() as u8)?;
            vars.push(Var::Y(x));
        }
        // ---- arithmetic
        "add" => vars.push(Var::N(g.add(l, &nat(vars, a[0].v()), &nat(vars, a[1].v()))?)),
        "sub" => vars.push(Var::N(g.sub(l, &nat(vars, a[0].v()), &nat(vars, a[1].v()))?)),
        "neg" => vars.push(Var::N(g.neg(l, &nat(vars, a[0].v()))?)),
        "mul" => vars.push(Var::N(g.mul(l, &nat(vars, a[0].v()), &nat(vars, a[1].v()), None)?)),
        "mulk" => vars.push(Var::N(g.mul(
            l,
            &nat(vars, a[0].v()),
            &nat(vars, a[1].v()),
            Some(a[2].c()),
        )?)),
        "addc" => vars.push(Var::N(g.add_constant(l, &nat(vars, a[0].v()), a[1].c())?)),
        "mulc" => vars.push(Var::N(g.mul_by_constant(l, &nat(vars, a[0].v()), a[1].c())?)),
        "sq" => vars.push(Var::N(g.square(l, &nat(vars, a[0].v()))?)),
        "pow" => vars.push(Var::N(g.pow(l, &nat(vars, a[0].v()), a[1].n())?)),
        "lc" => {
            let terms: Vec<(F, AssignedNative<F>)> = match &a[0] {
                Arg::Terms(t) => t.iter().map(|(c, v)| (*c, nat(vars, *v))).collect(),
                _ => panic!("lc terms"),
            };
            vars.push(Var::N(g.linear_combination(l, &terms, a[1].c())?));
        }
        "aam" => {
            let (x, y, z) = (nat(vars, a[1].v()), nat(vars, a[3].v()), nat(vars, a[5].v()));
            vars.push(Var::N(g.add_and_mul(
                l,
                (a[0].c(), &x),
                (a[2].c(), &y),
                (a[4].c(), &z),
                a[6].c(),
                a[7].c(),
            )?));
        }
        "inv" => vars.push(Var::N(g.inv(l, &nat(vars, a[0].v()))?)),
        "div" => vars.push(Var::N(g.div(l, &nat(vars, a[0].v()), &nat(vars, a[1].v()))?)),
        "inv0" => vars.push(Var::N(g.inv0(l, &nat(vars, a[0].v()))?)),
        "addcs" => {
            let xs: Vec<_> = a[0].vs().iter().map(|i| nat(vars, *i)).collect();
            let cs = match &a[1] {
                Arg::Cs(c) => c.clone(),
                _ => panic!("addcs consts"),
            };
            let out = g.add_constants(l, &xs, &cs)?;
            vars.extend(out.into_iter().map(Var::N));
        }
        // ---- assertions (native)
        "aeq" => g.assert_equal(l, &nat(vars, a[0].v()), &nat(vars, a[1].v()))?,
        "aneq" => g.assert_not_equal(l, &nat(vars, a[0].v()), &nat(vars, a[1].v()))?,
        "aeqf" => g.assert_equal_to_fixed(l, &nat(vars, a[0].v()), a[1].c())?,
        "aneqf" => g.assert_not_equal_to_fixed(l, &nat(vars, a[0].v()), a[1].c())?,
        "az" => g.assert_zero(l, &nat(vars, a[0].v()))?,
        "anz" => g.assert_non_zero(l, &nat(vars, a[0].v()))?,
        // ---- equality tests (native)
        "iseq" => vars.push(Var::B(g.is_equal(l, &nat(vars, a[0].v()), &nat(vars, a[1].v()))?)),
        "isneq" => {
            vars.push(Var::B(g.is_not_equal(l, &nat(vars, a[0].v()), &nat(vars, a[1].v()))?))
        }
        "iseqf" => vars.push(Var::B(g.is_equal_to_fixed(l, &nat(vars, a[0].v()), a[1].c())?)),
        "isneqf" => {
            vars.push(Var::B(g.is_not_equal_to_fixed(l, &nat(vars, a[0].v()), a[1].c())?))
        }
        "isz" => vars.push(Var::B(g.is_zero(l, &nat(vars, a[0].v()))?)),
        // ---- binary
        "and" => vars.push(Var::B(g.and(l, &bits(vars, a[0].vs()))?)),
        "or" => vars.push(Var::B(g.or(l, &bits(vars, a[0].vs()))?)),
        "xor" => vars.push(Var::B(g.xor(l, &bits(vars, a[0].vs()))?)),
        "not" => vars.push(Var::B(g.not(l, &bit(vars, a[0].v()))?)),
        // ---- bit-typed equality / assertions
        "biseq" => vars.push(Var::B(g.is_equal(l, &bit(vars, a[0].v()), &bit(vars, a[1].v()))?)),
        "bisneq" => {
            vars.push(Var::B(g.is_not_equal(l, &bit(vars, a[0].v()), &bit(vars, a[1].v()))?))
        }
        "biseqf" => {
            vars.push(Var::B(g.is_equal_to_fixed(l, &bit(vars, a[0].v()), a[1].n() != 0)?))
        }
        "bisneqf" => {
            vars.push(Var::B(g.is_not_equal_to_fixed(l, &bit(vars, a[0].v()), a[1].n() != 0)?))
        }
        "baeq" => g.assert_equal(l, &bit(vars, a[0].v()), &bit(vars, a[1].v()))?,
        "baneq" => g.assert_not_equal(l, &bit(vars, a[0].v()), &bit(vars, a[1].v()))?,
        "baeqf" => g.assert_equal_to_fixed(l, &bit(vars, a[0].v()), a[1].n() != 0)?,
        "baneqf" => g.assert_not_equal_to_fixed(l, &bit(vars, a[0].v()), a[1].n() != 0)?,
        // ---- control flow
        "sel" => vars.push(Var::N(g.select(
            l,
            &bit(vars, a[0].v()),
            &nat(vars, a[1].v()),
            &nat(vars, a[2].v()),
        )?)),
        "cswap" => {
            let (x, y) =
                g.cond_swap(l, &bit(vars, a[0].v()), &nat(vars, a[1].v()), &nat(vars, a[2].v()))?;
            vars.push(Var::N(x));
            vars.push(Var::N(y));
        }
        "caeq" => g.cond_assert_equal(
            l,
            &bit(vars, a[0].v()),
            &nat(vars, a[1].v()),
            &nat(vars, a[2].v()),
        )?,
        "bsel" => vars.push(Var::B(g.select(
            l,
            &bit(vars, a[0].v()),
            &bit(vars, a[1].v()),
            &bit(vars, a[2].v()),
        )?)),
        "bcswap" => {
            let (x, y) =
                g.cond_swap(l, &bit(vars, a[0].v()), &bit(vars, a[1].v()), &bit(vars, a[2].v()))?;
            vars.push(Var::B(x));
            vars.push(Var::B(y));
        }
        // ---- canonicity on bit strings
        "geqbits" => {
            vars.push(Var::B(g.le_bits_geq_than(l, &bits(vars, a[0].vs()), a[1].big())?))
        }
        "ltbits" => {
            vars.push(Var::B(g.le_bits_lower_than(l, &bits(vars, a[0].vs()), a[1].big())?))
        }
        "iscanon" => vars.push(Var::B(g.is_canonical(l, &bits(vars, a[0].vs()))?)),
        // ---- conversions
        "b2n" => {
            let x: AssignedNative<F> = g.convert(l, &bit(vars, a[0].v()))?;
            vars.push(Var::N(x));
        }
        "n2b" => {
            let x: AssignedBit<F> = g.convert(l, &nat(vars, a[0].v()))?;
            vars.push(Var::B(x));
        }
        "n2y" => {
            let x: AssignedByte<F> = g.convert(l, &nat(vars, a[0].v()))?;
            vars.push(Var::Y(x));
        }
        "y2n" => {
            let x: AssignedNative<F> = g.convert(l, &byte(vars, a[0].v()))?;
            vars.push(Var::N(x));
        }
        // ---- pow2range / core decomposition
        "rc" => {
            let xs: Vec<_> = a[0].vs().iter().map(|i| nat(vars, *i)).collect();
            dc.pow2range_chip().assert_values_lower_than_2_pow_n(l, &xs, a[1].n() as usize)?;
        }
        "altp2" => {
            vars.push(Var::N(dc.assign_less_than_pow2(l, next_in(), a[0].n() as usize)?));
        }
        "asltp2" => dc.assert_less_than_pow2(l, &nat(vars, a[0].v()), a[1].n() as usize)?,
        "dfl" => {
            let limbs = dc.decompose_fixed_limb_size(
                l,
                &nat(vars, a[0].v()),
                a[1].n() as usize,
                a[2].n() as usize,
            )?;
            vars.extend(limbs.into_iter().map(Var::N));
        }
        "ams" => {
            let vals: Vec<Value<F>> = (0..a[0].n()).map(|_| next_in()).collect();
            let xs = dc.assign_many_small(l, &vals, a[1].n() as usize)?;
            vars.extend(xs.into_iter().map(Var::N));
        }
        // ---- range checks and comparisons
        "alf" => g.assert_lower_than_fixed(l, &nat(vars, a[0].v()), &a[1].big())?,
        "inlf" => vars.push(Var::N(g.assign_lower_than_fixed(l, next_in(), &a[0].big())?)),
        "bnd" => {
            let x = nat(vars, a[0].v());
            let d = g.bounded_of_element(l, a[1].n() as usize, &x)?;
            vars.push(Var::D(d, x));
        }
        "lt" => vars.push(Var::B(g.lower_than(l, &bounded(vars, a[0].v()), &bounded(vars, a[1].v()))?)),
        "leq" => vars.push(Var::B(g.leq(l, &bounded(vars, a[0].v()), &bounded(vars, a[1].v()))?)),
        "geq" => vars.push(Var::B(g.geq(l, &bounded(vars, a[0].v()), &bounded(vars, a[1].v()))?)),
        "gt" => {
            vars.push(Var::B(g.greater_than(l, &bounded(vars, a[0].v()), &bounded(vars, a[1].v()))?))
        }
        "ltf" => vars.push(Var::B(g.lower_than_fixed(l, &bounded(vars, a[0].v()), a[1].c())?)),
        "leqf" => vars.push(Var::B(g.leq_fixed(l, &bounded(vars, a[0].v()), a[1].c())?)),
        "geqf" => vars.push(Var::B(g.geq_fixed(l, &bounded(vars, a[0].v()), a[1].c())?)),
        "gtf" => vars.push(Var::B(g.greater_than_fixed(l, &bounded(vars, a[0].v()), a[1].c())?)),
        // ---- decomposition
        "bits" => {
            let nb = match &a[1] {
                Arg::OptN(n) => n.map(|x| x as usize),
                _ => panic!("bits nb"),
            };
            let bs = g.assigned_to_le_bits(l, &nat(vars, a[0].v()), nb, a[2].n() != 0)?;
            vars.extend(bs.into_iter().map(Var::B));
        }
        "bytes" => {
            let nb = match &a[1] {
                Arg::OptN(n) => n.map(|x| x as usize),
                _ => panic!("bytes nb"),
            };
            let bs = g.assigned_to_le_bytes(l, &nat(vars, a[0].v()), nb)?;
            vars.extend(bs.into_iter().map(Var::Y));
        }
        "chunks" => {
            let nb = match &a[2] {
                Arg::OptN(n) => n.map(|x| x as usize),
                _ => panic!("chunks nb"),
            };
            let cs = g.assigned_to_le_chunks(l, &nat(vars, a[0].v()), a[1].n() as usize, nb)?;
            vars.extend(cs.into_iter().map(Var::N));
        }
        "bebits" => {
            let nb = match &a[1] {
                Arg::OptN(n) => n.map(|x| x as usize),
                _ => panic!("bebits nb"),
            };
            let bs = g.assigned_to_be_bits(l, &nat(vars, a[0].v()), nb, a[2].n() != 0)?;
            vars.extend(bs.into_iter().map(Var::B));
        }
        "bebytes" => {
            let nb = match &a[1] {
                Arg::OptN(n) => n.map(|x| x as usize),
                _ => panic!("bebytes nb"),
            };
            let bs = g.assigned_to_be_bytes(l, &nat(vars, a[0].v()), nb)?;
            vars.extend(bs.into_iter().map(Var::Y));
        }
        "frombebits" => {
            vars.push(Var::N(g.assigned_from_be_bits(l, &bits(vars, a[0].vs()))?));
        }
        "frombebytes" => {
            let bs: Vec<_> = a[0].vs().iter().map(|i| byte(vars, *i)).collect();
            vars.push(Var::N(g.assigned_from_be_bytes(l, &bs)?));
        }
        "sgn0" => vars.push(Var::B(g.sgn0(l, &nat(vars, a[0].v()))?)),
        "frombits" => {
            vars.push(Var::N(g.assigned_from_le_bits(l, &bits(vars, a[0].vs()))?));
        }
        "frombytes" => {
            let bs: Vec<_> = a[0].vs().iter().map(|i| byte(vars, *i)).collect();
            vars.push(Var::N(g.assigned_from_le_bytes(l, &bs)?));
        }
        "divrem" => {
            let bound = match &a[2] {
                Arg::OptBig(b) => b.clone(),
                _ => panic!("divrem bound"),
            };
            let (q, r) = g.div_rem(l, &nat(vars, a[0].v()), a[1].big(), bound)?;
            vars.push(Var::N(q));
            vars.push(Var::N(r));
        }
        // ---- bitwise word instructions (instructions/bitwise.rs defaults)
        "bnot" => vars.push(Var::N(g.bnot(l, &nat(vars, a[0].v()), a[1].n() as usize)?)),
        "band" => vars.push(Var::N(g.band(l, &nat(vars, a[0].v()), &nat(vars, a[1].v()), a[2].n() as usize)?)),
        "bor" => vars.push(Var::N(g.bor(l, &nat(vars, a[0].v()), &nat(vars, a[1].v()), a[2].n() as usize)?)),
        "bxor" => vars.push(Var::N(g.bxor(l, &nat(vars, a[0].v()), &nat(vars, a[1].v()), a[2].n() as usize)?)),
        // ---- byte-typed assertions / equality (each converts byte -> native: bound-cache writers)
        "yaeq" => g.assert_equal(l, &byte(vars, a[0].v()), &byte(vars, a[1].v()))?,
        "yaneq" => g.assert_not_equal(l, &byte(vars, a[0].v()), &byte(vars, a[1].v()))?,
        "yaeqf" => g.assert_equal_to_fixed(l, &byte(vars, a[0].v()), a[1].n() as u8)?,
        "yaneqf" => g.assert_not_equal_to_fixed(l, &byte(vars, a[0].v()), a[1].n() as u8)?,
        "yiseq" => vars.push(Var::B(g.is_equal(l, &byte(vars, a[0].v()), &byte(vars, a[1].v()))?)),
        "yisneq" => vars.push(Var::B(g.is_not_equal(l, &byte(vars, a[0].v()), &byte(vars, a[1].v()))?)),
        "yiseqf" => vars.push(Var::B(g.is_equal_to_fixed(l, &byte(vars, a[0].v()), a[1].n() as u8)?)),
        "yisneqf" => {
            vars.push(Var::B(g.is_not_equal_to_fixed(l, &byte(vars, a[0].v()), a[1].n() as u8)?))
        }
        "ysel" => vars.push(Var::Y(g.select(
            l,
            &bit(vars, a[0].v()),
            &byte(vars, a[1].v()),
            &byte(vars, a[2].v()),
        )?)),
        "rem" => {
            let bound = match &a[2] {
                Arg::OptBig(b) => b.clone(),
                _ => panic!("rem bound"),
            };
            vars.push(Var::N(g.rem(l, &nat(vars, a[0].v()), a[1].big(), bound)?));
        }
        // ---- chip-level entry points (NativeChip directly, bypassing the gadget's caches)
        "c_assertnoteq" => nc.assert_not_equal(l, &nat(vars, a[0].v()), &nat(vars, a[1].v()))?,
        other => panic!("unknown op {other}"),
    }
    Ok(())
}
