//! `RecordingAssignment`: an `Assignment` backend that logs the real synthesis of a circuit
//! (selectors, fixed cells with values, advice cells with values, copy constraints, table)
//! and renders it in a canonical region-relative form. No hook is needed: `Assignment` is a
//! public trait and `SimpleFloorPlanner::synthesize` accepts any implementation.

use std::collections::{BTreeMap, BTreeSet, HashMap};

use midnight_proofs::{
    circuit::Value,
    plonk::{
        Advice, Any, Assignment, Challenge, Column, Error, Fixed, Instance, Selector,
    },
    utils::rational::Rational,
};
use mzkh::fe_hex;

use crate::F;

#[derive(Clone, Debug, PartialEq, Eq, PartialOrd, Ord)]
pub enum Ev {
    /// selector index, absolute row
    Sel(usize, usize),
    /// fixed column, absolute row, value (hex)
    Fix(usize, usize, String),
    /// advice column, absolute row
    Adv(usize, usize),
}

#[derive(Clone, Debug, Default)]
pub struct RegionRec {
    pub name: String,
    pub events: Vec<Ev>,
    pub start: usize,
}

#[derive(Default)]
pub struct Rec {
    pub regions: Vec<RegionRec>,
    cur: Option<usize>,
    /// copies with absolute coordinates
    pub copies: Vec<((Column<Any>, usize), (Column<Any>, usize))>,
    /// advice values by (col,row)
    pub advice: BTreeMap<(usize, usize), Option<F>>,
    /// fixed values by (col,row)
    pub fixed: BTreeMap<(usize, usize), F>,
    pub fills: Vec<(usize, usize, String)>,
    pub outside: Vec<String>,
    /// next free row per column key (mirrors SingleChipLayouter.columns)
    next_free: HashMap<String, usize>,
}

impl Rec {
    pub fn new() -> Self {
        Self::default()
    }
}

pub fn col_key(c: &Column<Any>) -> String {
    col_key_any(c)
}

fn col_key_any(c: &Column<Any>) -> String {
    match c.column_type() {
        Any::Advice(_) => format!("a{}", c.index()),
        Any::Fixed => format!("f{}", c.index()),
        Any::Instance => format!("i{}", c.index()),
    }
}

impl Assignment<F> for Rec {
    fn enter_region<NR, N>(&mut self, name_fn: N)
    where
        NR: Into<String>,
        N: FnOnce() -> NR,
    {
        self.regions.push(RegionRec { name: name_fn().into(), events: vec![], start: 0 });
        self.cur = Some(self.regions.len() - 1);
    }

    fn annotate_column<A, AR>(&mut self, _annotation: A, _column: Column<Any>)
    where
        A: FnOnce() -> AR,
        AR: Into<String>,
    {
    }

    fn exit_region(&mut self) {
        // Recompute the region start exactly as SingleChipLayouter does: the earliest row at
        // which none of the region's columns is in use.
        let k = self.cur.take().expect("exit without enter");
        let r = &mut self.regions[k];
        if r.name == "pow2range table" {
            return;
        }
        let mut cols: BTreeSet<String> = BTreeSet::new();
        let mut min_row = usize::MAX;
        let mut max_row = 0usize;
        for e in &r.events {
            let (key, row) = match e {
                Ev::Sel(s, row) => (format!("s{s}"), *row),
                Ev::Fix(c, row, _) => (format!("f{c}"), *row),
                Ev::Adv(c, row) => (format!("a{c}"), *row),
            };
            cols.insert(key);
            min_row = min_row.min(row);
            max_row = max_row.max(row);
        }
        if cols.is_empty() {
            return;
        }
        let start = cols.iter().map(|c| *self.next_free.get(c).unwrap_or(&0)).max().unwrap();
        assert!(min_row >= start, "region {k} ({}) touches row {min_row} < start {start}", r.name);
        r.start = start;
        let row_count = max_row + 1 - start;
        for c in cols {
            self.next_free.insert(c, start + row_count);
        }
    }

    fn enable_selector<A, AR>(&mut self, _: A, selector: &Selector, row: usize) -> Result<(), Error>
    where
        A: FnOnce() -> AR,
        AR: Into<String>,
    {
        let k = self.cur.expect("selector outside region");
        self.regions[k].events.push(Ev::Sel(selector.index(), row));
        Ok(())
    }

    fn query_instance(&self, _column: Column<Instance>, _row: usize) -> Result<Value<F>, Error> {
        Ok(Value::unknown())
    }

    fn assign_advice<V, VR, A, AR>(
        &mut self,
        _: A,
        column: Column<Advice>,
        row: usize,
        to: V,
    ) -> Result<(), Error>
    where
        V: FnOnce() -> Value<VR>,
        VR: Into<Rational<F>>,
        A: FnOnce() -> AR,
        AR: Into<String>,
    {
        let k = self.cur.expect("advice outside region");
        let mut val = None;
        to().map(|v| {
            let r: Rational<F> = v.into();
            val = Some(r.evaluate());
        });
        self.regions[k].events.push(Ev::Adv(column.index(), row));
        self.advice.insert((column.index(), row), val);
        Ok(())
    }

    fn assign_fixed<V, VR, A, AR>(
        &mut self,
        _: A,
        column: Column<Fixed>,
        row: usize,
        to: V,
    ) -> Result<(), Error>
    where
        V: FnOnce() -> Value<VR>,
        VR: Into<Rational<F>>,
        A: FnOnce() -> AR,
        AR: Into<String>,
    {
        let mut val = None;
        to().map(|v| {
            let r: Rational<F> = v.into();
            val = Some(r.evaluate());
        });
        let v = val.expect("fixed value must be known");
        match self.cur {
            Some(k) => self.regions[k].events.push(Ev::Fix(column.index(), row, fe_hex(&v))),
            None => self.outside.push(format!("f{}@{}={}", column.index(), row, fe_hex(&v))),
        }
        self.fixed.insert((column.index(), row), v);
        Ok(())
    }

    fn copy(
        &mut self,
        left_column: Column<Any>,
        left_row: usize,
        right_column: Column<Any>,
        right_row: usize,
    ) -> Result<(), Error> {
        self.copies.push(((left_column, left_row), (right_column, right_row)));
        Ok(())
    }

    fn fill_from_row(
        &mut self,
        column: Column<Fixed>,
        row: usize,
        to: Value<Rational<F>>,
    ) -> Result<(), Error> {
        let mut s = "?".to_string();
        to.map(|r| s = fe_hex(&r.evaluate()));
        self.fills.push((column.index(), row, s));
        Ok(())
    }

    fn get_challenge(&self, _challenge: Challenge) -> Value<F> {
        Value::unknown()
    }

    fn push_namespace<NR, N>(&mut self, _: N)
    where
        NR: Into<String>,
        N: FnOnce() -> NR,
    {
    }

    fn pop_namespace(&mut self, _: Option<String>) {}
}

/// Canonical cell name `region.offset.col` of an absolute cell, or `i<col>@row` for an
/// instance cell.
pub struct Canon {
    /// (colkey,row) -> (region, offset)
    pub owner: HashMap<(String, usize), (usize, usize)>,
}

impl Rec {
    pub fn canon(&self) -> Canon {
        let mut owner = HashMap::new();
        for (k, r) in self.regions.iter().enumerate() {
            if r.name == "pow2range table" {
                continue;
            }
            for e in &r.events {
                match e {
                    Ev::Fix(c, row, _) => {
                        owner.insert((format!("f{c}"), *row), (k, row - r.start));
                    }
                    Ev::Adv(c, row) => {
                        owner.insert((format!("a{c}"), *row), (k, row - r.start));
                    }
                    _ => {}
                }
            }
        }
        Canon { owner }
    }

    /// The canonical structural trace (no witness values).
    pub fn render(&self) -> String {
        let canon = self.canon();
        let mut out = String::new();
        let mut table: Vec<(usize, usize, String)> = vec![];
        for (k, r) in self.regions.iter().enumerate() {
            if r.name == "pow2range table" {
                for e in &r.events {
                    if let Ev::Fix(c, row, v) = e {
                        table.push((*row, *c, v.clone()));
                    }
                }
                continue;
            }
            let mut evs: Vec<(usize, u8, usize, String)> = r
                .events
                .iter()
                .map(|e| match e {
                    Ev::Sel(s, row) => (row - r.start, 0u8, *s, format!("s{s}@{}", row - r.start)),
                    Ev::Fix(c, row, v) => {
                        (row - r.start, 1u8, *c, format!("f{c}@{}={v}", row - r.start))
                    }
                    Ev::Adv(c, row) => (row - r.start, 2u8, *c, format!("a{c}@{}", row - r.start)),
                })
                .collect();
            evs.sort();
            evs.dedup();
            out.push_str(&format!("R{k}["));
            out.push_str(&evs.iter().map(|e| e.3.clone()).collect::<Vec<_>>().join(" "));
            out.push_str("] ");
        }
        // copies
        let name = |c: &Column<Any>, row: usize| -> String {
            let key = col_key_any(c);
            if key.starts_with('i') {
                return format!("{key}@{row}");
            }
            match canon.owner.get(&(key.clone(), row)) {
                Some((k, o)) => format!("{k}.{o}.{key}"),
                None => format!("?{key}@{row}"),
            }
        };
        let mut cps: Vec<(String, String)> = self
            .copies
            .iter()
            .map(|((c1, r1), (c2, r2))| {
                let a = name(c1, *r1);
                let b = name(c2, *r2);
                if cell_sort_key(&a) <= cell_sort_key(&b) {
                    (a, b)
                } else {
                    (b, a)
                }
            })
            .collect();
        cps.sort_by(|x, y| (cell_sort_key(&x.0), cell_sort_key(&x.1)).cmp(&(cell_sort_key(&y.0), cell_sort_key(&y.1))));
        cps.dedup();
        out.push_str("C[");
        out.push_str(&cps.iter().map(|(a, b)| format!("{a}={b}")).collect::<Vec<_>>().join(" "));
        out.push_str("] ");
        // table: rows of (tag,val) summarised as runs tag:count; exactness checked by the caller
        out.push_str("T[");
        out.push_str(&self.table_summary(&table));
        out.push(']');
        if !self.outside.is_empty() {
            out.push_str(" X[");
            out.push_str(&self.outside.join(" "));
            out.push(']');
        }
        out
    }

    fn table_summary(&self, table: &[(usize, usize, String)]) -> String {
        // group by row: two columns (tag, val); the smaller column index is t_tag
        let mut rows: BTreeMap<usize, Vec<(usize, String)>> = BTreeMap::new();
        for (row, c, v) in table {
            rows.entry(*row).or_default().push((*c, v.clone()));
        }
        let mut runs: Vec<(String, usize)> = vec![];
        for (_, mut cells) in rows {
            cells.sort();
            let tag = cells[0].1.clone();
            match runs.last_mut() {
                Some((t, n)) if *t == tag => *n += 1,
                _ => runs.push((tag, 1)),
            }
        }
        runs.iter().map(|(t, n)| format!("{t}:{n}")).collect::<Vec<_>>().join(",")
    }

    /// `(tag, val)` rows of the loaded lookup table, in row order.
    pub fn table_rows(&self) -> Vec<(F, F)> {
        let mut rows: BTreeMap<usize, Vec<(usize, F)>> = BTreeMap::new();
        for r in &self.regions {
            if r.name != "pow2range table" {
                continue;
            }
            for e in &r.events {
                if let Ev::Fix(c, row, _) = e {
                    rows.entry(*row).or_default().push((*c, self.fixed[&(*c, *row)]));
                }
            }
        }
        rows.into_values()
            .map(|mut cells| {
                cells.sort_by_key(|c| c.0);
                (cells[0].1, cells[1].1)
            })
            .collect()
    }

    /// All advice cells in canonical order (region, offset, column) with their values.
    pub fn advice_cells(&self) -> Vec<((usize, usize, usize), (usize, usize), Option<F>)> {
        let mut v = vec![];
        for (k, r) in self.regions.iter().enumerate() {
            for e in &r.events {
                if let Ev::Adv(c, row) = e {
                    v.push(((k, row - r.start, *c), (*c, *row), self.advice[&(*c, *row)]));
                }
            }
        }
        v.sort_by_key(|x| x.0);
        v.dedup_by_key(|x| x.0);
        v
    }
}

/// Sort key of a canonical cell name: (region, offset, kind, col); instance cells last.
pub fn cell_sort_key(s: &str) -> (usize, usize, u8, usize) {
    if s.starts_with('i') || s.starts_with('?') {
        let mut it = s[1..].split('@');
        let c: usize = it.next().and_then(|x| x.trim_start_matches(|ch: char| !ch.is_ascii_digit()).parse().ok()).unwrap_or(0);
        let r: usize = it.next().and_then(|x| x.parse().ok()).unwrap_or(0);
        return (usize::MAX, r, 9, c);
    }
    let parts: Vec<&str> = s.split('.').collect();
    let k: usize = parts[0].parse().unwrap();
    let o: usize = parts[1].parse().unwrap();
    let kind = if parts[2].starts_with('f') { 1 } else { 2 };
    let c: usize = parts[2][1..].parse().unwrap();
    (k, o, kind, c)
}
