//! `VectorGadget` (circuits/src/vec/vector_gadget.rs) inside the program interpreter.
//!
//! `AssignedVector<F, T, M, A>` has const-generic shape parameters: the harness supports a fixed
//! list of shapes `(M, A)`. A vector is flattened into `M + 1` program variables (the buffer
//! cells, then the length cell; read through the hook `AssignedVector::verif_parts`); vector
//! operations refer to a vector by the index of its first buffer variable.
use std::collections::HashMap;

use midnight_circuits::{
    field::AssignedNative,
    instructions::{
        AssertionInstructions, AssignmentInstructions, EqualityInstructions, VectorInstructions,
    },
    types::{AssignedBit, AssignedVector, InnerValue},
    vec::vector_gadget::VectorGadget,
};
use midnight_proofs::{
    circuit::{Layouter, Value},
    plonk::Error,
};

use crate::{prog::Var, F};

pub type VN<const M: usize, const A: usize> = AssignedVector<F, AssignedNative<F>, M, A>;

macro_rules! shapes {
    ($mac:ident) => {
        $mac! {
            V4x1 4 1, V4x2 4 2, V4x4 4 4, V5x1 5 1, V6x2 6 2, V6x3 6 3, V8x2 8 2, V8x4 8 4,
            V9x3 9 3, V12x4 12 4, V8x8 8 8, V16x4 16 4, V16x8 16 8
        }
    };
}

macro_rules! def_enum {
    ($($name:ident $m:literal $a:literal),*) => {
        #[derive(Clone, Debug)]
        pub enum VecAny { $($name(VN<$m, $a>)),* }
        $(impl From<VN<$m, $a>> for VecAny { fn from(v: VN<$m, $a>) -> Self { VecAny::$name(v) } })*
        pub const SHAPES: &[(usize, usize)] = &[$(($m, $a)),*];
        impl VecAny {
            pub fn shape(&self) -> (usize, usize) { match self { $(VecAny::$name(_) => ($m, $a)),* } }
        }
        /// Assign a vector of the given shape.
        pub fn assign_shape(
            vg: &VectorGadget<F>, l: &mut impl Layouter<F>, m: usize, a: usize, value: Value<Vec<F>>,
            filler: Option<F>,
        ) -> Result<VecAny, Error> {
            match (m, a) {
                $(($m, $a) => {
                    let v: VN<$m, $a> = match filler {
                        None => vg.assign(l, value)?,
                        Some(f) => vg.assign_with_filler(l, value, Some(f))?,
                    };
                    Ok(VecAny::$name(v))
                })*
                _ => panic!("unsupported vector shape ({m}, {a})"),
            }
        }
    };
}
shapes!(def_enum);

macro_rules! on_vec {
    ($v:expr, $x:ident => $body:expr) => {
        match $v {
            VecAny::V4x1($x) => $body,
            VecAny::V4x2($x) => $body,
            VecAny::V4x4($x) => $body,
            VecAny::V5x1($x) => $body,
            VecAny::V6x2($x) => $body,
            VecAny::V6x3($x) => $body,
            VecAny::V8x2($x) => $body,
            VecAny::V8x4($x) => $body,
            VecAny::V9x3($x) => $body,
            VecAny::V12x4($x) => $body,
            VecAny::V8x8($x) => $body,
            VecAny::V16x4($x) => $body,
            VecAny::V16x8($x) => $body,
        }
    };
}

macro_rules! on_vec2 {
    ($v:expr, $w:expr, $x:ident, $y:ident => $body:expr) => {
        match ($v, $w) {
            (VecAny::V4x1($x), VecAny::V4x1($y)) => $body,
            (VecAny::V4x2($x), VecAny::V4x2($y)) => $body,
            (VecAny::V4x4($x), VecAny::V4x4($y)) => $body,
            (VecAny::V5x1($x), VecAny::V5x1($y)) => $body,
            (VecAny::V6x2($x), VecAny::V6x2($y)) => $body,
            (VecAny::V6x3($x), VecAny::V6x3($y)) => $body,
            (VecAny::V8x2($x), VecAny::V8x2($y)) => $body,
            (VecAny::V8x4($x), VecAny::V8x4($y)) => $body,
            (VecAny::V9x3($x), VecAny::V9x3($y)) => $body,
            (VecAny::V12x4($x), VecAny::V12x4($y)) => $body,
            (VecAny::V8x8($x), VecAny::V8x8($y)) => $body,
            (VecAny::V16x4($x), VecAny::V16x4($y)) => $body,
            (VecAny::V16x8($x), VecAny::V16x8($y)) => $body,
            _ => panic!("vector shapes differ"),
        }
    };
}

fn parts<const M: usize, const A: usize>(v: &VN<M, A>) -> (Vec<AssignedNative<F>>, AssignedNative<F>) {
    let (b, l) = v.verif_parts();
    (b.to_vec(), l.clone())
}

impl VecAny {
    pub fn parts(&self) -> (Vec<AssignedNative<F>>, AssignedNative<F>) {
        on_vec!(self, x => parts(x))
    }
    /// The value of the vector as the implementation defines it (`InnerValue::value`).
    pub fn value(&self) -> Option<Vec<F>> {
        let v: Value<Vec<F>> = on_vec!(self, x => x.value());
        let mut out = None;
        v.map(|x| out = Some(x));
        out
    }
}

/// The vectors of a program, keyed by the index of their first buffer variable.
pub type Vecs = HashMap<usize, VecAny>;

pub fn push_vec(vars: &mut Vec<Var>, vecs: &mut Vecs, v: VecAny) {
    let (buf, len) = v.parts();
    let first = vars.len();
    for c in buf {
        vars.push(Var::N(c));
    }
    vars.push(Var::N(len));
    vecs.insert(first, v);
}

fn get<'a>(vecs: &'a Vecs, i: usize, m: usize, a: usize) -> &'a VecAny {
    let v = vecs.get(&i).unwrap_or_else(|| panic!("no vector at variable {i}"));
    assert_eq!(v.shape(), (m, a), "vector shape mismatch at variable {i}");
    v
}

/// `resize` to the supported larger shape with the same alignment.
fn resize(vg: &VectorGadget<F>, l: &mut impl Layouter<F>, v: &VecAny, target: usize) -> Result<VecAny, Error> {
    Ok(match (v, target) {
        (VecAny::V4x1(x), 5) => VecAny::V5x1(vg.resize::<5>(l, x.clone())?),
        (VecAny::V4x2(x), 6) => VecAny::V6x2(vg.resize::<6>(l, x.clone())?),
        (VecAny::V4x2(x), 8) => VecAny::V8x2(vg.resize::<8>(l, x.clone())?),
        (VecAny::V6x2(x), 8) => VecAny::V8x2(vg.resize::<8>(l, x.clone())?),
        (VecAny::V4x4(x), 8) => VecAny::V8x4(vg.resize::<8>(l, x.clone())?),
        (VecAny::V4x4(x), 12) => VecAny::V12x4(vg.resize::<12>(l, x.clone())?),
        (VecAny::V8x4(x), 12) => VecAny::V12x4(vg.resize::<12>(l, x.clone())?),
        (VecAny::V6x3(x), 9) => VecAny::V9x3(vg.resize::<9>(l, x.clone())?),
        (VecAny::V8x4(x), 16) => VecAny::V16x4(vg.resize::<16>(l, x.clone())?),
        (VecAny::V8x8(x), 16) => VecAny::V16x8(vg.resize::<16>(l, x.clone())?),
        _ => panic!("unsupported resize {:?} -> {target}", v.shape()),
    })
}

pub const RESIZES: &[((usize, usize), usize)] =
    &[((4, 1), 5), ((4, 2), 6), ((4, 2), 8), ((6, 2), 8), ((4, 4), 8), ((4, 4), 12), ((8, 4), 12), ((6, 3), 9), ((8, 4), 16), ((8, 8), 16)];

/// Execute a vector operation; returns `false` if `name` is not one.
#[allow(clippy::too_many_arguments)]
pub fn exec_vec(
    name: &str,
    args: &[crate::prog::Arg],
    vg: &VectorGadget<F>,
    vars: &mut Vec<Var>,
    vecs: &mut Vecs,
    inputs: &mut impl Iterator<Item = F>,
    l: &mut impl Layouter<F>,
) -> Result<bool, Error> {
    use crate::prog::Arg;
    let n = |i: usize| -> usize {
        match &args[i] {
            Arg::N(x) => *x as usize,
            Arg::V(x) => *x,
            _ => panic!("vector op: nat expected"),
        }
    };
    let consts = |i: usize| -> Vec<F> {
        match &args[i] {
            Arg::Cs(c) => c.clone(),
            _ => panic!("vector op: constants expected"),
        }
    };
    match name {
        // vassign M A n : consumes n inputs
        "vassign" => {
            let (m, a, len) = (n(0), n(1), n(2));
            let data: Vec<F> = (0..len).map(|_| inputs.next().expect("not enough inputs")).collect();
            let v = assign_shape(vg, l, m, a, Value::known(data), None)?;
            push_vec(vars, vecs, v);
        }
        // vassignf M A n filler : `assign_with_filler` with an explicit filler value
        "vassignf" => {
            let (m, a, len) = (n(0), n(1), n(2));
            let filler = match &args[3] {
                Arg::C(c) => *c,
                _ => panic!("vassignf: filler expected"),
            };
            let data: Vec<F> = (0..len).map(|_| inputs.next().expect("not enough inputs")).collect();
            let v = assign_shape(vg, l, m, a, Value::known(data), Some(filler))?;
            push_vec(vars, vecs, v);
        }
        // vresize i M A L
        "vresize" => {
            let v = get(vecs, n(0), n(1), n(2)).clone();
            let w = resize(vg, l, &v, n(3))?;
            push_vec(vars, vecs, w);
        }
        // vlimits i M A
        "vlimits" => {
            let v = get(vecs, n(0), n(1), n(2)).clone();
            let (s, e) = on_vec!(&v, x => vg.get_limits(l, x))?;
            vars.push(Var::N(s));
            vars.push(Var::N(e));
        }
        // vpad i M A
        "vpad" => {
            let v = get(vecs, n(0), n(1), n(2)).clone();
            let flags: Vec<AssignedBit<F>> = on_vec!(&v, x => vg.padding_flag(l, x).map(|f| f.to_vec()))?;
            vars.extend(flags.into_iter().map(Var::B));
        }
        // vtrim i M A n
        "vtrim" => {
            let v = get(vecs, n(0), n(1), n(2)).clone();
            let k = n(3);
            let w: VecAny = on_vec!(&v, x => vg.trim_beginning(l, x, k).map(VecAny::from))?;
            push_vec(vars, vecs, w);
        }
        // viseq i j M A / visneq
        "viseq" | "visneq" => {
            let v = get(vecs, n(0), n(2), n(3)).clone();
            let w = get(vecs, n(1), n(2), n(3)).clone();
            let b = if name == "viseq" {
                on_vec2!(&v, &w, x, y => vg.is_equal(l, x, y))?
            } else {
                on_vec2!(&v, &w, x, y => vg.is_not_equal(l, x, y))?
            };
            vars.push(Var::B(b));
        }
        // viseqf i M A consts / visneqf
        "viseqf" | "visneqf" => {
            let v = get(vecs, n(0), n(1), n(2)).clone();
            let c = consts(3);
            let b = if name == "viseqf" {
                on_vec!(&v, x => vg.is_equal_to_fixed(l, x, c.clone()))?
            } else {
                on_vec!(&v, x => vg.is_not_equal_to_fixed(l, x, c.clone()))?
            };
            vars.push(Var::B(b));
        }
        "vaeq" | "vaneq" => {
            let v = get(vecs, n(0), n(2), n(3)).clone();
            let w = get(vecs, n(1), n(2), n(3)).clone();
            if name == "vaeq" {
                on_vec2!(&v, &w, x, y => vg.assert_equal(l, x, y))?
            } else {
                on_vec2!(&v, &w, x, y => vg.assert_not_equal(l, x, y))?
            }
        }
        "vaeqf" | "vaneqf" => {
            let v = get(vecs, n(0), n(1), n(2)).clone();
            let c = consts(3);
            if name == "vaeqf" {
                on_vec!(&v, x => vg.assert_equal_to_fixed(l, x, c.clone()))?
            } else {
                on_vec!(&v, x => vg.assert_not_equal_to_fixed(l, x, c.clone()))?
            }
        }
        _ => return Ok(false),
    }
    Ok(true)
}
