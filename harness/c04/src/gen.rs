//! Generators of programs and inputs: every operation x boundary classes x configurations.
use ff::{Field, PrimeField};
use mzkh::Ctx;
use num_bigint::BigUint;
use rand::Rng;

use crate::{
    prog::{op, Arg, Op, Params},
    run::Case,
    F,
};

pub fn modulus() -> BigUint {
    mzkh::fe_big(&(-F::ONE)) + BigUint::from(1u8)
}

pub fn big_fe(b: &BigUint) -> F {
    mzkh::fe_from_big::<F>(b)
}

/// Boundary field values: 0, 1, -1, 2, 2^k-1, 2^k, (p-1)/2, (p+1)/2, p-2.
pub fn boundary_values() -> Vec<F> {
    let p = modulus();
    let mut v = vec![F::ZERO, F::ONE, -F::ONE, F::from(2), -F::from(2)];
    for k in [1u32, 7, 8, 16, 64, 128, 253, 254] {
        let two_k = BigUint::from(1u8) << k;
        v.push(big_fe(&(&two_k - 1u8)));
        v.push(big_fe(&two_k));
    }
    v.push(big_fe(&((&p - 1u8) / 2u8)));
    v.push(big_fe(&((&p + 1u8) / 2u8)));
    v
}

pub fn rand_fe(rng: &mut impl Rng) -> F {
    F::random(rng)
}

fn p(nr_cols: usize, max_bit_len: usize) -> Params {
    Params { nr_cols, max_bit_len }
}

fn case(kind: &str, params: Params, ops: Vec<Op>, inputs: Vec<F>, first_op: usize) -> Case {
    Case { kind: kind.to_string(), params, ops, inputs, first_op, deterministic: true, variants: vec![] }
}

fn ins(n: usize) -> Vec<Op> {
    (0..n).map(|_| op("in", vec![])).collect()
}

use Arg::*;

/// Single-operation programs on native inputs.
pub fn native_cases(ctx: &Ctx, out: &mut Vec<Case>) {
    let mut rng = ctx.rng("native");
    let bv = boundary_values();
    let d = p(4, 8);
    let pick = |rng: &mut rand_chacha::ChaCha8Rng| -> F {
        if rng.gen_bool(0.6) {
            bv[rng.gen_range(0..bv.len())]
        } else {
            rand_fe(rng)
        }
    };
    let reps = if !ctx.thorough() { 3 } else { 12 };
    for _ in 0..reps {
        let (x, y, z) = (pick(&mut rng), pick(&mut rng), pick(&mut rng));
        let c = pick(&mut rng);
        let k = pick(&mut rng);
        let bin = |name: &'static str| {
            let mut o = ins(2);
            o.push(op(name, vec![V(0), V(1)]));
            o
        };
        for name in ["add", "sub", "mul", "iseq", "isneq"] {
            out.push(case(name, d.clone(), bin(name), vec![x, y], 2));
            out.push(case(name, d.clone(), bin(name), vec![x, x], 2));
        }
        for name in ["neg", "sq", "isz"] {
            let mut o = ins(1);
            o.push(op(name, vec![V(0)]));
            out.push(case(name, d.clone(), o, vec![x], 1));
        }
        for name in ["addc", "mulc", "iseqf", "isneqf"] {
            let mut o = ins(1);
            o.push(op(name, vec![V(0), C(c)]));
            out.push(case(name, d.clone(), o.clone(), vec![x], 1));
            out.push(case(name, d.clone(), o, vec![c], 1));
        }
        {
            let mut o = ins(2);
            o.push(op("mulk", vec![V(0), V(1), C(c)]));
            out.push(case("mulk", d.clone(), o, vec![x, y], 2));
        }
        {
            let mut o = ins(3);
            o.push(op("aam", vec![C(c), V(0), C(k), V(1), C(x), V(2), C(y), C(z)]));
            out.push(case("aam", d.clone(), o, vec![x, y, z], 3));
        }
        if x != F::ZERO {
            let mut o = ins(1);
            o.push(op("inv", vec![V(0)]));
            out.push(case("inv", d.clone(), o, vec![x], 1));
            let mut o = ins(2);
            o.push(op("div", vec![V(1), V(0)]));
            out.push(case("div", d.clone(), o, vec![x, y], 2));
        }
        for v in [x, F::ZERO] {
            let mut o = ins(1);
            o.push(op("inv0", vec![V(0)]));
            out.push(case("inv0", d.clone(), o, vec![v], 1));
        }
        // assertions that hold
        {
            let mut o = ins(2);
            o.push(op("aeq", vec![V(0), V(1)]));
            out.push(case("aeq", d.clone(), o, vec![x, x], 2));
        }
        if x != y {
            let mut o = ins(2);
            o.push(op("aneq", vec![V(0), V(1)]));
            out.push(case("aneq", d.clone(), o, vec![x, y], 2));
        }
        {
            let mut o = ins(1);
            o.push(op("aeqf", vec![V(0), C(x)]));
            out.push(case("aeqf", d.clone(), o, vec![x], 1));
        }
        if x != c {
            let mut o = ins(1);
            o.push(op("aneqf", vec![V(0), C(c)]));
            out.push(case("aneqf", d.clone(), o, vec![x], 1));
        }
        {
            let mut o = ins(1);
            o.push(op("az", vec![V(0)]));
            out.push(case("az", d.clone(), o, vec![F::ZERO], 1));
        }
        if x != F::ZERO {
            let mut o = ins(1);
            o.push(op("anz", vec![V(0)]));
            out.push(case("anz", d.clone(), o, vec![x], 1));
        }
        // select / cond_swap
        for b in [F::ZERO, F::ONE] {
            let mut o = vec![op("inb", vec![]), op("in", vec![]), op("in", vec![])];
            o.push(op("sel", vec![V(0), V(1), V(2)]));
            out.push(case("sel", d.clone(), o, vec![b, x, y], 3));
            let mut o = vec![op("inb", vec![]), op("in", vec![]), op("in", vec![])];
            o.push(op("cswap", vec![V(0), V(1), V(2)]));
            out.push(case("cswap", d.clone(), o, vec![b, x, y], 3));
            let mut o = vec![op("inb", vec![]), op("in", vec![]), op("in", vec![])];
            o.push(op("caeq", vec![V(0), V(1), V(2)]));
            out.push(case("caeq", d.clone(), o, vec![b, if b == F::ONE { y } else { x }, y], 3));
        }
    }
    // linear combinations of every length 0..=13 (chunking by 4), with zero coefficients
    let max_len = if !ctx.thorough() { 10 } else { 40 };
    for len in 0..=max_len {
        let mut o = ins(len);
        let terms: Vec<(F, usize)> = (0..len)
            .map(|i| (if rng.gen_bool(0.15) { F::ZERO } else { pick(&mut rng) }, i))
            .collect();
        let k = if rng.gen_bool(0.3) { F::ZERO } else { pick(&mut rng) };
        o.push(op("lc", vec![Terms(terms), C(k)]));
        let inputs: Vec<F> = (0..len).map(|_| pick(&mut rng)).collect();
        out.push(case("lc", d.clone(), o, inputs, len));
    }
    // add_constants of every length 0..=8 with zero constants mixed in
    for len in 0..=(if !ctx.thorough() { 7 } else { 12 }) {
        let mut o = ins(len);
        let cs: Vec<F> =
            (0..len).map(|_| if rng.gen_bool(0.25) { F::ZERO } else { pick(&mut rng) }).collect();
        o.push(op("addcs", vec![Vs((0..len).collect()), Cs(cs)]));
        let inputs: Vec<F> = (0..len).map(|_| pick(&mut rng)).collect();
        out.push(case("addcs", d.clone(), o, inputs, len));
    }
    // pow
    for n in [0u64, 1, 2, 3, 5, 8, 13, 255] {
        let mut o = ins(1);
        o.push(op("pow", vec![V(0), N(n)]));
        out.push(case("pow", d.clone(), o, vec![pick(&mut rng)], 1));
    }
    // interplay with the constant cache: mul by the cached `one`, fixed values twice
    {
        let o = vec![
            op("in", vec![]),
            op("fix", vec![C(F::ONE)]),
            op("mul", vec![V(0), V(1)]),
            op("mul", vec![V(1), V(0)]),
            op("fix", vec![C(F::ONE)]),
            op("fix", vec![C(F::from(7))]),
            op("mulk", vec![V(0), V(1), C(F::ZERO)]),
        ];
        out.push(case("cache", d.clone(), o, vec![pick(&mut rng)], 1));
    }
}

/// Single-operation programs on bits.
pub fn bit_cases(ctx: &Ctx, out: &mut Vec<Case>) {
    let d = p(4, 8);
    let mut rng = ctx.rng("bits");
    let b = |x: u64| F::from(x);
    for x in 0..2u64 {
        let o = vec![op("inb", vec![]), op("not", vec![V(0)])];
        out.push(case("not", d.clone(), o, vec![b(x)], 1));
        let o = vec![op("inb", vec![]), op("b2n", vec![V(0)])];
        out.push(case("b2n", d.clone(), o, vec![b(x)], 1));
        let o = vec![op("in", vec![]), op("n2b", vec![V(0)])];
        out.push(case("n2b", d.clone(), o, vec![b(x)], 1));
        for c in 0..2u64 {
            for name in ["biseqf", "bisneqf"] {
                let o = vec![op("inb", vec![]), op(name, vec![V(0), N(c)])];
                out.push(case(name, d.clone(), o, vec![b(x)], 1));
            }
            let o = vec![op("inb", vec![]), op("baeqf", vec![V(0), N(x)])];
            out.push(case("baeqf", d.clone(), o, vec![b(x)], 1));
            let o = vec![op("inb", vec![]), op("baneqf", vec![V(0), N(1 - x)])];
            out.push(case("baneqf", d.clone(), o, vec![b(x)], 1));
        }
        for y in 0..2u64 {
            for name in ["biseq", "bisneq"] {
                let o = vec![op("inb", vec![]), op("inb", vec![]), op(name, vec![V(0), V(1)])];
                out.push(case(name, d.clone(), o, vec![b(x), b(y)], 2));
            }
            if x == y {
                let o = vec![op("inb", vec![]), op("inb", vec![]), op("baeq", vec![V(0), V(1)])];
                out.push(case("baeq", d.clone(), o, vec![b(x), b(y)], 2));
            } else {
                let o = vec![op("inb", vec![]), op("inb", vec![]), op("baneq", vec![V(0), V(1)])];
                out.push(case("baneq", d.clone(), o, vec![b(x), b(y)], 2));
            }
            for c in 0..2u64 {
                let o = vec![
                    op("inb", vec![]),
                    op("inb", vec![]),
                    op("inb", vec![]),
                    op("bsel", vec![V(0), V(1), V(2)]),
                ];
                out.push(case("bsel", d.clone(), o, vec![b(c), b(x), b(y)], 3));
                let o = vec![
                    op("inb", vec![]),
                    op("inb", vec![]),
                    op("inb", vec![]),
                    op("bcswap", vec![V(0), V(1), V(2)]),
                ];
                out.push(case("bcswap", d.clone(), o, vec![b(c), b(x), b(y)], 3));
            }
        }
    }
    // and / or / xor on lists of every length 1..=6, all inputs for length <= 3
    let max_len = if !ctx.thorough() { 5 } else { 9 };
    for len in 1..=max_len {
        let combos: Vec<u64> = if len <= 3 {
            (0..(1u64 << len)).collect()
        } else {
            let mut v = vec![0, (1u64 << len) - 1];
            for _ in 0..3 {
                v.push(rng.gen_range(0..(1u64 << len)));
            }
            v
        };
        for m in combos {
            let inputs: Vec<F> = (0..len).map(|i| b((m >> i) & 1)).collect();
            for name in ["and", "or", "xor"] {
                let mut o: Vec<Op> = (0..len).map(|_| op("inb", vec![])).collect();
                o.push(op(name, vec![Vs((0..len).collect())]));
                out.push(case(name, d.clone(), o, inputs.clone(), len));
            }
        }
    }
}

fn rand_below(rng: &mut impl Rng, bound: &BigUint) -> BigUint {
    // uniform enough for testing: 320 random bits reduced
    let mut bytes = [0u8; 40];
    rng.fill(&mut bytes[..]);
    BigUint::from_bytes_le(&bytes) % bound
}

/// A value below `bound` from the boundary set {0, 1, bound-1, bound/2, random}.
fn pick_below(rng: &mut impl Rng, bound: &BigUint) -> BigUint {
    if *bound == BigUint::from(0u8) {
        return BigUint::from(0u8);
    }
    match rng.gen_range(0..6) {
        0 => BigUint::from(0u8),
        1 => BigUint::from(1u8) % bound,
        2 => bound - 1u8,
        3 => bound / 2u8,
        _ => rand_below(rng, bound),
    }
}

fn pow2(k: usize) -> BigUint {
    BigUint::from(1u8) << k
}

fn nd(mut c: Case) -> Case {
    c.deterministic = false;
    c
}

/// Configurations (pow2range columns, max_bit_len).
pub fn configs(ctx: &Ctx) -> Vec<Params> {
    if ctx.thorough() {
        vec![p(4, 8), p(1, 8), p(2, 8), p(3, 8), p(2, 9), p(3, 10), p(4, 12), p(1, 13)]
    } else {
        vec![p(4, 8), p(1, 8), p(2, 9), p(3, 10)]
    }
}

/// pow2range / core decomposition / range checks / comparisons / decompositions.
pub fn decomp_cases(ctx: &Ctx, out: &mut Vec<Case>) {
    let mut rng = ctx.rng("decomp");
    let pm = modulus();
    for d in configs(ctx) {
        let mbl = d.max_bit_len;
        // pow2range assertions on lists of every length
        for len in 0..=(if !ctx.thorough() { 6 } else { 10 }) {
            let n = rng.gen_range(0..=mbl);
            let mut o = ins(len);
            o.push(op("rc", vec![Vs((0..len).collect()), N(n as u64)]));
            let inputs: Vec<F> = (0..len).map(|_| big_fe(&pick_below(&mut rng, &pow2(n)))).collect();
            out.push(case("rc", d.clone(), o, inputs, len));
        }
        // assign_less_than_pow2 / assert_less_than_pow2 for bit lengths 0..=254
        let ks: Vec<usize> = if !ctx.thorough() {
            let mut v: Vec<usize> = vec![0, 1, 2, 7, 8, 9, 15, 16, 17, 31, 32, 33, 63, 64, 65, 127, 128, 253, 254];
            for _ in 0..6 {
                v.push(rng.gen_range(0..255));
            }
            v
        } else if d.nr_cols == 4 && d.max_bit_len == 8 {
            (0..255).collect()
        } else {
            (0..255).step_by(5).collect()
        };
        for &k in &ks {
            let x = big_fe(&pick_below(&mut rng, &pow2(k)));
            out.push(nd(case("altp2", d.clone(), vec![op("altp2", vec![N(k as u64)])], vec![x], 1)));
            let o = vec![op("in", vec![]), op("asltp2", vec![V(0), N(k as u64)])];
            out.push(case("asltp2", d.clone(), o, vec![x], 1));
        }
        // decompose_fixed_limb_size
        let n_dfl = if !ctx.thorough() { 10 } else { 60 };
        for _ in 0..n_dfl {
            let limb = rng.gen_range(1..=(mbl + 6).min(40));
            let top = if rng.gen_bool(0.3) { 254 } else { 70 };
            let bitlen = rng.gen_range(0..=top);
            let x = big_fe(&pick_below(&mut rng, &pow2(bitlen)));
            let o = vec![op("in", vec![]), op("dfl", vec![V(0), N(bitlen as u64), N(limb as u64)])];
            out.push(case("dfl", d.clone(), o, vec![x], 1));
        }
        // assign_many_small and the typed bulk assignments
        for len in 0..=(if !ctx.thorough() { 5 } else { 9 }) {
            // (assign_many_small and the bit / byte batch assignments: `oracles::batch_oracle`, every
            // batch length 0..=9 x 1..4 lookup columns, with the range oracle at every position)
            let inputs: Vec<F> = (0..len).map(|_| rand_fe(&mut rng)).collect();
            out.push(nd(case("inmany", d.clone(), vec![op("inmany", vec![N(len as u64)])], inputs, 1)));
        }
        // assert_lower_than_fixed / assign_lower_than_fixed: powers of two and other bounds
        let n_alf = if !ctx.thorough() { 8 } else { 40 };
        for i in 0..n_alf {
            let bound: BigUint = match i % 5 {
                0 => pow2(rng.gen_range(0..254)),
                1 => pow2(rng.gen_range(1..254)) + 1u8,
                2 => pow2(rng.gen_range(2..254)) - 1u8,
                3 => (&pm + 1u8) / 2u8,
                _ => rand_below(&mut rng, &(&pm >> 1)) + 1u8,
            };
            let x = big_fe(&pick_below(&mut rng, &bound));
            let o = vec![op("in", vec![]), op("alf", vec![V(0), Big(bound.clone())])];
            out.push(case("alf", d.clone(), o, vec![x], 1));
            out.push(nd(case("inlf", d.clone(), vec![op("inlf", vec![Big(bound.clone())])], vec![x], 1)));
            // a second, weaker assertion on the same cell is answered from the bound cache
            let o = vec![
                op("in", vec![]),
                op("alf", vec![V(0), Big(bound.clone())]),
                op("alf", vec![V(0), Big(&bound + 5u8)]),
            ];
            out.push(case("alf2", d.clone(), o, vec![x], 1));
        }
        // comparisons of bounded values: equal, adjacent, extreme operands
        let n_cmp = if !ctx.thorough() { 6 } else { 30 };
        for i in 0..n_cmp {
            let (bx, by) = match i % 3 {
                0 => (8usize, 8usize),
                1 => (rng.gen_range(1..=253), rng.gen_range(1..=253)),
                _ => (253, 253),
            };
            let xb = pick_below(&mut rng, &pow2(bx));
            let yb = match rng.gen_range(0..5) {
                0 => xb.clone() % pow2(by),
                1 => (&xb + 1u8) % pow2(by),
                2 => if xb > BigUint::from(0u8) { (&xb - 1u8) % pow2(by) } else { BigUint::from(0u8) },
                _ => pick_below(&mut rng, &pow2(by)),
            };
            for name in ["lt", "leq", "geq", "gt"] {
                let o = vec![
                    op("in", vec![]),
                    op("in", vec![]),
                    op("bnd", vec![V(0), N(bx as u64)]),
                    op("bnd", vec![V(1), N(by as u64)]),
                    op(name, vec![V(2), V(3)]),
                ];
                out.push(case(name, d.clone(), o, vec![big_fe(&xb), big_fe(&yb)], 4));
            }
            let cb = match rng.gen_range(0..4) {
                0 => xb.clone(),
                1 => &xb + 1u8,
                2 => pow2(bx) + 3u8,
                _ => pick_below(&mut rng, &pow2(bx.min(250))),
            };
            for name in ["ltf", "leqf", "geqf", "gtf"] {
                let o = vec![
                    op("in", vec![]),
                    op("bnd", vec![V(0), N(bx as u64)]),
                    op(name, vec![V(1), C(big_fe(&cb))]),
                ];
                out.push(case(name, d.clone(), o, vec![big_fe(&xb)], 2));
            }
        }
        // bit / byte / chunk decompositions, sgn0, recompositions
        let n_dec = if !ctx.thorough() { 3 } else { 12 };
        for i in 0..n_dec {
            let x = match i % 4 {
                0 => rand_fe(&mut rng),
                1 => -F::ONE,
                2 => F::ZERO,
                _ => big_fe(&((&pm - 1u8) / 2u8)),
            };
            // canonical full-width bits / bytes
            let o = vec![op("in", vec![]), op("bits", vec![V(0), OptN(None), N(1)])];
            out.push(case("bits_canon", d.clone(), o, vec![x], 1));
            let o = vec![op("in", vec![]), op("bytes", vec![V(0), OptN(None)])];
            out.push(case("bytes_full", d.clone(), o, vec![x], 1));
            let o = vec![op("in", vec![]), op("sgn0", vec![V(0)])];
            out.push(case("sgn0", d.clone(), o, vec![x], 1));
            // non-canonical full width: two representations may exist (documented)
            let o = vec![op("in", vec![]), op("bits", vec![V(0), OptN(None), N(0)])];
            out.push(nd(case("bits_noncanon", d.clone(), o, vec![x], 1)));
            // short decompositions
            let nb = rng.gen_range(0..=64usize);
            let xs = big_fe(&pick_below(&mut rng, &pow2(nb)));
            let o = vec![op("in", vec![]), op("bits", vec![V(0), OptN(Some(nb as u64)), N(rng.gen_range(0..2))])];
            out.push(case("bits", d.clone(), o, vec![xs], 1));
            let nby = rng.gen_range(0..=31usize);
            let xs = big_fe(&pick_below(&mut rng, &pow2(8 * nby)));
            let o = vec![op("in", vec![]), op("bytes", vec![V(0), OptN(Some(nby as u64))])];
            out.push(case("bytes", d.clone(), o, vec![xs], 1));
            let per = rng.gen_range(1..=40usize);
            let nch = rng.gen_range(0..=(200 / per));
            let xs = big_fe(&pick_below(&mut rng, &pow2(per * nch)));
            let o = vec![op("in", vec![]), op("chunks", vec![V(0), N(per as u64), OptN(Some(nch as u64))])];
            out.push(case("chunks", d.clone(), o, vec![xs], 1));
            // recomposition
            let nbits = rng.gen_range(0..=20usize);
            let mut o: Vec<Op> = (0..nbits).map(|_| op("inb", vec![])).collect();
            o.push(op("frombits", vec![Vs((0..nbits).collect())]));
            let inputs: Vec<F> = (0..nbits).map(|_| F::from(rng.gen_range(0..2u64))).collect();
            out.push(case("frombits", d.clone(), o, inputs, nbits));
            let nbytes = rng.gen_range(0..=9usize);
            let mut o: Vec<Op> = (0..nbytes).map(|_| op("iny", vec![])).collect();
            o.push(op("frombytes", vec![Vs((0..nbytes).collect())]));
            let inputs: Vec<F> = (0..nbytes).map(|_| F::from(rng.gen_range(0..256u64))).collect();
            out.push(case("frombytes", d.clone(), o, inputs, nbytes));
            // big-endian variants (decomposition.rs defaults)
            let nb = rng.gen_range(0..=40usize);
            let xs = big_fe(&pick_below(&mut rng, &pow2(nb)));
            let o = vec![op("in", vec![]), op("bebits", vec![V(0), OptN(Some(nb as u64)), N(rng.gen_range(0..2))])];
            out.push(case("bebits", d.clone(), o, vec![xs], 1));
            let nby = rng.gen_range(0..=12usize);
            let xs = big_fe(&pick_below(&mut rng, &pow2(8 * nby)));
            let o = vec![op("in", vec![]), op("bebytes", vec![V(0), OptN(Some(nby as u64))])];
            out.push(case("bebytes", d.clone(), o, vec![xs], 1));
            let nbits = rng.gen_range(0..=20usize);
            let mut o: Vec<Op> = (0..nbits).map(|_| op("inb", vec![])).collect();
            o.push(op("frombebits", vec![Vs((0..nbits).collect())]));
            let inputs: Vec<F> = (0..nbits).map(|_| F::from(rng.gen_range(0..2u64))).collect();
            out.push(case("frombebits", d.clone(), o, inputs, nbits));
            let nbytes = rng.gen_range(0..=9usize);
            let mut o: Vec<Op> = (0..nbytes).map(|_| op("iny", vec![])).collect();
            o.push(op("frombebytes", vec![Vs((0..nbytes).collect())]));
            let inputs: Vec<F> = (0..nbytes).map(|_| F::from(rng.gen_range(0..256u64))).collect();
            out.push(case("frombebytes", d.clone(), o, inputs, nbytes));
            // conversions
            let o = vec![op("in", vec![]), op("n2y", vec![V(0)]), op("y2n", vec![V(1)]), op("n2y", vec![V(2)])];
            out.push(case("n2y", d.clone(), o, vec![F::from(rng.gen_range(0..256u64))], 1));
            let o = vec![op("in", vec![]), op("n2b", vec![V(0)]), op("b2n", vec![V(1)]), op("n2b", vec![V(2)])];
            out.push(case("n2b2", d.clone(), o, vec![F::from(rng.gen_range(0..2u64))], 1));
        }
        // canonicity tests on bit strings
        let n_can = if !ctx.thorough() { 4 } else { 16 };
        for _ in 0..n_can {
            let len = rng.gen_range(1..=12usize);
            let v = rng.gen_range(0..(1u64 << len));
            let bound = match rng.gen_range(0..4) {
                0 => v,
                1 => v + 1,
                2 => 0,
                _ => rng.gen_range(0..(1u64 << (len + 1))),
            };
            let inputs: Vec<F> = (0..len).map(|i| F::from((v >> i) & 1)).collect();
            for name in ["geqbits", "ltbits"] {
                let mut o: Vec<Op> = (0..len).map(|_| op("inb", vec![])).collect();
                o.push(op(name, vec![Vs((0..len).collect()), Big(BigUint::from(bound))]));
                out.push(case(name, d.clone(), o, inputs.clone(), len));
            }
        }
        // div_rem with a declared dividend bound
        let n_div = if !ctx.thorough() { 4 } else { 16 };
        for _ in 0..n_div {
            let bbits = rng.gen_range(2..=200usize);
            let bound = pow2(bbits) - 1u8;
            let dbits = rng.gen_range(1..bbits);
            let dv = rand_below(&mut rng, &pow2(dbits)) + 1u8;
            let x = pick_below(&mut rng, &(&bound + 1u8));
            let o = vec![op("in", vec![]), op("divrem", vec![V(0), Big(dv), OptBig(Some(bound))])];
            out.push(case("divrem", d.clone(), o, vec![big_fe(&x)], 1));
        }
    }
    // full-width canonicity of 255-bit strings (is_canonical), default configuration only
    {
        let d = p(4, 8);
        for v in [BigUint::from(0u8), &pm - 1u8, pm.clone(), &pm + 1u8, pow2(255) - 1u8] {
            let inputs: Vec<F> = (0..255).map(|i| F::from(v.bit(i) as u64)).collect();
            let mut o: Vec<Op> = vec![op("inbmany", vec![N(255)])];
            o.push(op("iscanon", vec![Vs((0..255).collect())]));
            out.push(case("iscanon", d.clone(), o, inputs, 1));
        }
    }
}

/// `VectorGadget`: every supported shape x every length 0..=M (all alignments of the payload),
/// limits / padding flags / trim / resize / equality.
pub fn vector_cases(ctx: &Ctx, out: &mut Vec<Case>) {
    let mut rng = ctx.rng("vector");
    let d = p(4, 8);
    let shapes: Vec<(usize, usize)> = crate::oracles::vector_shapes(ctx);
    let nz = |rng: &mut rand_chacha::ChaCha8Rng| -> F { F::from(rng.gen_range(1..1000u64)) };
    for &(m, a) in &shapes {
        for len in 0..=m {
            let data: Vec<F> = (0..len).map(|_| nz(&mut rng)).collect();
            let va = op("vassign", vec![N(m as u64), N(a as u64), N(len as u64)]);
            // assign alone (range check of the length), default and explicit non-zero filler
            out.push(nd(case("vassign", d.clone(), vec![va.clone()], data.clone(), 0)));
            {
                let f = nz(&mut rng);
                let vf = op("vassignf", vec![N(m as u64), N(a as u64), N(len as u64), C(f)]);
                let o = vec![vf.clone(), op("vpad", vec![V(0), N(m as u64), N(a as u64)])];
                out.push(case("vassignf", d.clone(), o, data.clone(), 1));
                let k = len / 2;
                let o = vec![vf, op("vtrim", vec![V(0), N(m as u64), N(a as u64), N(k as u64)])];
                out.push(case("vtrimf", d.clone(), o, data.clone(), 1));
            }
            // limits
            let o = vec![va.clone(), op("vlimits", vec![V(0), N(m as u64), N(a as u64)])];
            out.push(case("vlimits", d.clone(), o, data.clone(), 1));
            // padding flags
            let o = vec![va.clone(), op("vpad", vec![V(0), N(m as u64), N(a as u64)])];
            out.push(case("vpad", d.clone(), o, data.clone(), 1));
            // trim: every admissible number of elements (quick: a few)
            let trims: Vec<usize> = if ctx.thorough() || m <= 4 {
                (0..=len).collect()
            } else {
                let mut t = vec![0, len, len / 2, len.saturating_sub(1), 1.min(len), a.min(len)];
                t.sort();
                t.dedup();
                t
            };
            for k in trims {
                let o = vec![va.clone(), op("vtrim", vec![V(0), N(m as u64), N(a as u64), N(k as u64)])];
                out.push(case("vtrim", d.clone(), o, data.clone(), 1));
            }
            // equality with a second vector: same data / one element changed / other length
            let second = |rng: &mut rand_chacha::ChaCha8Rng, kind: usize| -> Vec<F> {
                match kind {
                    0 => data.clone(),
                    1 => {
                        let mut x = data.clone();
                        if !x.is_empty() {
                            let i = rng.gen_range(0..x.len());
                            x[i] += F::ONE;
                        }
                        x
                    }
                    _ => {
                        let l2 = if len == m { len - 1 } else { len + 1 };
                        (0..l2).map(|i| data.get(i).copied().unwrap_or_else(|| F::from(7u64))).collect()
                    }
                }
            };
            for kind in 0..3 {
                if m > 8 && !ctx.thorough() && kind != (len % 3) {
                    continue;
                }
                let d2 = second(&mut rng, kind);
                let vb = op("vassign", vec![N(m as u64), N(a as u64), N(d2.len() as u64)]);
                let mut inputs = data.clone();
                inputs.extend(d2.iter().copied());
                for name in ["viseq", "visneq"] {
                    let o = vec![
                        va.clone(),
                        vb.clone(),
                        op(name, vec![V(0), V(m + 1), N(m as u64), N(a as u64)]),
                    ];
                    out.push(case(name, d.clone(), o, inputs.clone(), 2));
                }
                let equal = d2 == data;
                let o = vec![
                    va.clone(),
                    vb.clone(),
                    op(if equal { "vaeq" } else { "vaneq" }, vec![V(0), V(m + 1), N(m as u64), N(a as u64)]),
                ];
                out.push(case(if equal { "vaeq" } else { "vaneq" }, d.clone(), o, inputs.clone(), 2));
                // against a constant
                for name in ["viseqf", "visneqf"] {
                    let o = vec![va.clone(), op(name, vec![V(0), N(m as u64), N(a as u64), Cs(d2.clone())])];
                    out.push(case(name, d.clone(), o, data.clone(), 1));
                }
                let o = vec![
                    va.clone(),
                    op(if equal { "vaeqf" } else { "vaneqf" }, vec![V(0), N(m as u64), N(a as u64), Cs(d2.clone())]),
                ];
                out.push(case(if equal { "vaeqf" } else { "vaneqf" }, d.clone(), o, data.clone(), 1));
            }
        }
    }
    // resize followed by limits / padding on the larger vector
    for &((m, a), l) in crate::vecops::RESIZES {
        if !ctx.thorough() && !matches!((m, l), (4, 5) | (4, 8) | (8, 16)) {
            continue;
        }
        for len in [0, 1, a, m - 1, m] {
            let len = len.min(m);
            let data: Vec<F> = (0..len).map(|_| nz(&mut rng)).collect();
            let o = vec![
                op("vassign", vec![N(m as u64), N(a as u64), N(len as u64)]),
                op("vresize", vec![V(0), N(m as u64), N(a as u64), N(l as u64)]),
                op("vlimits", vec![V(m + 1), N(l as u64), N(a as u64)]),
                op("vpad", vec![V(m + 1), N(l as u64), N(a as u64)]),
            ];
            out.push(nd(case("vresize", d.clone(), o, data, 1)));
        }
    }
}

/// A writer of the bound cache of `NativeGadget` (`update_bound` call sites): the program
/// prefix, the variable holding the cell, the strict bound the model believes is recorded for it
/// (`cached = false`: the value is range-checked to `bound` but nothing is recorded), and the
/// inputs that give the cell a chosen value.
struct Writer {
    name: String,
    ops: Vec<Op>,
    var: usize,
    nvars: usize,
    bound: BigUint,
    inputs: Box<dyn Fn(&BigUint) -> Vec<F>>,
}

fn writers(rng: &mut impl Rng, quick: bool) -> Vec<Writer> {
    let one = |v: &BigUint| vec![big_fe(v)];
    let mut w: Vec<Writer> = vec![];
    // byte -> native, bit -> native (native_gadget.rs: ConversionInstructions<AssignedByte/AssignedBit, AssignedNative>)
    w.push(Writer {
        name: "y2n".into(),
        ops: vec![op("iny", vec![]), op("y2n", vec![V(0)])],
        var: 1,
        nvars: 2,
        bound: BigUint::from(256u32),
        inputs: Box::new(one),
    });
    w.push(Writer {
        name: "b2n".into(),
        ops: vec![op("inb", vec![]), op("b2n", vec![V(0)])],
        var: 1,
        nvars: 2,
        bound: BigUint::from(2u32),
        inputs: Box::new(one),
    });
    // native -> byte / bit (bound recorded on the input cell)
    w.push(Writer {
        name: "n2y".into(),
        ops: vec![op("in", vec![]), op("n2y", vec![V(0)])],
        var: 0,
        nvars: 2,
        bound: BigUint::from(256u32),
        inputs: Box::new(one),
    });
    // ... and propagated to the fresh byte cell by the gadget's assert_equal
    w.push(Writer {
        name: "n2y-y2n".into(),
        ops: vec![op("in", vec![]), op("n2y", vec![V(0)]), op("y2n", vec![V(1)])],
        var: 2,
        nvars: 3,
        bound: BigUint::from(256u32),
        inputs: Box::new(one),
    });
    w.push(Writer {
        name: "n2b".into(),
        ops: vec![op("in", vec![]), op("n2b", vec![V(0)])],
        var: 0,
        nvars: 2,
        bound: BigUint::from(2u32),
        inputs: Box::new(one),
    });
    // assert_lower_than_fixed / assign_lower_than_fixed / bounded_of_element / bnot
    let mut alf_bounds: Vec<BigUint> = vec![
        BigUint::from(1u8),
        BigUint::from(2u8),
        BigUint::from(3u8),
        BigUint::from(255u8),
        BigUint::from(256u32),
        BigUint::from(257u32),
        pow2(64) - 1u8,
        pow2(64),
        pow2(64) + 1u8,
    ];
    alf_bounds.push(rand_below(rng, &pow2(40)) + 2u8);
    if quick {
        alf_bounds = vec![
            BigUint::from(3u8),
            BigUint::from(255u8),
            BigUint::from(256u32),
            pow2(64) + 1u8,
            rand_below(rng, &pow2(40)) + 2u8,
        ];
    }
    for b in &alf_bounds {
        w.push(Writer {
            name: "alf".into(),
            ops: vec![op("in", vec![]), op("alf", vec![V(0), Big(b.clone())])],
            var: 0,
            nvars: 1,
            bound: b.clone(),
            inputs: Box::new(one),
        });
    }
    for b in [BigUint::from(200u8), BigUint::from(256u32), pow2(16) + 1u8] {
        w.push(Writer {
            name: "inlf".into(),
            ops: vec![op("inlf", vec![Big(b.clone())])],
            var: 0,
            nvars: 1,
            bound: b.clone(),
            inputs: Box::new(one),
        });
    }
    for n in [1u64, 8, 9] {
        w.push(Writer {
            name: "bnd".into(),
            ops: vec![op("in", vec![]), op("bnd", vec![V(0), N(n)])],
            var: 0,
            nvars: 2,
            bound: pow2(n as usize),
            inputs: Box::new(one),
        });
    }
    w.push(Writer {
        name: "bnot".into(),
        ops: vec![op("in", vec![]), op("bnot", vec![V(0), N(8)])],
        var: 0,
        nvars: 2,
        bound: pow2(8),
        inputs: Box::new(one),
    });
    // propagation through the gadget's assert_equal
    for b in [BigUint::from(255u8), BigUint::from(300u32)] {
        w.push(Writer {
            name: "aeq".into(),
            ops: vec![
                op("in", vec![]),
                op("alf", vec![V(0), Big(b.clone())]),
                op("in", vec![]),
                op("aeq", vec![V(0), V(1)]),
            ],
            var: 1,
            nvars: 2,
            bound: b.clone(),
            inputs: Box::new(|v: &BigUint| vec![big_fe(v), big_fe(v)]),
        });
    }
    // the result bit of a comparison, seen as a native value (convert bit -> native inside
    // lower_than_fixed / lower_than)
    w.push(Writer {
        name: "ltf-bit".into(),
        ops: vec![
            op("in", vec![]),
            op("bnd", vec![V(0), N(8)]),
            op("ltf", vec![V(1), C(F::from(100u64))]),
            op("b2n", vec![V(2)]),
        ],
        var: 3,
        nvars: 4,
        bound: BigUint::from(2u8),
        inputs: Box::new(|v: &BigUint| vec![if *v == BigUint::from(1u8) { F::from(0u64) } else { F::from(100u64) }]),
    });
    // remainder / quotient of div_rem (assign_lower_than_fixed with a non-power-of-two bound)
    w.push(Writer {
        name: "divrem-r".into(),
        ops: vec![op("in", vec![]), op("divrem", vec![V(0), Big(BigUint::from(7u8)), OptBig(Some(BigUint::from(1000u32)))])],
        var: 2,
        nvars: 3,
        bound: BigUint::from(7u8),
        inputs: Box::new(one),
    });
    w
}

/// Bounds to try against a cell whose recorded strict bound is `b`: b-1, b, b+1 and the powers of
/// two around it (and their neighbours).
fn around(b: &BigUint) -> Vec<BigUint> {
    let mut c: Vec<BigUint> = vec![b + 1u8, b.clone()];
    if *b > BigUint::from(1u8) {
        c.push(b - 1u8);
    }
    let k = (b.bits() as usize).saturating_sub(1);
    for kk in [k, k + 1] {
        c.push(pow2(kk));
        c.push(pow2(kk) + 1u8);
        if kk > 0 {
            c.push(pow2(kk) - 1u8);
        }
    }
    c.retain(|x| *x >= BigUint::from(1u8));
    c.sort();
    c.dedup();
    c
}

/// Every reader of the bound cache right after every writer, with the bound argument around the
/// recorded bound; honest witnesses on both sides of every asserted bound are checked by the range
/// oracle (`run::range_oracle`) through the real MockProver.
pub fn bound_cache_cases(ctx: &Ctx, out: &mut Vec<Case>) {
    let mut rng = ctx.rng("boundcache");
    let quick = !ctx.thorough();
    let cfgs: Vec<Params> = if !ctx.thorough() { vec![p(4, 8), p(2, 9)] } else { vec![p(4, 8), p(1, 8), p(2, 9), p(3, 10)] };
    for (ci, d) in cfgs.into_iter().enumerate() {
        for w in writers(&mut rng, quick) {
            // configurations after the first: only the byte / bit conversions and one writer of
            // each other kind
            if ci > 0 && !["y2n", "b2n", "n2y", "bnd", "inlf"].contains(&w.name.as_str()) {
                continue;
            }
            let b = w.bound.clone();
            let x = w.var;
            let nv = w.nvars;
            let mut cs = around(&b);
            if !ctx.thorough() && cs.len() > 5 {
                // always b-1, b, b+1; two of the others
                let keep: Vec<BigUint> = vec![&b + 1u8, b.clone(), if b > BigUint::from(1u8) { &b - 1u8 } else { b.clone() }];
                let mut rest: Vec<BigUint> = cs.iter().filter(|c| !keep.contains(c)).cloned().collect();
                while rest.len() > 2 {
                    let i = rng.gen_range(0..rest.len());
                    rest.remove(i);
                }
                cs = keep;
                cs.extend(rest);
                cs.sort();
                cs.dedup();
            }
            let values = |c: &BigUint| -> Vec<BigUint> {
                // admissible for the writer (below b), on both sides of c
                let mut v: Vec<BigUint> = vec![BigUint::from(0u8), &b - 1u8];
                if *c >= BigUint::from(1u8) {
                    v.push(c - 1u8);
                }
                v.push(c.clone());
                v.retain(|z| *z < b);
                v.sort();
                v.dedup();
                v
            };
            let mk = |kind: &str, tail: Vec<Op>, c: &BigUint, out: &mut Vec<Case>| {
                let mut ops = w.ops.clone();
                // every `in` of the tail receives the value of the cell under test
                let extra = tail.iter().filter(|o| o.name == "in").count();
                let with_extra = |v: &BigUint| -> Vec<F> {
                    let mut i = (w.inputs)(v);
                    i.extend((0..extra).map(|_| big_fe(v)));
                    i
                };
                ops.extend(tail);
                let vs = values(c);
                // main input: the largest admissible value below c (in range for both), else 0
                let main = vs.iter().filter(|z| **z < *c).max().cloned().unwrap_or_else(|| BigUint::from(0u8));
                let mut cs = case(&format!("bc:{}:{kind}", w.name), d.clone(), ops, with_extra(&main), w.ops.len());
                cs.variants = vs.iter().filter(|z| **z != main).map(|z| with_extra(z)).collect();
                out.push(cs);
            };
            // the writer alone, with honest witnesses on both sides of ITS bound (plain negative
            // range tests: a value equal to or above the bound must be rejected)
            {
                let vs: Vec<BigUint> = vec![&b - 1u8, b.clone(), &b + 1u8, BigUint::from(0u8)];
                // (inputs are prover-chosen: nothing here is "under test" for the fault injector)
                let mut cs0 = nd(case(&format!("bc:{}:self", w.name), d.clone(), w.ops.clone(), (w.inputs)(&vs[0]), w.ops.len()));
                cs0.variants = vs[1..].iter().filter(|z| **z != vs[0]).map(|z| (w.inputs)(z)).collect();
                out.push(cs0);
            }
            for c in &cs {
                // assert_lower_than_fixed
                mk("alf", vec![op("alf", vec![V(x), Big(c.clone())])], c, out);
                // propagation, then the reader on the other cell
                mk(
                    "aeq-alf",
                    vec![op("in", vec![]), op("aeq", vec![V(x), V(nv)]), op("alf", vec![V(nv), Big(c.clone())])],
                    c,
                    out,
                );
                // fixed comparisons on the bounded view of the cell (the bound in bits is large
                // enough for every admissible value; lower_than_fixed needs c < 2^253)
                let nb = (b.bits().max(c.bits()) + 1).min(253);
                if c.bits() < 250 {
                    let cf = big_fe(c);
                    let cm1 = big_fe(&(c - 1u8));
                    for (name, k) in [("ltf", cf), ("geqf", cf), ("leqf", cm1), ("gtf", cm1)] {
                        mk(
                            name,
                            vec![op("bnd", vec![V(x), N(nb)]), op(name, vec![V(nv), C(k)])],
                            c,
                            out,
                        );
                    }
                }
            }
            // bounded_of_element / bnot with the powers of two around b
            let k = (b.bits() as usize).saturating_sub(1);
            for n in [k.saturating_sub(1), k, k + 1] {
                mk("bnd", vec![op("bnd", vec![V(x), N(n as u64)])], &pow2(n), out);
                mk("bnot", vec![op("bnot", vec![V(x), N(n as u64)])], &pow2(n), out);
            }
            // re-conversions native -> byte / bit
            mk("n2y", vec![op("n2y", vec![V(x)])], &BigUint::from(256u32), out);
            mk("n2b", vec![op("n2b", vec![V(x)])], &BigUint::from(2u8), out);
            // div_rem of the cell (propagates the bound of the dividend to the recomposed sum)
            mk(
                "divrem",
                vec![op("divrem", vec![V(x), Big(BigUint::from(5u8)), OptBig(Some(&b + 10u8))])],
                &b,
                out,
            );
        }
    }
}

/// Bitwise word instructions and byte-typed assertions / equality tests.
pub fn bitwise_byte_cases(ctx: &Ctx, out: &mut Vec<Case>) {
    let mut rng = ctx.rng("bitwise");
    for d in configs(ctx) {
        let reps = if !ctx.thorough() { 2 } else { 8 };
        for i in 0..reps {
            let n = match i % 4 {
                0 => 8usize,
                1 => rng.gen_range(1..=16),
                2 => rng.gen_range(17..=64),
                _ => 1,
            };
            let x = pick_below(&mut rng, &pow2(n));
            let y = pick_below(&mut rng, &pow2(n));
            for name in ["band", "bor", "bxor"] {
                let o = vec![op("in", vec![]), op("in", vec![]), op(name, vec![V(0), V(1), N(n as u64)])];
                out.push(case(name, d.clone(), o, vec![big_fe(&x), big_fe(&y)], 2));
            }
            let o = vec![op("in", vec![]), op("bnot", vec![V(0), N(n as u64)])];
            out.push(case("bnot", d.clone(), o, vec![big_fe(&x)], 1));
            // rem with a declared bound
            let dv = rand_below(&mut rng, &pow2(n)) + 2u8;
            let bound = pow2(n + 8);
            let xv = pick_below(&mut rng, &bound);
            let o = vec![op("in", vec![]), op("rem", vec![V(0), Big(dv), OptBig(Some(bound))])];
            out.push(case("rem", d.clone(), o, vec![big_fe(&xv)], 1));
        }
        for i in 0..reps {
            let a = rng.gen_range(0..256u64);
            let b = if i % 2 == 0 { a } else { rng.gen_range(0..256u64) };
            let c = if i % 3 == 0 { a } else { rng.gen_range(0..256u64) };
            for name in ["yiseq", "yisneq"] {
                let o = vec![op("iny", vec![]), op("iny", vec![]), op(name, vec![V(0), V(1)])];
                out.push(case(name, d.clone(), o, vec![F::from(a), F::from(b)], 2));
            }
            for name in ["yiseqf", "yisneqf"] {
                let o = vec![op("iny", vec![]), op(name, vec![V(0), N(c)])];
                out.push(case(name, d.clone(), o, vec![F::from(a)], 1));
            }
            let o = vec![op("iny", vec![]), op("iny", vec![]), op(if a == b { "yaeq" } else { "yaneq" }, vec![V(0), V(1)])];
            out.push(case(if a == b { "yaeq" } else { "yaneq" }, d.clone(), o, vec![F::from(a), F::from(b)], 2));
            let o = vec![op("iny", vec![]), op(if a == c { "yaeqf" } else { "yaneqf" }, vec![V(0), N(c)])];
            out.push(case(if a == c { "yaeqf" } else { "yaneqf" }, d.clone(), o, vec![F::from(a)], 1));
            let o = vec![op("inb", vec![]), op("iny", vec![]), op("iny", vec![]), op("ysel", vec![V(0), V(1), V(2)])];
            out.push(case("ysel", d.clone(), o, vec![F::from(i as u64 % 2), F::from(a), F::from(b)], 3));
        }
    }
}

/// `MapGadget` with the harness's hash chip: structure and values of `init` / `get` / `insert`
/// for empty and small maps, present and absent keys, a key inserted twice.
pub fn map_cases(ctx: &Ctx, out: &mut Vec<Case>) {
    let mut rng = ctx.rng("map");
    let d = p(4, 8);
    let reps = if ctx.thorough() { 4 } else { 1 };
    for rep in 0..reps {
        let n = if rep == 0 { 2 } else { rng.gen_range(0..5usize) };
        let pairs: Vec<(F, F)> = (0..n).map(|_| (F::from(rng.gen_range(1..1000u64)), rand_fe(&mut rng))).collect();
        let absent = F::from(rng.gen_range(1000..2000u64));
        let mut keys = vec![absent];
        if let Some((k, _)) = pairs.last() {
            keys.push(*k);
        }
        for key in keys {
            let o = vec![op("minit", vec![Pairs(pairs.clone())]), op("in", vec![]), op("mget", vec![V(1)])];
            out.push(nd(case("map:get", d.clone(), o, vec![key], 2)));
        }
        // insert (new key / existing key), then read it back
        let key = if rep % 2 == 0 { absent } else { pairs.first().map(|x| x.0).unwrap_or(absent) };
        let o = vec![
            op("minit", vec![Pairs(pairs.clone())]),
            op("in", vec![]),
            op("in", vec![]),
            op("minsert", vec![V(1), V(2)]),
            op("mget", vec![V(1)]),
        ];
        out.push(nd(case("map:insert", d.clone(), o, vec![key, rand_fe(&mut rng)], 3)));
    }
    // the empty map
    let o = vec![op("minit", vec![Pairs(vec![])]), op("in", vec![]), op("mget", vec![V(1)])];
    out.push(nd(case("map:get", d.clone(), o, vec![F::from(5u64)], 2)));
}

pub fn cases(ctx: &Ctx) -> Vec<Case> {
    let mut out = vec![];
    // development aid (never set by bin/check): H_C04_PART=new runs only the vector / map groups
    if std::env::var("H_C04_PART").as_deref() == Ok("new") {
        vector_cases(ctx, &mut out);
        map_cases(ctx, &mut out);
        return out;
    }
    bound_cache_cases(ctx, &mut out);
    bitwise_byte_cases(ctx, &mut out);
    native_cases(ctx, &mut out);
    bit_cases(ctx, &mut out);
    decomp_cases(ctx, &mut out);
    vector_cases(ctx, &mut out);
    map_cases(ctx, &mut out);
    let _ = F::NUM_BITS;
    out
}
