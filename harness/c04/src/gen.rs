//! Generators of programs and inputs: every operation x boundary classes x configurations.
use ff::{Field, PrimeField};
use mzkh::Ctx;
use num_bigint::BigUint;
use rand::Rng;

use crate::{
    prog::{op, Arg, Op, Params},
    run::Case,
    F,
};

pub fn modulus() -> BigUint {
    mzkh::fe_big(&(-F::ONE)) + BigUint::from(1u8)
}

pub fn big_fe(b: &BigUint) -> F {
    mzkh::fe_from_big::<F>(b)
}

/// Boundary field values: 0, 1, -1, 2, 2^k-1, 2^k, (p-1)/2, (p+1)/2, p-2.
pub fn boundary_values() -> Vec<F> {
    let p = modulus();
    let mut v = vec![F::ZERO, F::ONE, -F::ONE, F::from(2), -F::from(2)];
    for k in [1u32, 7, 8, 16, 64, 128, 253, 254] {
        let two_k = BigUint::from(1u8) << k;
        v.push(big_fe(&(&two_k - 1u8)));
        v.push(big_fe(&two_k));
    }
    v.push(big_fe(&((&p - 1u8) / 2u8)));
    v.push(big_fe(&((&p + 1u8) / 2u8)));
    v
}

pub fn rand_fe(rng: &mut impl Rng) -> F {
    F::random(rng)
}

fn p(nr_cols: usize, max_bit_len: usize) -> Params {
    Params { nr_cols, max_bit_len }
}

fn case(kind: &str, params: Params, ops: Vec<Op>, inputs: Vec<F>, first_op: usize) -> Case {
    Case { kind: kind.to_string(), params, ops, inputs, first_op, deterministic: true }
}

fn ins(n: usize) -> Vec<Op> {
    (0..n).map(|_| op("in", vec![])).collect()
}

use Arg::*;

/// Single-operation programs on native inputs.
pub fn native_cases(ctx: &Ctx, out: &mut Vec<Case>) {
    let mut rng = ctx.rng("native");
    let bv = boundary_values();
    let d = p(4, 8);
    let pick = |rng: &mut rand_chacha::ChaCha8Rng| -> F {
        if rng.gen_bool(0.6) {
            bv[rng.gen_range(0..bv.len())]
        } else {
            rand_fe(rng)
        }
    };
    let reps = if ctx.quick() { 3 } else { 12 };
    for _ in 0..reps {
        let (x, y, z) = (pick(&mut rng), pick(&mut rng), pick(&mut rng));
        let c = pick(&mut rng);
        let k = pick(&mut rng);
        let bin = |name: &'static str| {
            let mut o = ins(2);
            o.push(op(name, vec![V(0), V(1)]));
            o
        };
        for name in ["add", "sub", "mul", "iseq", "isneq"] {
            out.push(case(name, d.clone(), bin(name), vec![x, y], 2));
            out.push(case(name, d.clone(), bin(name), vec![x, x], 2));
        }
        for name in ["neg", "sq", "isz"] {
            let mut o = ins(1);
            o.push(op(name, vec![V(0)]));
            out.push(case(name, d.clone(), o, vec![x], 1));
        }
        for name in ["addc", "mulc", "iseqf", "isneqf"] {
            let mut o = ins(1);
            o.push(op(name, vec![V(0), C(c)]));
            out.push(case(name, d.clone(), o.clone(), vec![x], 1));
            out.push(case(name, d.clone(), o, vec![c], 1));
        }
        {
            let mut o = ins(2);
            o.push(op("mulk", vec![V(0), V(1), C(c)]));
            out.push(case("mulk", d.clone(), o, vec![x, y], 2));
        }
        {
            let mut o = ins(3);
            o.push(op("aam", vec![C(c), V(0), C(k), V(1), C(x), V(2), C(y), C(z)]));
            out.push(case("aam", d.clone(), o, vec![x, y, z], 3));
        }
        if x != F::ZERO {
            let mut o = ins(1);
            o.push(op("inv", vec![V(0)]));
            out.push(case("inv", d.clone(), o, vec![x], 1));
            let mut o = ins(2);
            o.push(op("div", vec![V(1), V(0)]));
            out.push(case("div", d.clone(), o, vec![x, y], 2));
        }
        for v in [x, F::ZERO] {
            let mut o = ins(1);
            o.push(op("inv0", vec![V(0)]));
            out.push(case("inv0", d.clone(), o, vec![v], 1));
        }
        // assertions that hold
        {
            let mut o = ins(2);
            o.push(op("aeq", vec![V(0), V(1)]));
            out.push(case("aeq", d.clone(), o, vec![x, x], 2));
        }
        if x != y {
            let mut o = ins(2);
            o.push(op("aneq", vec![V(0), V(1)]));
            out.push(case("aneq", d.clone(), o, vec![x, y], 2));
        }
        {
            let mut o = ins(1);
            o.push(op("aeqf", vec![V(0), C(x)]));
            out.push(case("aeqf", d.clone(), o, vec![x], 1));
        }
        if x != c {
            let mut o = ins(1);
            o.push(op("aneqf", vec![V(0), C(c)]));
            out.push(case("aneqf", d.clone(), o, vec![x], 1));
        }
        {
            let mut o = ins(1);
            o.push(op("az", vec![V(0)]));
            out.push(case("az", d.clone(), o, vec![F::ZERO], 1));
        }
        if x != F::ZERO {
            let mut o = ins(1);
            o.push(op("anz", vec![V(0)]));
            out.push(case("anz", d.clone(), o, vec![x], 1));
        }
        // select / cond_swap
        for b in [F::ZERO, F::ONE] {
            let mut o = vec![op("inb", vec![]), op("in", vec![]), op("in", vec![])];
            o.push(op("sel", vec![V(0), V(1), V(2)]));
            out.push(case("sel", d.clone(), o, vec![b, x, y], 3));
            let mut o = vec![op("inb", vec![]), op("in", vec![]), op("in", vec![])];
            o.push(op("cswap", vec![V(0), V(1), V(2)]));
            out.push(case("cswap", d.clone(), o, vec![b, x, y], 3));
            let mut o = vec![op("inb", vec![]), op("in", vec![]), op("in", vec![])];
            o.push(op("caeq", vec![V(0), V(1), V(2)]));
            out.push(case("caeq", d.clone(), o, vec![b, if b == F::ONE { y } else { x }, y], 3));
        }
    }
    // linear combinations of every length 0..=13 (chunking by 4), with zero coefficients
    let max_len = if ctx.quick() { 10 } else { 40 };
    for len in 0..=max_len {
        let mut o = ins(len);
        let terms: Vec<(F, usize)> = (0..len)
            .map(|i| (if rng.gen_bool(0.15) { F::ZERO } else { pick(&mut rng) }, i))
            .collect();
        let k = if rng.gen_bool(0.3) { F::ZERO } else { pick(&mut rng) };
        o.push(op("lc", vec![Terms(terms), C(k)]));
        let inputs: Vec<F> = (0..len).map(|_| pick(&mut rng)).collect();
        out.push(case("lc", d.clone(), o, inputs, len));
    }
    // add_constants of every length 0..=8 with zero constants mixed in
    for len in 0..=(if ctx.quick() { 7 } else { 12 }) {
        let mut o = ins(len);
        let cs: Vec<F> =
            (0..len).map(|_| if rng.gen_bool(0.25) { F::ZERO } else { pick(&mut rng) }).collect();
        o.push(op("addcs", vec![Vs((0..len).collect()), Cs(cs)]));
        let inputs: Vec<F> = (0..len).map(|_| pick(&mut rng)).collect();
        out.push(case("addcs", d.clone(), o, inputs, len));
    }
    // pow
    for n in [0u64, 1, 2, 3, 5, 8, 13, 255] {
        let mut o = ins(1);
        o.push(op("pow", vec![V(0), N(n)]));
        out.push(case("pow", d.clone(), o, vec![pick(&mut rng)], 1));
    }
    // interplay with the constant cache: mul by the cached `one`, fixed values twice
    {
        let o = vec![
            op("in", vec![]),
            op("fix", vec![C(F::ONE)]),
            op("mul", vec![V(0), V(1)]),
            op("mul", vec![V(1), V(0)]),
            op("fix", vec![C(F::ONE)]),
            op("fix", vec![C(F::from(7))]),
            op("mulk", vec![V(0), V(1), C(F::ZERO)]),
        ];
        out.push(case("cache", d.clone(), o, vec![pick(&mut rng)], 1));
    }
}

/// Single-operation programs on bits.
pub fn bit_cases(ctx: &Ctx, out: &mut Vec<Case>) {
    let d = p(4, 8);
    let mut rng = ctx.rng("bits");
    let b = |x: u64| F::from(x);
    for x in 0..2u64 {
        let o = vec![op("inb", vec![]), op("not", vec![V(0)])];
        out.push(case("not", d.clone(), o, vec![b(x)], 1));
        let o = vec![op("inb", vec![]), op("b2n", vec![V(0)])];
        out.push(case("b2n", d.clone(), o, vec![b(x)], 1));
        let o = vec![op("in", vec![]), op("n2b", vec![V(0)])];
        out.push(case("n2b", d.clone(), o, vec![b(x)], 1));
        for c in 0..2u64 {
            for name in ["biseqf", "bisneqf"] {
                let o = vec![op("inb", vec![]), op(name, vec![V(0), N(c)])];
                out.push(case(name, d.clone(), o, vec![b(x)], 1));
            }
            let o = vec![op("inb", vec![]), op("baeqf", vec![V(0), N(x)])];
            out.push(case("baeqf", d.clone(), o, vec![b(x)], 1));
            let o = vec![op("inb", vec![]), op("baneqf", vec![V(0), N(1 - x)])];
            out.push(case("baneqf", d.clone(), o, vec![b(x)], 1));
        }
        for y in 0..2u64 {
            for name in ["biseq", "bisneq"] {
                let o = vec![op("inb", vec![]), op("inb", vec![]), op(name, vec![V(0), V(1)])];
                out.push(case(name, d.clone(), o, vec![b(x), b(y)], 2));
            }
            if x == y {
                let o = vec![op("inb", vec![]), op("inb", vec![]), op("baeq", vec![V(0), V(1)])];
                out.push(case("baeq", d.clone(), o, vec![b(x), b(y)], 2));
            } else {
                let o = vec![op("inb", vec![]), op("inb", vec![]), op("baneq", vec![V(0), V(1)])];
                out.push(case("baneq", d.clone(), o, vec![b(x), b(y)], 2));
            }
            for c in 0..2u64 {
                let o = vec![
                    op("inb", vec![]),
                    op("inb", vec![]),
                    op("inb", vec![]),
                    op("bsel", vec![V(0), V(1), V(2)]),
                ];
                out.push(case("bsel", d.clone(), o, vec![b(c), b(x), b(y)], 3));
                let o = vec![
                    op("inb", vec![]),
                    op("inb", vec![]),
                    op("inb", vec![]),
                    op("bcswap", vec![V(0), V(1), V(2)]),
                ];
                out.push(case("bcswap", d.clone(), o, vec![b(c), b(x), b(y)], 3));
            }
        }
    }
    // and / or / xor on lists of every length 1..=6, all inputs for length <= 3
    let max_len = if ctx.quick() { 5 } else { 9 };
    for len in 1..=max_len {
        let combos: Vec<u64> = if len <= 3 {
            (0..(1u64 << len)).collect()
        } else {
            let mut v = vec![0, (1u64 << len) - 1];
            for _ in 0..3 {
                v.push(rng.gen_range(0..(1u64 << len)));
            }
            v
        };
        for m in combos {
            let inputs: Vec<F> = (0..len).map(|i| b((m >> i) & 1)).collect();
            for name in ["and", "or", "xor"] {
                let mut o: Vec<Op> = (0..len).map(|_| op("inb", vec![])).collect();
                o.push(op(name, vec![Vs((0..len).collect())]));
                out.push(case(name, d.clone(), o, inputs.clone(), len));
            }
        }
    }
}

pub fn cases(ctx: &Ctx) -> Vec<Case> {
    let mut out = vec![];
    native_cases(ctx, &mut out);
    bit_cases(ctx, &mut out);
    let _ = F::NUM_BITS;
    out
}
