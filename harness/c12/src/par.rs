//! Every parallel / chunked site of the anchored sources (inventory: `translators/c12_parsites.py`,
//! `Gen/C12ParSites.lean`, theorem `par_sites_all_reviewed`) under rayon pools that do and do NOT
//! divide the length: pools {1,2,3,5,6,7,8,12,16} x lengths 0..70 and 2^k±1, against the Lean
//! mirrors of `Model/C12/ParSites.lean` (which chunk exactly as `parallelize` does for that pool)
//! and against the plain serial definition (oracle). Also the crate-private helpers `powers`,
//! `inner_product`, `evals_inner_product` (hooks), `msm_specific` / `msm_best` over G2 (oracle
//! only: the driver has no Fp2 arithmetic) and scalars built from unreduced Montgomery limbs.

use ff::{Field, PrimeField};
use group::Group;
use midnight_curves::{msm, serde::SerdeObject, Bls12, CurveAffine, Fq, G1Affine, G1Projective};
use midnight_proofs::{
    poly::{
        commitment::PolynomialCommitmentScheme,
        kzg::{msm::MSMKZG, params::ParamsKZG, KZGCommitmentScheme},
        Coeff, CommitmentLabel, EvaluationDomain, Polynomial,
    },
    utils::{
        arithmetic::{g_to_lagrange, verif_evals_inner_product, verif_inner_product, verif_powers, MSM},
        SerdeFormat,
    },
};
use mzkh::{catch, fe_big, fe_hex, Ctx};
use num_bigint::BigUint;
use rand::{Rng, RngCore};
use rand_chacha::ChaCha8Rng;
use serde_json::json;

use crate::msm::{affine_str, gen_case, run_generic, BasePool, Case, Entry, Mode};

/// Pools of the second round: sizes that divide few of the lengths below.
pub const POOLS9: [usize; 9] = [1, 2, 3, 5, 6, 7, 8, 12, 16];

pub fn par_lens(quick: bool) -> Vec<usize> {
    let mut v: Vec<usize> = (0..=70).collect();
    v.extend([127, 128, 129, 255, 256, 257, 511, 513, 1023, 1025]);
    if !quick {
        v.extend([2047, 2049, 4095, 4097]);
    }
    v
}

fn hexl(v: &[Fq]) -> String {
    if v.is_empty() {
        "-".into()
    } else {
        v.iter().map(fe_hex).collect::<Vec<_>>().join(",")
    }
}

fn opt_hexl(v: &Result<Vec<Fq>, String>) -> String {
    match v {
        Ok(v) => hexl(v),
        Err(_) => "panic".into(),
    }
}

/// Short values for the long vectors (64-bit), full-width otherwise; zeros and ones sprinkled in.
fn vec_of(rng: &mut ChaCha8Rng, n: usize) -> Vec<Fq> {
    (0..n)
        .map(|i| match rng.gen_range(0..10) {
            0 => Fq::ZERO,
            1 => Fq::ONE,
            2 if n <= 70 => Fq::random(&mut *rng),
            3 => -Fq::from(i as u64 + 1),
            _ => Fq::from(rng.next_u64()),
        })
        .collect()
}

fn poly_of(v: &[Fq]) -> Polynomial<Fq, Coeff> {
    let mut p = Polynomial::<Fq, Coeff>::init(v.len());
    for (d, s) in p.iter_mut().zip(v.iter()) {
        *d = *s;
    }
    p
}

struct Pools(Vec<(usize, rayon::ThreadPool)>);

impl Pools {
    fn new() -> Self {
        Pools(POOLS9.iter().map(|&t| (t, rayon::ThreadPoolBuilder::new().num_threads(t).build().unwrap())).collect())
    }
}

/// `distribute_powers_zeta` (hook: any length), `Polynomial` + / - / * scalar, `MSMKZG::scale`.
pub fn run_par_maps(ctx: &mut Ctx) {
    let mut rng = ctx.rng("par-maps");
    let pools = Pools::new();
    let lens = par_lens(ctx.quick());
    let dom = EvaluationDomain::<Fq>::new(1, 1);
    let zeta = <Fq as ff::WithSmallOrderMulGroup<3>>::ZETA;
    for (ti, (t, pool)) in pools.0.iter().enumerate() {
        for &n in &lens {
            ctx.count(&format!("par-divides:{}", if n % t == 0 { "t|n" } else { "t∤n" }));
            // ---- distribute_powers_zeta
            let into = (n + ti) % 2 == 0;
            let a = vec_of(&mut rng, n);
            let mut v = a.clone();
            let res = catch(|| pool.install(|| dom.verif_distribute_powers_zeta(&mut v, into)));
            let ans = if res.is_ok() { hexl(&v) } else { "panic".into() };
            ctx.case("par-dpz", n > 1, &format!("dpz {t} {} {}", into as u8, hexl(&a)), &ans);
            let (c0, c1) = if into { (zeta, zeta.square()) } else { (zeta.square(), zeta) };
            let ok = res.is_ok() && a.iter().zip(v.iter()).enumerate().all(|(i, (x, y))| *y == *x * [Fq::ONE, c0, c1][i % 3]);
            if !ok {
                ctx.oracle_fail(&format!("par:distribute_powers_zeta:t{t}:n{}", if n % t == 0 { "div" } else { "nodiv" }),
                    "distribute_powers_zeta does not scale entry i by [1, zeta, zeta^2][i % 3] under this thread pool",
                    json!({"threads": t, "len": n, "into_coset": into, "input": hexl(&a).chars().take(3000).collect::<String>()}));
            }
            // ---- Polynomial add / add_assign / sub (equal lengths), rotating through the three impls
            let a = vec_of(&mut rng, n);
            let b = vec_of(&mut rng, n);
            let which = (n + ti) % 3;
            let (op, res): (&str, Result<Vec<Fq>, String>) = match which {
                0 => ("add", catch(|| pool.install(|| (poly_of(&a) + poly_of(&b)).to_vec()))),
                1 => ("addassign", catch(|| pool.install(|| (poly_of(&a) + &poly_of(&b)).to_vec()))),
                _ => ("sub", catch(|| pool.install(|| (poly_of(&a) - &poly_of(&b)).to_vec()))),
            };
            ctx.case("par-polyop", n > 1, &format!("polyop {t} {op} {} {}", hexl(&a), hexl(&b)), &opt_hexl(&res));
            let ok = matches!(&res, Ok(r) if r.len() == n && (0..n).all(|i| r[i] == if which == 2 { a[i] - b[i] } else { a[i] + b[i] }));
            if !ok {
                ctx.oracle_fail(&format!("par:polynomial-{op}:t{t}"), "Polynomial add/sub is not entry-wise under this thread pool",
                    json!({"threads": t, "len": n, "op": op}));
            }
            // ---- Polynomial * scalar
            let a = vec_of(&mut rng, n);
            let rhs = match (n + ti) % 4 { 0 => Fq::ZERO, 1 => Fq::ONE, 2 => Fq::from(rng.next_u64()), _ => Fq::random(&mut rng) };
            let res = catch(|| pool.install(|| (poly_of(&a) * rhs).to_vec()));
            ctx.case("par-polyscale", n > 1, &format!("polyscale {t} {} {}", fe_hex(&rhs), hexl(&a)), &opt_hexl(&res));
            if !matches!(&res, Ok(r) if r.len() == n && (0..n).all(|i| r[i] == a[i] * rhs)) {
                ctx.oracle_fail(&format!("par:polynomial-scale:t{t}"), "Polynomial * scalar is not entry-wise under this thread pool",
                    json!({"threads": t, "len": n, "rhs": fe_hex(&rhs)}));
            }
            // ---- MSMKZG::scale (par_iter_mut)
            if n <= 257 {
                let a = vec_of(&mut rng, n);
                let f = if n % 5 == 0 { Fq::ZERO } else { Fq::random(&mut rng) };
                let mut m = MSMKZG::<Bls12>::init();
                for (i, s) in a.iter().enumerate() {
                    m.append_term(*s, G1Projective::generator() * Fq::from(i as u64 + 1), CommitmentLabel::NoLabel);
                }
                let before = if n <= 8 { Some(m.eval()) } else { None };
                let res = catch(|| {
                    pool.install(|| m.scale(f));
                    m.scalars()
                });
                ctx.case("par-msmscale", n > 1, &format!("msmscale {t} {} {}", fe_hex(&f), hexl(&a)), &opt_hexl(&res));
                let mut ok = matches!(&res, Ok(r) if r.len() == n && (0..n).all(|i| r[i] == a[i] * f));
                if let (Some(b), true) = (before, ok) {
                    // msm_scale_spec: eval(scale(m, f)) = f * eval(m)
                    ok = m.eval() == b * f;
                }
                if !ok {
                    ctx.oracle_fail(&format!("par:msmkzg-scale:t{t}"), "MSMKZG::scale does not multiply every scalar / eval is not scaled",
                        json!({"threads": t, "len": n, "factor": fe_hex(&f)}));
                }
            }
        }
        // lengths that differ: the worker slices `rhs.values[start..]` (thread-dependent panic when
        // rhs is shorter — see `poly_zip_par_indep`'s example); model comparison only
        for (la, lb) in [(8usize, 0usize), (8, 2), (8, 7), (8, 9), (5, 4), (1, 0), (0, 3), (13, 6)] {
            let a = vec_of(&mut rng, la);
            let b = vec_of(&mut rng, lb);
            let res = catch(|| pool.install(|| (poly_of(&a) + &poly_of(&b)).to_vec()));
            ctx.case("par-polyop-mismatch", true, &format!("polyop {t} addassign {} {}", hexl(&a), hexl(&b)), &opt_hexl(&res));
            ctx.count(&format!("par-polyop-mismatch:{}", if res.is_ok() { "value" } else { "panic" }));
        }
    }
}

/// `unsafe_setup` (both `parallelize` loops), `read_custom` (parallel decode), the
/// `EvaluationDomain` conversions, `g_to_lagrange`, `best_fft`, `msm_parallel` on the three pool
/// sizes the first round did not have (6, 7, 12) and on the others where cheap.
pub fn run_par_setup_domain(ctx: &mut Ctx) {
    let mut rng = ctx.rng("par-setup");
    let pools = Pools::new();
    let quick = ctx.quick();
    let kmax: u32 = if quick { 5 } else { 7 };
    for k in 0..=kmax {
        let n = 1usize << k;
        let dom = EvaluationDomain::<Fq>::new(1, k);
        let setup_rng = rng.clone();
        let _ = rng.next_u64();
        let s = Fq::random(setup_rng.clone());
        let mut reference: Option<(Vec<G1Projective>, Vec<G1Projective>)> = None;
        for (t, pool) in pools.0.iter() {
            let params: ParamsKZG<Bls12> = pool.install(|| ParamsKZG::unsafe_setup(k, setup_rng.clone()));
            // `g` is crate-private: commit to the monomials (msm_specific drops the zero scalars)
            let g: Vec<G1Projective> = (0..n)
                .map(|i| {
                    let mut c = vec![Fq::ZERO; n];
                    c[i] = Fq::ONE;
                    <KZGCommitmentScheme<Bls12> as PolynomialCommitmentScheme<Fq>>::commit(&params, &dom.coeff_from_vec(c))
                })
                .collect();
            let gl: Vec<G1Projective> = params.g_lagrange().to_vec();
            let pts = |v: &[G1Projective]| v.iter().map(|p| affine_str::<G1Affine>(p)).collect::<Vec<_>>().join(" ");
            ctx.case("par-setupg", k > 0, &format!("setupg {t} {k} {}", fe_hex(&s)), &pts(&g));
            ctx.case("par-setupgl", k > 0, &format!("setupgl {t} {k} {}", fe_hex(&s)), &pts(&gl));
            // oracle: g[i] = [s^i]G, g_lagrange = g_to_lagrange(g), identical under every pool
            let mut pw = Fq::ONE;
            let mut ok = true;
            for gi in g.iter() {
                ok &= *gi == G1Projective::generator() * pw;
                pw *= s;
            }
            ok &= gl == g_to_lagrange(&g, k);
            if let Some((g0, gl0)) = &reference {
                ok &= *g0 == g && *gl0 == gl;
            } else {
                reference = Some((g.clone(), gl.clone()));
            }
            if !ok {
                ctx.oracle_fail(&format!("par:unsafe_setup:k{k}:t{t}"), "unsafe_setup: g is not [s^i]G or g_lagrange is not its Lagrange form under this thread pool",
                    json!({"k": k, "threads": t, "s": fe_hex(&s)}));
            }
            // read_custom (Processed: compressed points decoded through `parallelize`)
            if k >= 2 && k <= 4 {
                let mut bytes = Vec::new();
                params.write_custom(&mut bytes, SerdeFormat::Processed).unwrap();
                let back = catch(|| pool.install(|| ParamsKZG::<Bls12>::read_custom(&mut &bytes[..], SerdeFormat::Processed)));
                ctx.count("par-read_custom");
                let ok = match back {
                    Ok(Ok(p2)) => {
                        let mut again = Vec::new();
                        p2.write_custom(&mut again, SerdeFormat::Processed).unwrap();
                        p2.g_lagrange() == params.g_lagrange() && again == bytes
                    }
                    _ => false,
                };
                if !ok {
                    ctx.oracle_fail(&format!("par:read_custom:t{t}"), "ParamsKZG::read_custom does not return what write_custom wrote under this thread pool",
                        json!({"k": k, "threads": t}));
                }
            }
        }
    }
    // EvaluationDomain conversions on every pool
    let dk: u32 = if quick { 4 } else { 6 };
    for k in 1..=dk {
        for j in [1u32, 3, 5] {
            if quick && j == 5 && k > 2 {
                continue;
            }
            let dom = EvaluationDomain::<Fq>::new(j, k);
            let n = 1usize << k;
            let en = dom.extended_len();
            let a = vec_of(&mut rng, n);
            let e = vec_of(&mut rng, en);
            let mut first: Option<[Vec<Fq>; 5]> = None;
            for (t, pool) in pools.0.iter() {
                let c = pool.install(|| dom.lagrange_to_coeff(dom.lagrange_from_vec(a.clone()))).to_vec();
                ctx.case("par-dom-l2c", true, &format!("dom l2c {t} {j} {k} {}", hexl(&a)), &hexl(&c));
                let ext = pool.install(|| dom.coeff_to_extended(dom.coeff_from_vec(a.clone())));
                ctx.case("par-dom-c2e", true, &format!("dom c2e {t} {j} {k} {}", hexl(&a)), &hexl(&ext));
                let mut h = dom.empty_extended();
                for (d, s) in h.iter_mut().zip(e.iter()) {
                    *d = *s;
                }
                let e2c = pool.install(|| dom.extended_to_coeff(h.clone()));
                ctx.case("par-dom-e2c", true, &format!("dom e2c {t} {j} {k} {}", hexl(&e)), &hexl(&e2c));
                let e2l = pool.install(|| dom.extended_to_lagrange(h.clone())).to_vec();
                ctx.case("par-dom-e2l", true, &format!("dom e2l {t} {j} {k} {}", hexl(&e)), &hexl(&e2l));
                let dv = pool.install(|| dom.divide_by_vanishing_poly(h.clone())).to_vec();
                ctx.case("par-dom-divvanish", true, &format!("dom divvanish {t} {j} {k} {}", hexl(&e)), &hexl(&dv));
                let all = [c, ext.to_vec(), e2c, e2l, dv];
                match &first {
                    None => first = Some(all),
                    Some(f) => {
                        if *f != all {
                            ctx.oracle_fail(&format!("par:domain-conversion:k{k}:j{j}"), "an EvaluationDomain conversion depends on the number of threads",
                                json!({"j": j, "k": k, "threads": t}));
                        }
                    }
                }
            }
        }
    }
    // g_to_lagrange and best_fft on the pool sizes 6, 7, 12
    for t in [6usize, 7, 12] {
        let pool = &pools.0.iter().find(|(tt, _)| *tt == t).unwrap().1;
        for k in 0..=(if quick { 3u32 } else { 5 }) {
            let n = 1usize << k;
            let logs = vec_of(&mut rng, n);
            let pts: Vec<G1Projective> = logs.iter().map(|l| G1Projective::generator() * l).collect();
            let out = pool.install(|| g_to_lagrange(&pts, k));
            let ans = out.iter().map(|p| affine_str::<G1Affine>(p)).collect::<Vec<_>>().join(" ");
            ctx.case("par-g2l", true, &format!("g2l {t} {k} {}", hexl(&logs)), &ans);
        }
        for k in 0..=(if quick { 7u32 } else { 10 }) {
            let n = 1usize << k;
            let a = vec_of(&mut rng, n);
            let mut omega = Fq::ROOT_OF_UNITY;
            for _ in k..Fq::S {
                omega = omega.square();
            }
            let mut out = a.clone();
            let res = catch(|| pool.install(|| midnight_curves::fft::best_fft(&mut out, omega, k)));
            ctx.case("par-fft", k > 0, &format!("fft {t} {k} {} {}", fe_hex(&omega), hexl(&a)), &if res.is_ok() { hexl(&out) } else { "panic".into() });
            let i = if n > 1 { rng.gen_range(0..n) } else { 0 };
            let exp = a.iter().rev().fold(Fq::ZERO, |acc, c| acc * omega.pow_vartime([i as u64]) + c);
            if res.is_err() || out[i] != exp {
                ctx.oracle_fail(&format!("fft:k{k}:t{t}"), "best_fft is not the discrete Fourier transform", json!({"k": k, "threads": t, "index": i}));
            }
        }
    }
    // msm_parallel / msm_best(small) on 6, 7, 12 threads: every length 0..70
    let bls: BasePool<G1Affine> = BasePool::new(&mut rng, 96);
    for t in [6usize, 7, 12] {
        for len in 0..=70usize {
            if quick && (len + t) % 2 == 1 && len > 30 {
                continue;
            }
            let case = gen_case(&mut rng, &bls, len, Mode::Mixed);
            run_generic(ctx, "bls", &case, Entry::Parallel(t), Mode::Mixed);
        }
    }
}

/// `powers`, `inner_product` (over field elements and over polynomials), `evals_inner_product`.
pub fn run_helpers(ctx: &mut Ctx) {
    let mut rng = ctx.rng("helpers");
    for n in (0..=20usize).chain([33, 64, 70]) {
        for class in 0..3 {
            let base = match class { 0 => Fq::random(&mut rng), 1 => [Fq::ZERO, Fq::ONE, -Fq::ONE][n % 3], _ => Fq::from(rng.next_u64()) };
            let got = verif_powers(base, n);
            ctx.case("powers", n > 1, &format!("powers {} {n}", fe_hex(&base)), &hexl(&got));
            let mut p = Fq::ONE;
            let ok = got.len() == n && got.iter().all(|g| { let r = *g == p; p *= base; r });
            if !ok {
                ctx.oracle_fail("powers", "powers(base) is not 1, base, base^2, ...", json!({"base": fe_hex(&base), "n": n}));
            }
        }
    }
    for n in 0..=24usize {
        for extra in [0usize, 1, 3] {
            // scalars may be longer than the items (zip stops) or shorter
            let items = vec_of(&mut rng, n);
            let scalars = vec_of(&mut rng, if extra == 3 { n.saturating_sub(1) } else { n + extra });
            let res = catch(|| verif_inner_product::<Fq, Fq>(&items, &scalars));
            let ans = match &res { Ok(v) => fe_hex(v), Err(_) => "panic".into() };
            ctx.case("innerf", n > 1, &format!("innerf {} {}", hexl(&items), hexl(&scalars)), &ans);
            let m = items.len().min(scalars.len());
            let exp = (0..m).fold(Fq::ZERO, |acc, i| acc + items[i] * scalars[i]);
            let ok = if m == 0 { res.is_err() } else { matches!(&res, Ok(v) if *v == exp) };
            if !ok {
                ctx.oracle_fail("inner_product:field", "inner_product is not the sum of item*scalar over the common prefix (or does not panic on the empty reduction)",
                    json!({"items": hexl(&items), "scalars": hexl(&scalars), "got": ans}));
            }
        }
    }
    for npoly in 0..=6usize {
        for len in [0usize, 1, 4, 9] {
            let polys: Vec<Vec<Fq>> = (0..npoly).map(|_| vec_of(&mut rng, len)).collect();
            let scalars = vec_of(&mut rng, npoly);
            let ps: Vec<Polynomial<Fq, Coeff>> = polys.iter().map(|p| poly_of(p)).collect();
            let res = catch(|| verif_inner_product::<Fq, Polynomial<Fq, Coeff>>(&ps, &scalars).to_vec());
            let pstr = if polys.is_empty() { ".".to_string() } else { polys.iter().map(|p| hexl(p)).collect::<Vec<_>>().join(";") };
            ctx.case("innerp", npoly > 1, &format!("innerp {pstr} {}", hexl(&scalars)), &opt_hexl(&res));
            let sets: Vec<Vec<Fq>> = polys.clone();
            let res2 = catch(|| verif_evals_inner_product(&sets, &scalars));
            ctx.case("evalsinner", npoly > 1, &format!("evalsinner {pstr} {}", hexl(&scalars)), &opt_hexl(&res2));
            let exp: Vec<Fq> = (0..len).map(|i| (0..npoly).fold(Fq::ZERO, |acc, j| acc + polys[j][i] * scalars[j])).collect();
            let ok = if npoly == 0 { res.is_err() && res2.is_err() } else { matches!(&res, Ok(v) if *v == exp) && matches!(&res2, Ok(v) if *v == exp) };
            if !ok {
                ctx.oracle_fail("inner_product:polys", "inner_product / evals_inner_product over vectors is not the scalar-weighted sum",
                    json!({"polys": npoly, "len": len}));
            }
        }
    }
    // evals_inner_product: a later set shorter than the first one (index out of bounds), a longer one
    let sets = vec![vec_of(&mut rng, 4), vec_of(&mut rng, 3)];
    let sc = vec_of(&mut rng, 2);
    let res = catch(|| verif_evals_inner_product(&sets, &sc));
    ctx.case("evalsinner-short", false, &format!("evalsinner {} {}", sets.iter().map(|p| hexl(p)).collect::<Vec<_>>().join(";"), hexl(&sc)), &opt_hexl(&res));
    let sets = vec![vec_of(&mut rng, 3), vec_of(&mut rng, 5)];
    let res = catch(|| verif_evals_inner_product(&sets, &sc));
    ctx.case("evalsinner-long", true, &format!("evalsinner {} {}", sets.iter().map(|p| hexl(p)).collect::<Vec<_>>().join(";"), hexl(&sc)), &opt_hexl(&res));
}

/// One MSM entry on a curve the driver cannot print (G2: coordinates in Fp2): oracle only.
fn oracle_only<C: CurveAffine>(ctx: &mut Ctx, cname: &str, case: &Case<C>, which: &str, t: usize, mode: Mode)
where
    C::Scalar: PrimeField,
{
    let pool = crate::msm::pool(t);
    let proj: Vec<C::Curve> = case.bases.iter().map(|b| b.to_curve()).collect();
    let res = catch(|| {
        pool.install(|| match which {
            "specific" => midnight_proofs::poly::kzg::msm::msm_specific::<C>(&case.scalars, &proj),
            "best" => msm::msm_best(&case.scalars, &case.bases),
            "parallel" => msm::msm_parallel(&case.scalars, &case.bases),
            _ => {
                let mut acc = C::Curve::identity();
                msm::msm_serial(&case.scalars, &case.bases, &mut acc);
                acc
            }
        })
    });
    let mut k = C::Scalar::ZERO;
    for (b, s) in case.logs.iter().zip(case.scalars.iter()) {
        k += mzkh::fe_from_big::<C::Scalar>(b) * s;
    }
    let exp = C::Curve::generator() * k;
    ctx.count(&format!("msm-oracle-only:{cname}:{which}"));
    ctx.count(&format!("msm-oracle-only-len:{}", crate::msm::len_class(case.logs.len())));
    if !matches!(&res, Ok(p) if *p == exp) {
        ctx.oracle_fail(
            &format!("msm:{cname}:{which}:{mode:?}:len{}", crate::msm::len_class(case.logs.len())),
            &format!("{which} MSM over {cname} does not return the sum of scalar-times-base"),
            json!({"curve": cname, "entry": which, "threads": t, "len": case.logs.len(), "mode": format!("{mode:?}"),
                "result": match &res { Ok(_) => "wrong point".to_string(), Err(m) => format!("panic: {m}") }}),
        );
    }
}

/// `msm_specific` / `msm_best` / `msm_parallel` / `msm_serial` over BLS12-381 G2 and BN254 G2 (the
/// other two `CurveAffine` types of the crate; Jubjub and secp256k1 do not implement `CurveAffine`
/// and cannot reach these entry points), and BLS scalars built from unreduced Montgomery limbs.
pub fn run_g2_and_unreduced(ctx: &mut Ctx) {
    use midnight_curves::{bn256, G2Affine};
    let quick = ctx.quick();
    let mut rng = ctx.rng("g2");
    let g2: BasePool<G2Affine> = BasePool::new(&mut rng, if quick { 200 } else { 600 });
    let bn2: BasePool<bn256::G2Affine> = BasePool::new(&mut rng, if quick { 200 } else { 600 });
    let modes = [Mode::Mixed, Mode::SameBase, Mode::OppositePairs, Mode::AllIdentity, Mode::ZeroScalars, Mode::MaxScalars, Mode::TopBits];
    for (li, len) in [0usize, 1, 2, 3, 4, 5, 31, 32, 33, 70, 149].into_iter().enumerate() {
        for (mi, mode) in modes.iter().enumerate() {
            if quick && (li + mi) % 2 == 1 {
                continue;
            }
            let t = POOLS9[(li + mi) % 9];
            let case = gen_case(&mut rng, &g2, len, *mode);
            oracle_only(ctx, "bls-g2", &case, ["specific", "best", "parallel", "serial"][((li + mi) / 2) % 4], t, *mode);
            let case = gen_case(&mut rng, &bn2, len, *mode);
            oracle_only(ctx, "bn-g2", &case, ["specific", "best", "parallel", "serial"][((li + mi) / 2 + 1) % 4], t, *mode);
        }
    }
    // the batch-affine path over Fp2 coordinates
    let big: Vec<(usize, usize, Mode)> = if quick {
        vec![(8104, 7, Mode::Mixed), (8104, 12, Mode::OppositePairs)]
    } else {
        vec![(8104, 1, Mode::Mixed), (8104, 6, Mode::AllIdentity), (8105, 7, Mode::SameBase), (8200, 12, Mode::OppositePairs), (9000, 16, Mode::MaxScalars)]
    };
    for (len, t, mode) in big {
        let case = gen_case(&mut rng, &g2, len, mode);
        oracle_only(ctx, "bls-g2", &case, "best", t, mode);
        let case = gen_case(&mut rng, &bn2, len, mode);
        oracle_only(ctx, "bn-g2", &case, "specific", t, mode);
    }
    // scalars whose Montgomery limbs are not reduced (`from_raw_bytes_unchecked`: the only way the
    // API admits a representation >= r); `to_repr` reduces, so the MSM must agree with the reduced value
    let bls: BasePool<G1Affine> = BasePool::new(&mut rng, 32);
    let r = fe_big(&-Fq::ONE) + BigUint::from(1u32);
    let mut limbs: Vec<[u8; 32]> = vec![[0xff; 32]];
    let mut rb = r.to_bytes_le();
    rb.resize(32, 0);
    limbs.push(rb.clone().try_into().unwrap()); // limbs = r: a non-canonical zero
    let mut r1 = (&r + BigUint::from(1u32)).to_bytes_le();
    r1.resize(32, 0);
    limbs.push(r1.try_into().unwrap());
    for len in [1usize, 3, 5, 33, 70] {
        for (which, t) in [("serial", 1usize), ("parallel", 3), ("best", 7), ("multiexp", 1), ("specific-blst", 5)] {
            let mut case = gen_case(&mut rng, &bls, len, Mode::Random);
            for (i, s) in case.scalars.iter_mut().enumerate() {
                if i % 2 == 0 {
                    *s = Fq::from_raw_bytes_unchecked(&limbs[(i / 2) % limbs.len()]);
                }
            }
            ctx.count("msm-unreduced-scalars");
            match which {
                "serial" => run_generic(ctx, "bls", &case, Entry::Serial(BigUint::from(0u32)), Mode::Random),
                "parallel" => run_generic(ctx, "bls", &case, Entry::Parallel(t), Mode::Random),
                "best" => run_generic(ctx, "bls", &case, Entry::Best(t), Mode::Random),
                w => crate::msm::run_bls_specific(ctx, &case, Mode::Random, w, t),
            }
        }
    }
}

fn trace_digest(tr: &[(i32, u8)]) -> u64 {
    const M: u128 = (1u128 << 61) - 1;
    let mut h: u128 = 0;
    for (d, k) in tr {
        let code = ((*d as i64 + (1i64 << 24)) as u128) * 4 + *k as u128;
        h = (h * 1_000_003 + code) % M;
    }
    h as u64
}

/// The driving loop of `msm_best` itself (identity filter, digit -> bucket index, `contains` ->
/// Jacobian / `Schedule::add`), observed through the hook `verif_trace` on the REAL loop, for the
/// natural window size and for small windows forced through the hook (the loop is only reached
/// from 8104 bases on). Compared with `windowBestTrace` / `msmBestWindows` of the Lean model:
/// the result point and a digest of every window's (digit, decision) trace.
pub fn run_best_loop(ctx: &mut Ctx) {
    use midnight_curves::msm::verif_trace;
    let quick = ctx.quick();
    let mut rng = ctx.rng("best-loop");
    let bls: BasePool<G1Affine> = BasePool::new(&mut rng, 400);
    let plans: Vec<(usize, usize, usize, Mode)> = if quick {
        vec![(8104, 0, 3, Mode::Mixed), (8104, 3, 7, Mode::Mixed), (8104, 6, 12, Mode::OppositePairs), (8110, 9, 5, Mode::SameBase)]
    } else {
        vec![(8104, 0, 3, Mode::Mixed), (8104, 1, 1, Mode::Mixed), (8104, 2, 2, Mode::NoIdentity), (8104, 3, 7, Mode::Mixed), (8104, 4, 6, Mode::AllIdentity),
             (8104, 5, 16, Mode::SameBase), (8104, 6, 12, Mode::OppositePairs), (8110, 7, 5, Mode::MaxScalars), (8200, 8, 8, Mode::TopBits),
             (8104, 9, 3, Mode::Mixed), (8104, 12, 2, Mode::ZeroScalars), (8500, 16, 7, Mode::Mixed)]
    };
    for (len, forced, t, mode) in plans {
        let case = gen_case(&mut rng, &bls, len, mode);
        let pool = crate::msm::pool(t);
        verif_trace::force_window(forced);
        verif_trace::start();
        let res = catch(|| pool.install(|| msm::msm_best(&case.scalars, &case.bases)));
        let traces = verif_trace::take();
        verif_trace::force_window(0);
        let c = if forced == 0 { 10 } else { forced };
        let nw = Fq::NUM_BITS as usize / c + 1;
        let digests = traces.iter().map(|(_, tr)| trace_digest(tr).to_string()).collect::<Vec<_>>().join(",");
        let pt = match &res {
            Ok(p) => affine_str::<G1Affine>(p),
            Err(_) => "panic".to_string(),
        };
        let pairs = case.logs.iter().zip(case.scalars.iter())
            .map(|(b, s)| format!("{}:{}", b.to_str_radix(16), fe_big(s).to_str_radix(16))).collect::<Vec<_>>().join(",");
        ctx.case("msm-best-loop", true, &format!("msmbestw bls {c} 32 {pairs}"), &format!("{pt} | {digests}"));
        ctx.count(&format!("best-loop-window:{c}"));
        let mut dec = [0u64; 4];
        for (_, tr) in &traces {
            for (_, k) in tr {
                dec[(*k as usize).min(3)] += 1;
            }
        }
        for (i, name) in ["zero-digit", "identity-base", "jacobian", "scheduled"].iter().enumerate() {
            ctx.count_n(&format!("best-loop-decision:{name}"), dec[i]);
        }
        // oracle: the sum; one trace per window, one entry per coefficient
        let mut k = Fq::ZERO;
        for (b, s) in case.logs.iter().zip(case.scalars.iter()) {
            k += mzkh::fe_from_big::<Fq>(b) * s;
        }
        let exp = G1Projective::generator() * k;
        let shape_ok = traces.len() == nw && traces.iter().enumerate().all(|(i, (w, tr))| *w == i && tr.len() == len);
        if !matches!(&res, Ok(p) if *p == exp) || !shape_ok {
            ctx.oracle_fail(&format!("msm_best:loop:c{c}:{mode:?}"),
                "the batch-affine loop of msm_best (window size forced through the hook) does not return the sum, or does not visit every coefficient in every window",
                json!({"len": len, "window": c, "threads": t, "mode": format!("{mode:?}"), "windows_traced": traces.len(), "got": pt}));
        }
    }
}
