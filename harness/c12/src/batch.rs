//! The batch-affine path of `msm_best`: the private `batch_add` and `Schedule` of
//! `curves/src/msm.rs`, through the hooks `verif_batch_add` / `verif_schedule_run`.
//!
//! `batchadd` lines compare the two loops with the shared inversion, coordinate by coordinate, with
//! the Lean model `batchAdd` (also outside the schedule invariant: repeated buckets, empty buckets,
//! a vertical tangent that makes the shared inversion fail); the oracle recomputes every entry with
//! the curve's own group law. `sched` lines compare the decisions of the real `Schedule`
//! (diverted / assigned / pending / flush at 64) and its final buckets with the abstract-group
//! model `schedRun`.

use ff::{Field, PrimeField};
use group::{Curve, Group};
use midnight_curves::{msm, CurveAffine};
use mzkh::{catch, fe_big, fe_from_big, fe_hex, Ctx};
use num_bigint::BigUint;
use rand::Rng;
use rand_chacha::ChaCha8Rng;

fn hex_np(b: &BigUint) -> String {
    b.to_str_radix(16)
}

fn xy<C: CurveAffine>(p: &C) -> (C::Base, C::Base) {
    let c = p.coordinates().unwrap();
    (*c.x(), *c.y())
}

fn aff_str<C: CurveAffine>(a: &Option<(C::Base, C::Base)>) -> String
where
    C::Base: PrimeField,
{
    match a {
        None => "-".into(),
        Some((x, y)) => format!("{}:{}", hex_np(&fe_big(x)), hex_np(&fe_big(y))),
    }
}

fn list_or_dot(v: Vec<String>) -> String {
    if v.is_empty() {
        ".".into()
    } else {
        v.join(",")
    }
}

#[derive(Clone, Copy, Debug, PartialEq)]
enum Cls {
    Chord,
    DblPlus,
    DblMinus,
    CancelPlus,
    CancelMinus,
    EmptyBucket,
}

/// One `batchadd` case inside the schedule invariant (distinct buckets) when `dup == false`.
fn batch_case<C: CurveAffine>(ctx: &mut Ctx, cname: &str, rng: &mut ChaCha8Rng, pool: &[C], n: usize, dup: bool, only: Option<Cls>)
where
    C::Base: PrimeField,
{
    let nb = n + 3;
    // bucket order: a random injection entries -> buckets
    let mut order: Vec<usize> = (0..nb).collect();
    for i in (1..nb).rev() {
        order.swap(i, rng.gen_range(0..=i));
    }
    let mut buckets: Vec<Option<(C::Base, C::Base)>> = (0..nb)
        .map(|_| if rng.gen_bool(0.3) { None } else { Some(xy(&pool[rng.gen_range(0..pool.len())])) })
        .collect();
    let bases: Vec<(C::Base, C::Base)> = pool.iter().map(xy).collect();
    let mut points = Vec::with_capacity(n);
    let mut classes = Vec::with_capacity(n);
    for i in 0..n {
        let k = if dup && i > 0 && rng.gen_bool(0.4) { order[rng.gen_range(0..i)] } else { order[i] };
        let b = rng.gen_range(0..pool.len());
        let cls = only.unwrap_or(match rng.gen_range(0..12) {
            0 | 1 => Cls::DblPlus,
            2 | 3 => Cls::DblMinus,
            4 => Cls::CancelPlus,
            5 => Cls::CancelMinus,
            6 => Cls::EmptyBucket,
            _ => Cls::Chord,
        });
        let base = pool[b];
        let (bucket, sign): (Option<C>, bool) = match cls {
            Cls::Chord => {
                let mut j = rng.gen_range(0..pool.len());
                while xy(&pool[j]).0 == xy(&base).0 {
                    j = (j + 1) % pool.len();
                }
                (Some(pool[j]), rng.gen_bool(0.5))
            }
            Cls::DblPlus => (Some(base), true),
            Cls::DblMinus => (Some(-base), false),
            Cls::CancelPlus => (Some(-base), true),
            Cls::CancelMinus => (Some(base), false),
            Cls::EmptyBucket => (None, rng.gen_bool(0.5)),
        };
        // with repeated buckets only the first writer decides the bucket content
        if !dup || !points.iter().any(|(_, kk, _): &(usize, usize, bool)| *kk == k) {
            buckets[k] = bucket.as_ref().map(xy);
        }
        points.push((b, k, sign));
        classes.push(cls);
    }
    let res = catch(|| msm::verif_batch_add::<C>(&buckets, &points, &bases));
    let op = format!(
        "batchadd {cname} {} {} {}",
        list_or_dot(buckets.iter().map(aff_str::<C>).collect()),
        list_or_dot(points.iter().map(|(b, k, s)| format!("{b}:{k}:{}", *s as u8)).collect()),
        list_or_dot(bases.iter().map(|b| aff_str::<C>(&Some(*b))).collect()),
    );
    let ans = match &res {
        Ok(out) => out.iter().map(aff_str::<C>).collect::<Vec<_>>().join(","),
        Err(_) => "panic".to_string(),
    };
    ctx.case(&format!("batchadd-{cname}{}", if dup { "-dup" } else { "" }), n > 1, &op, &ans);
    ctx.count(&format!("batchadd-size:{}", match n { 0 => "0", 1 => "1", 2..=8 => "2-8", 9..=63 => "9-63", _ => "64" }));
    for c in &classes {
        ctx.count(&format!("batchadd-class:{c:?}"));
    }
    if dup {
        return; // outside the invariant the result is not a sum of points: model comparison only
    }
    // oracle: every entry is bucket ± base in the curve's own group law, untouched buckets stay
    let mut bad: Option<String> = None;
    match &res {
        Err(m) => bad = Some(format!("panic: {m}")),
        Ok(out) => {
            let mut expect = buckets.clone();
            for ((b, k, s), cls) in points.iter().zip(classes.iter()) {
                if let Some((x, y)) = buckets[*k] {
                    let bp: C = C::from_xy(x, y).unwrap();
                    let base = pool[*b];
                    let sum: C = (bp.to_curve() + if *s { base.to_curve() } else { -base.to_curve() }).to_affine();
                    expect[*k] = if bool::from(sum.is_identity()) { None } else { Some(xy(&sum)) };
                } else {
                    // an empty bucket in the batch is skipped (never produced by `Schedule`)
                    debug_assert_eq!(*cls, Cls::EmptyBucket);
                }
            }
            for (i, (e, o)) in expect.iter().zip(out.iter()).enumerate() {
                if e != o {
                    bad = Some(format!("bucket {i}: expected {} got {}", aff_str::<C>(e), aff_str::<C>(o)));
                    break;
                }
            }
        }
    }
    if let Some(why) = bad {
        let cl = only.map(|c| format!("{c:?}")).unwrap_or_else(|| "mixed".into());
        ctx.oracle_fail(
            &format!("batch_add:{cname}:{cl}"),
            "batch_add (batch-affine bucket addition of msm_best) does not add ±base into every scheduled bucket",
            serde_json::json!({"curve": cname, "size": n, "why": why, "request": op.chars().take(6000).collect::<String>()}),
        );
    }
}

fn run_batch_curve<C: CurveAffine>(ctx: &mut Ctx, cname: &str, rng: &mut ChaCha8Rng)
where
    C::Base: PrimeField,
    C::Scalar: PrimeField,
{
    let quick = ctx.quick();
    // a small pool: the generator, small multiples, random points, and opposites
    let mut pool: Vec<C> = Vec::new();
    for k in 1..=4u64 {
        pool.push((C::Curve::generator() * C::Scalar::from(k)).to_affine());
    }
    for _ in 0..6 {
        pool.push((C::Curve::generator() * C::Scalar::from(rng.gen::<u64>() | 1)).to_affine());
    }
    let negs: Vec<C> = pool.iter().take(3).map(|p| -*p).collect();
    pool.extend(negs);
    let sizes: Vec<usize> = if quick { vec![0, 1, 2, 3, 5, 17, 64] } else { (0..=16).chain([31, 32, 33, 63, 64]).collect() };
    let reps = if quick { 2 } else { 8 };
    for &n in &sizes {
        for _ in 0..reps {
            batch_case::<C>(ctx, cname, rng, &pool, n, false, None);
        }
        if n >= 2 {
            batch_case::<C>(ctx, cname, rng, &pool, n, true, None);
        }
    }
    for cls in [Cls::Chord, Cls::DblPlus, Cls::DblMinus, Cls::CancelPlus, Cls::CancelMinus, Cls::EmptyBucket] {
        for n in [1usize, 2, 9] {
            batch_case::<C>(ctx, cname, rng, &pool, n, false, Some(cls));
        }
    }
    // a vertical tangent (a "point" with y = 0, not on these curves): the shared inversion fails
    let g = xy(&pool[0]);
    let h = xy(&pool[1]);
    let buckets = vec![Some((g.0, C::Base::ZERO)), Some(h)];
    let bases = vec![(g.0, C::Base::ZERO), g];
    let points = vec![(1usize, 1usize, true), (0usize, 0usize, true)];
    let res = catch(|| msm::verif_batch_add::<C>(&buckets, &points, &bases));
    let op = format!(
        "batchadd {cname} {} {} {}",
        buckets.iter().map(aff_str::<C>).collect::<Vec<_>>().join(","),
        points.iter().map(|(b, k, s)| format!("{b}:{k}:{}", *s as u8)).collect::<Vec<_>>().join(","),
        bases.iter().map(|b| aff_str::<C>(&Some(*b))).collect::<Vec<_>>().join(","),
    );
    let ans = match &res {
        Ok(out) => out.iter().map(aff_str::<C>).collect::<Vec<_>>().join(","),
        Err(_) => "panic".to_string(),
    };
    ctx.case(&format!("batchadd-{cname}-vertical"), true, &op, &ans);
}

/// The real `Schedule` against `schedRun` (decisions) and against the group law (final buckets).
fn run_sched_curve<C: CurveAffine>(ctx: &mut Ctx, cname: &str, rng: &mut ChaCha8Rng)
where
    C::Base: PrimeField,
    C::Scalar: PrimeField,
{
    let quick = ctx.quick();
    let r = fe_big(&-C::Scalar::ONE) + BigUint::from(1u32);
    let mut logs: Vec<BigUint> = vec![BigUint::from(1u32), BigUint::from(2u32), BigUint::from(rng.gen::<u64>() | 1), BigUint::from(rng.gen::<u64>() | 1)];
    let opp: Vec<BigUint> = logs.iter().take(3).map(|l| &r - l).collect();
    logs.extend(opp);
    let bases: Vec<C> = logs.iter().map(|l| (C::Curve::generator() * fe_from_big::<C::Scalar>(l)).to_affine()).collect();
    let plans: Vec<(usize, usize)> = if quick {
        vec![(1, 5), (2, 12), (3, 40), (8, 150), (8, 420)]
    } else {
        vec![(1, 0), (1, 1), (1, 7), (2, 3), (2, 30), (3, 64), (4, 100), (5, 200), (7, 300), (8, 64), (8, 65), (8, 150), (8, 420), (8, 900), (9, 1200)]
    };
    for (c, nreq) in plans {
        for rep in 0..(if quick { 1 } else { 3 }) {
            let nb = 1usize << (c - 1);
            // few distinct bases and a skewed bucket distribution: repeats (doubling), opposites
            // (cancellation), and enough distinct buckets at c >= 8 to fill a batch of 64
            let reqs: Vec<(usize, usize, bool)> = (0..nreq)
                .map(|i| {
                    let k = if rep == 0 && i % 3 == 0 { rng.gen_range(0..nb.min(4)) } else { rng.gen_range(0..nb) };
                    (rng.gen_range(0..bases.len()), k, rng.gen_bool(0.6))
                })
                .collect();
            let res = catch(|| msm::verif_schedule_run::<C>(c, &bases, &reqs));
            let op = format!(
                "sched {cname} {c} {} {}",
                logs.iter().map(hex_np).collect::<Vec<_>>().join(","),
                list_or_dot(reqs.iter().map(|(b, k, s)| format!("{b}:{k}:{}", *s as u8)).collect()),
            );
            let ans = match &res {
                Ok((trace, out)) => format!(
                    "{} | {}",
                    if trace.is_empty() { "-".to_string() } else { mzkh::join(trace) },
                    out.iter()
                        .map(|b| match b {
                            None => "inf".to_string(),
                            Some((x, y)) => format!("{},{}", fe_hex(x), fe_hex(y)),
                        })
                        .collect::<Vec<_>>()
                        .join(" ")
                ),
                Err(_) => "panic".to_string(),
            };
            ctx.case(&format!("sched-{cname}"), nreq > 1, &op, &ans);
            ctx.count(&format!("sched-c:{c}"));
            // oracle: each affine bucket is the sum of the non-diverted ±bases sent to it
            let mut bad: Option<String> = None;
            match &res {
                Err(m) => bad = Some(format!("panic: {m}")),
                Ok((trace, out)) => {
                    let mut sums = vec![C::Curve::identity(); nb];
                    let mut flushed = false;
                    for ((b, k, s), t) in reqs.iter().zip(trace.iter()) {
                        if *t != 0 {
                            sums[*k] += if *s { bases[*b].to_curve() } else { -bases[*b].to_curve() };
                        } else {
                            ctx.count("sched-decision:diverted");
                        }
                        if *t == 1 {
                            flushed = true;
                        }
                    }
                    if flushed {
                        ctx.count("sched:flush-or-assign");
                    }
                    for (i, (s, o)) in sums.iter().zip(out.iter()).enumerate() {
                        let sa: C = s.to_affine();
                        let e = if bool::from(sa.is_identity()) { None } else { Some(xy(&sa)) };
                        if e != *o {
                            bad = Some(format!("bucket {i}"));
                            break;
                        }
                    }
                }
            }
            if let Some(why) = bad {
                ctx.oracle_fail(
                    &format!("schedule:{cname}:c{c}"),
                    "the batch-affine Schedule of msm_best does not accumulate the scheduled ±bases into its buckets",
                    serde_json::json!({"curve": cname, "c": c, "requests": nreq, "why": why, "request": op.chars().take(6000).collect::<String>()}),
                );
            }
        }
    }
}

/// `batch_add` computes the tangent slope as `3x²/2y` (no `+a`) and assumes `2y != 0`: both hold
/// only on curves with `a = 0` and without points of order two. Checked for every `CurveAffine`
/// of the crate that can reach `msm_best`.
fn check_curve_shape<C: CurveAffine>(ctx: &mut Ctx, cname: &str) {
    ctx.count(&format!("curve-shape:{cname}"));
    if C::a() != C::Base::ZERO {
        ctx.oracle_fail(
            &format!("batch_add:curve-a-nonzero:{cname}"),
            "a CurveAffine with a != 0 reaches msm_best, whose batch_add doubles with the slope 3x^2/2y",
            serde_json::json!({"curve": cname}),
        );
    }
}

pub fn run_batch(ctx: &mut Ctx) {
    check_curve_shape::<midnight_curves::G1Affine>(ctx, "bls-g1");
    check_curve_shape::<midnight_curves::G2Affine>(ctx, "bls-g2");
    check_curve_shape::<midnight_curves::bn256::G1Affine>(ctx, "bn-g1");
    check_curve_shape::<midnight_curves::bn256::G2Affine>(ctx, "bn-g2");
    let mut rng = ctx.rng("batch");
    run_batch_curve::<midnight_curves::G1Affine>(ctx, "bls", &mut rng);
    run_batch_curve::<midnight_curves::bn256::G1Affine>(ctx, "bn", &mut rng);
    run_sched_curve::<midnight_curves::G1Affine>(ctx, "bls", &mut rng);
    run_sched_curve::<midnight_curves::bn256::G1Affine>(ctx, "bn", &mut rng);
}
