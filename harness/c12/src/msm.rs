//! MSM entry points and the Booth slicing hook against the Lean model.
//!
//! Bases are known multiples `b·G` of the generator, so the expected result of every MSM is
//! `[Σ sᵢ·bᵢ mod r]·G`: the harness checks that directly (oracle) and the Lean driver recomputes
//! it by running its model of the entry point over ℤ/r and its own affine curve arithmetic.

use std::collections::BTreeSet;

use ff::{Field, PrimeField};
use group::{prime::PrimeCurveAffine, Curve, Group};
use midnight_curves::{msm, CurveAffine};
use mzkh::{big_hex, catch, fe_big, fe_from_big, fe_hex, Ctx};
use num_bigint::BigUint;
use num_traits::{One, Zero};
use rand::{Rng, RngCore};
use rand_chacha::ChaCha8Rng;
use rayon::prelude::*;

pub const POOLS: [usize; 6] = [1, 2, 3, 5, 8, 16];

pub fn pool(t: usize) -> rayon::ThreadPool {
    rayon::ThreadPoolBuilder::new().num_threads(t).build().unwrap()
}

fn hex_np(b: &BigUint) -> String {
    b.to_str_radix(16)
}

pub fn affine_str<C: CurveAffine>(p: &C::Curve) -> String
where
    C::Base: PrimeField,
{
    // a broken MSM can return coordinates that are not on the curve: never unwrap
    match catch(|| {
        let a: C = p.to_affine();
        if bool::from(a.is_identity()) {
            "inf".to_string()
        } else {
            match Option::<midnight_curves::Coordinates<C>>::from(a.coordinates()) {
                Some(c) => format!("{},{}", fe_hex(c.x()), fe_hex(c.y())),
                None => "not-on-curve".to_string(),
            }
        }
    }) {
        Ok(s) => s,
        Err(_) => "not-on-curve".to_string(),
    }
}

/// A pool of base points with known discrete logarithms.
pub struct BasePool<C: CurveAffine> {
    pub b: Vec<BigUint>,
    pub pts: Vec<C>,
    pub r: BigUint,
}

impl<C: CurveAffine> BasePool<C>
where
    C::Scalar: PrimeField,
{
    pub fn new(rng: &mut ChaCha8Rng, n: usize) -> Self {
        let r = fe_big(&-C::Scalar::ONE) + BigUint::one();
        let mut b = Vec::with_capacity(n);
        for j in 0..n {
            // mostly 64-bit logarithms (short request lines), some tiny, some full width
            let v = match j % 16 {
                0 => BigUint::from((j / 16 + 1) as u64),
                1 => {
                    let mut bytes = [0u8; 32];
                    rng.fill_bytes(&mut bytes);
                    BigUint::from_bytes_le(&bytes) % &r
                }
                _ => BigUint::from(rng.next_u64() | 1),
            };
            b.push(v);
        }
        let proj: Vec<C::Curve> = b
            .par_iter()
            .map(|v| C::Curve::generator() * fe_from_big::<C::Scalar>(v))
            .collect();
        let mut pts = vec![C::identity(); n];
        C::Curve::batch_normalize(&proj, &mut pts);
        BasePool { b, pts, r }
    }
}

#[derive(Clone, Copy, Debug, PartialEq)]
pub enum Mode {
    Mixed,
    Random,
    SameBase,
    OppositePairs,
    AllIdentity,
    ZeroScalars,
    MaxScalars,
    ShortScalars(usize),
    TopBits,
    NoIdentity,
}

pub struct Case<C: CurveAffine> {
    pub logs: Vec<BigUint>,
    pub scalars: Vec<C::Scalar>,
    pub bases: Vec<C>,
    pub classes: BTreeSet<&'static str>,
}

fn scalar_class<F: PrimeField>(rng: &mut ChaCha8Rng, r: &BigUint, cls: u32) -> (BigUint, &'static str) {
    let one = BigUint::one();
    match cls {
        0 => (BigUint::zero(), "s:zero"),
        1 => (one, "s:one"),
        2 => (r - &one, "s:max"),
        3 => (r - BigUint::from(2u32), "s:max-1"),
        4 => {
            let k = rng.gen_range(0..F::NUM_BITS as usize - 1);
            (BigUint::one() << k, "s:pow2")
        }
        5 => {
            let k = rng.gen_range(1..F::NUM_BITS as usize);
            ((BigUint::one() << k) - &one, "s:pow2-1")
        }
        6 => {
            // all ones in the top bits of the field
            let k = rng.gen_range(1..40);
            let top = (BigUint::one() << (F::NUM_BITS as usize - 1)) - (BigUint::one() << (F::NUM_BITS as usize - 1 - k));
            (top % r, "s:top-ones")
        }
        7 => (BigUint::from(rng.gen_range(0u64..1 << 16)), "s:small"),
        8 => {
            // runs of ones and zeros (window boundaries)
            let mut v = BigUint::zero();
            let mut pos = 0usize;
            let mut bit = rng.gen_bool(0.5);
            while pos < F::NUM_BITS as usize {
                let run = rng.gen_range(1..20);
                if bit {
                    v |= ((BigUint::one() << run) - &one) << pos;
                }
                pos += run;
                bit = !bit;
            }
            (v % r, "s:runs")
        }
        _ => {
            let mut bytes = [0u8; 40];
            rng.fill_bytes(&mut bytes);
            (BigUint::from_bytes_le(&bytes) % r, "s:random")
        }
    }
}

pub fn gen_case<C: CurveAffine>(rng: &mut ChaCha8Rng, pool: &BasePool<C>, len: usize, mode: Mode) -> Case<C>
where
    C::Scalar: PrimeField,
{
    let r = &pool.r;
    let mut logs: Vec<BigUint> = Vec::with_capacity(len);
    let mut scalars = Vec::with_capacity(len);
    let mut bases: Vec<C> = Vec::with_capacity(len);
    let mut classes = BTreeSet::new();
    let fixed = rng.gen_range(0..pool.b.len());
    for i in 0..len {
        // base
        let bcls = match mode {
            Mode::Mixed => rng.gen_range(0..10),
            Mode::NoIdentity => rng.gen_range(1..10),
            Mode::Random | Mode::ZeroScalars | Mode::MaxScalars | Mode::ShortScalars(_) | Mode::TopBits => 9,
            Mode::SameBase => 100,
            Mode::OppositePairs => 101,
            Mode::AllIdentity => 0,
        };
        let (lg, pt, cname): (BigUint, C, &'static str) = match bcls {
            0 => (BigUint::zero(), C::identity(), "b:identity"),
            1 if i > 0 => {
                let j = rng.gen_range(0..i);
                (logs[j].clone(), bases[j], "b:repeat")
            }
            2 if i > 0 => {
                let j = rng.gen_range(0..i);
                ((r - &logs[j]) % r, -bases[j], "b:opposite")
            }
            3 => (BigUint::one(), C::generator(), "b:generator"),
            100 => (pool.b[fixed].clone(), pool.pts[fixed], "b:same"),
            101 => {
                if i % 2 == 1 {
                    ((r - &logs[i - 1]) % r, -bases[i - 1], "b:opposite")
                } else {
                    let j = rng.gen_range(0..pool.b.len());
                    (pool.b[j].clone(), pool.pts[j], "b:pool")
                }
            }
            _ => {
                let j = rng.gen_range(0..pool.b.len());
                (pool.b[j].clone(), pool.pts[j], "b:pool")
            }
        };
        // scalar
        let (sv, sname) = match mode {
            Mode::Mixed | Mode::NoIdentity => {
                let c = rng.gen_range(0..14);
                scalar_class::<C::Scalar>(rng, r, c)
            }
            Mode::Random | Mode::AllIdentity => scalar_class::<C::Scalar>(rng, r, 99),
            Mode::SameBase | Mode::OppositePairs => {
                // equal scalars on equal / opposite bases force doubling / cancellation in buckets
                if rng.gen_bool(0.5) && i > 0 {
                    (fe_big(&scalars[i - 1]), "s:repeat")
                } else {
                    scalar_class::<C::Scalar>(rng, r, 99)
                }
            }
            Mode::ZeroScalars => scalar_class::<C::Scalar>(rng, r, 0),
            Mode::MaxScalars => scalar_class::<C::Scalar>(rng, r, 2 + (i as u32 % 2)),
            Mode::ShortScalars(nb) => {
                let mut bytes = vec![0u8; nb];
                rng.fill_bytes(&mut bytes);
                (BigUint::from_bytes_le(&bytes), "s:short")
            }
            Mode::TopBits => scalar_class::<C::Scalar>(rng, r, 6),
        };
        classes.insert(cname);
        classes.insert(sname);
        logs.push(lg);
        bases.push(pt);
        scalars.push(fe_from_big::<C::Scalar>(&sv));
    }
    Case { logs, scalars, bases, classes }
}

fn pairs_str<C: CurveAffine>(case: &Case<C>) -> String
where
    C::Scalar: PrimeField,
{
    if case.logs.is_empty() {
        return "-".to_string();
    }
    let mut s = String::with_capacity(case.logs.len() * 84);
    for (i, (b, c)) in case.logs.iter().zip(case.scalars.iter()).enumerate() {
        if i > 0 {
            s.push(',');
        }
        s.push_str(&hex_np(b));
        s.push(':');
        s.push_str(&hex_np(&fe_big(c)));
    }
    s
}

fn expected<C: CurveAffine>(case: &Case<C>, acc_mult: Option<(&BigUint, &BigUint)>) -> C::Curve
where
    C::Scalar: PrimeField,
{
    let mut k = C::Scalar::ZERO;
    for (b, s) in case.logs.iter().zip(case.scalars.iter()) {
        k += fe_from_big::<C::Scalar>(b) * s;
    }
    if let Some((a0, pow)) = acc_mult {
        k += fe_from_big::<C::Scalar>(a0) * fe_from_big::<C::Scalar>(pow);
    }
    C::Curve::generator() * k
}

pub enum Entry {
    Serial(BigUint),
    Parallel(usize),
    Best(usize),
}

/// Run one generic entry point of `curves/src/msm.rs` on a case, emit the correspondence line and
/// check the sum (oracle).
pub fn run_generic<C: CurveAffine>(ctx: &mut Ctx, cname: &str, case: &Case<C>, entry: Entry, mode: Mode)
where
    C::Scalar: PrimeField,
    C::Base: PrimeField,
{
    let len = case.logs.len();
    let nbytes = (C::Scalar::NUM_BITS as usize).div_ceil(8);
    let (ename, t, acc0): (&str, usize, BigUint) = match &entry {
        Entry::Serial(a) => ("serial", 1, a.clone()),
        Entry::Parallel(t) => ("parallel", *t, BigUint::zero()),
        Entry::Best(t) => ("best", *t, BigUint::zero()),
    };
    let res = catch(|| match &entry {
        Entry::Serial(a) => {
            let mut acc = C::Curve::generator() * fe_from_big::<C::Scalar>(a);
            msm::msm_serial(&case.scalars, &case.bases, &mut acc);
            acc
        }
        Entry::Parallel(t) => pool(*t).install(|| msm::msm_parallel(&case.scalars, &case.bases)),
        Entry::Best(t) => pool(*t).install(|| msm::msm_best(&case.scalars, &case.bases)),
    });
    let op = format!("msm {cname} {ename} {t} {} {nbytes} {}", big_hex(&acc0), pairs_str(case));
    let ans = match &res {
        Ok(p) => affine_str::<C>(p),
        Err(_) => "panic".to_string(),
    };
    ctx.case(&format!("msm-{cname}-{ename}"), len > 1, &op, &ans);
    ctx.count(&format!("msm-len:{}", len_class(len)));
    ctx.count(&format!("msm-mode:{mode:?}"));
    ctx.count(&format!("msm-threads:{t}"));
    for c in &case.classes {
        ctx.count(&format!("msm-class:{c}"));
    }
    // oracle: the sum itself (for `msm_serial` with a non-zero accumulator only when it is zero:
    // the doubling of a caller-supplied accumulator is not part of the documented contract)
    if acc0.is_zero() {
        let exp = expected(case, None);
        let ok = matches!(&res, Ok(p) if *p == exp);
        if !ok {
            ctx.oracle_fail(
                &format!("msm:{cname}:{ename}:{mode:?}:len{}", len_class(len)),
                &format!("{ename} MSM over {cname} G1 does not return the sum of scalar-times-base"),
                serde_json::json!({"curve": cname, "entry": ename, "threads": t, "len": len, "mode": format!("{mode:?}"),
                    "got": ans, "expected": affine_str::<C>(&exp),
                    "pairs_log_of_base:scalar": pairs_str(case).chars().take(4000).collect::<String>()}),
            );
        }
    }
}

pub fn len_class(len: usize) -> String {
    match len {
        0..=3 => format!("{len}"),
        4..=31 => "4-31".into(),
        32..=54 => "32-54".into(),
        55..=148 => "55-148".into(),
        149..=403 => "149-403".into(),
        404..=1096 => "404-1096".into(),
        1097..=2980 => "1097-2980".into(),
        2981..=8103 => "2981-8103".into(),
        8104..=22026 => "8104-22026".into(),
        _ => ">22026".into(),
    }
}

/// blst's Pippenger through `G1Projective::multi_exp` and `msm_specific` (both dispatch targets).
pub fn run_bls_specific(ctx: &mut Ctx, case: &Case<midnight_curves::G1Affine>, mode: Mode, which: &str, t: usize) {
    use midnight_curves::{Fq, G1Affine, G1Projective};
    use midnight_proofs::poly::kzg::msm::msm_specific;
    let len = case.logs.len();
    let proj: Vec<G1Projective> = case.bases.iter().map(|b| b.to_curve()).collect();
    let res = catch(|| match which {
        "multiexp" => G1Projective::multi_exp(&proj, &case.scalars),
        "specific-blst" => pool(t).install(|| msm_specific::<G1Affine>(&case.scalars, &proj)),
        _ => unreachable!(),
    });
    let op = format!("msm bls {which} {t} 0x0 32 {}", pairs_str(case));
    let ans = match &res {
        Ok(p) => affine_str::<G1Affine>(p),
        Err(_) => "panic".to_string(),
    };
    let _ = Fq::ONE;
    ctx.case(&format!("msm-bls-{which}"), len > 1, &op, &ans);
    ctx.count(&format!("msm-len:{}", len_class(len)));
    ctx.count(&format!("msm-mode:{mode:?}"));
    for c in &case.classes {
        ctx.count(&format!("msm-class:{c}"));
    }
    let exp = expected(case, None);
    if !matches!(&res, Ok(p) if *p == exp) {
        ctx.oracle_fail(
            &format!("msm:bls:{which}:{mode:?}:len{}", len_class(len)),
            &format!("{which} does not return the sum of scalar-times-base"),
            serde_json::json!({"entry": which, "len": len, "mode": format!("{mode:?}"), "got": ans,
                "expected": affine_str::<G1Affine>(&exp),
                "pairs_log_of_base:scalar": pairs_str(case).chars().take(4000).collect::<String>()}),
        );
    }
}

/// `msm_specific` on a curve that is not BLS12-381 G1: zero filter, `batch_normalize`, `msm_best`.
pub fn run_bn_specific(ctx: &mut Ctx, case: &Case<midnight_curves::bn256::G1Affine>, mode: Mode, t: usize) {
    use midnight_curves::bn256::{G1Affine, G1};
    use midnight_proofs::poly::kzg::msm::msm_specific;
    let len = case.logs.len();
    let proj: Vec<G1> = case.bases.iter().map(|b| b.to_curve()).collect();
    let res = catch(|| pool(t).install(|| msm_specific::<G1Affine>(&case.scalars, &proj)));
    let op = format!("msm bn specific-best {t} 0x0 32 {}", pairs_str(case));
    let ans = match &res {
        Ok(p) => affine_str::<G1Affine>(p),
        Err(_) => "panic".to_string(),
    };
    ctx.case("msm-bn-specific-best", len > 1, &op, &ans);
    ctx.count(&format!("msm-len:{}", len_class(len)));
    ctx.count(&format!("msm-mode:{mode:?}"));
    let exp = expected(case, None);
    if !matches!(&res, Ok(p) if *p == exp) {
        ctx.oracle_fail(
            &format!("msm:bn:specific-best:{mode:?}:len{}", len_class(len)),
            "msm_specific (generic path) does not return the sum of scalar-times-base",
            serde_json::json!({"len": len, "mode": format!("{mode:?}"), "got": ans, "threads": t,
                "expected": affine_str::<G1Affine>(&exp),
                "pairs_log_of_base:scalar": pairs_str(case).chars().take(4000).collect::<String>()}),
        );
    }
}

/// `get_booth_index` through the hook: digit rows of whole scalars.
pub fn run_booth(ctx: &mut Ctx) {
    let mut rng = ctx.rng("booth");
    // exhaustive: 2-byte scalars, w ≤ 8 (quick: w ≤ 4 plus a stride)
    let wmax = if ctx.quick() { 5 } else { 8 };
    for w in 1..=wmax {
        let n = 16 / w + 2;
        let step = if ctx.quick() { 7 } else { 1 };
        let mut v = 0u32;
        while v < 1 << 16 {
            let el = (v as u16).to_le_bytes();
            let row: Vec<i32> = (0..n).map(|i| msm::verif_get_booth_index(i, w, &el)).collect();
            ctx.case("booth-2byte", v > 1, &format!("booth {w} 2 0x{v:x} {n}"), &mzkh::join(&row));
            v += step;
        }
    }
    // sampled: 32-byte scalars, every window size 1..24, all windows (one past the top)
    let reps = if ctx.quick() { 12 } else { 200 };
    let r = fe_big(&-midnight_curves::Fq::ONE) + BigUint::one();
    for w in 1..=24usize {
        for k in 0..reps {
            let (v, _) = scalar_class::<midnight_curves::Fq>(&mut rng, &r, (k % 12) as u32);
            let mut el = v.to_bytes_le();
            el.resize(32, 0);
            let n = 256 / w + 2;
            let row: Vec<i32> = (0..n).map(|i| msm::verif_get_booth_index(i, w, &el)).collect();
            ctx.case("booth-32byte", true, &format!("booth {w} 32 {} {n}", big_hex(&v)), &mzkh::join(&row));
            // oracle: the digits recompose the scalar (the statement MSM correctness rests on)
            let mut acc = num_bigint::BigInt::zero();
            for (i, d) in row.iter().enumerate() {
                acc += num_bigint::BigInt::from(*d) << (w * i);
            }
            if acc != num_bigint::BigInt::from(v.clone()) {
                ctx.oracle_fail(
                    &format!("booth:w{w}"),
                    "Booth digits of get_booth_index do not recompose the scalar",
                    serde_json::json!({"w": w, "scalar": big_hex(&v), "digits": mzkh::join(&row)}),
                );
            }
        }
        // full-width byte strings (all 0xff): the 32-byte input need not be a reduced scalar
        let el = [0xffu8; 32];
        let n = 256 / w + 2;
        let row: Vec<i32> = (0..n).map(|i| msm::verif_get_booth_index(i, w, &el)).collect();
        let v = (BigUint::one() << 256) - BigUint::one();
        ctx.case("booth-32byte", true, &format!("booth {w} 32 {} {n}", big_hex(&v)), &mzkh::join(&row));
    }
}
