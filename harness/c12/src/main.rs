//! Correspondence harness of property C12 (MSM, FFT, evaluation-domain algebra).
use std::sync::Mutex;

use midnight_proofs::utils::arithmetic::parallelize;
use mzkh::Ctx;
use num_bigint::BigUint;
use num_traits::{One, Zero};

mod batch;
mod msm;
mod par;
mod poly;
use msm::{gen_case, pool, run_bls_specific, run_bn_specific, run_booth, run_generic, BasePool, Entry, Mode, POOLS};

/// `parallelize`: the (offset, length) pairs the workers receive, and whether every index was
/// visited exactly once with the right offset (the oracle: index-wise map equals the serial map).
fn run_parallelize(ctx: &mut Ctx) {
    let lens: Vec<usize> = if ctx.quick() {
        (0..=70).chain([97, 127, 128, 129, 255, 256, 257, 511, 513, 1000, 1023, 1025, 4096]).collect()
    } else {
        (0..=300).chain([511, 512, 513, 1000, 4095, 4096, 4097, 65537]).collect()
    };
    for t in par::POOLS9 {
        let p = pool(t);
        for &len in &lens {
            let seen = Mutex::new(Vec::new());
            let mut v = vec![0usize; len];
            p.install(|| {
                parallelize(&mut v, |chunk, offset| {
                    seen.lock().unwrap().push((offset, chunk.len()));
                    for (i, x) in chunk.iter_mut().enumerate() {
                        *x += offset + i + 1;
                    }
                })
            });
            let mut seen = seen.into_inner().unwrap();
            seen.sort();
            let ans = seen.iter().map(|(o, l)| format!("{o}:{l}")).collect::<Vec<_>>().join(" ");
            ctx.case("chunks", len > t, &format!("chunks {len} {t}"), &ans);
            if v.iter().enumerate().any(|(i, x)| *x != i + 1) {
                ctx.oracle_fail(
                    &format!("parallelize:{len}:{t}"),
                    "parallelize does not visit every index exactly once with its true offset",
                    serde_json::json!({"len": len, "threads": t}),
                );
            }
        }
    }
}

const SPECIAL_MODES: [Mode; 8] = [
    Mode::Random,
    Mode::SameBase,
    Mode::OppositePairs,
    Mode::AllIdentity,
    Mode::ZeroScalars,
    Mode::MaxScalars,
    Mode::ShortScalars(2),
    Mode::TopBits,
];

fn run_msm(ctx: &mut Ctx) {
    use midnight_curves::{bn256, G1Affine};
    let quick = ctx.quick();
    let mut rng = ctx.rng("msm");
    let bls: BasePool<G1Affine> = BasePool::new(&mut rng, if quick { 3000 } else { 12000 });
    let bn: BasePool<bn256::G1Affine> = BasePool::new(&mut rng, if quick { 1500 } else { 6000 });
    // generators as the implementation sees them
    ctx.case("gen", true, "gen bls", &format!("{} on", msm::affine_str::<G1Affine>(&<G1Affine as group::prime::PrimeCurveAffine>::generator().into())));
    ctx.case("gen", true, "gen bn", &format!("{} on", msm::affine_str::<bn256::G1Affine>(&<bn256::G1Affine as group::prime::PrimeCurveAffine>::generator().into())));

    let boundary: Vec<usize> = vec![1, 2, 3, 4, 5, 31, 32, 33, 54, 55, 70];
    let sampled: Vec<usize> = if quick {
        vec![148, 149, 403, 404, 1096, 1097, 2980, 2981, 4096]
    } else {
        vec![71, 100, 147, 148, 149, 150, 255, 256, 402, 403, 404, 405, 767, 768, 769, 1000, 1095, 1096, 1097, 1098, 2048,
             2979, 2980, 2981, 2982, 4095, 4096]
    };
    let reps = if quick { 1 } else { 3 };

    // ---- msm_serial (BLS): every length 0..70, accumulator zero and non-zero
    for rep in 0..reps {
        for len in 0..=70usize {
            let case = gen_case(&mut rng, &bls, len, Mode::Mixed);
            run_generic(ctx, "bls", &case, Entry::Serial(BigUint::zero()), Mode::Mixed);
            let case = gen_case(&mut rng, &bls, len, Mode::Mixed);
            run_generic(ctx, "bls", &case, Entry::Serial(BigUint::from(1u32 + rep as u32 * 7)), Mode::Mixed);
        }
    }
    for &len in boundary.iter().chain(if quick { [].iter() } else { sampled.iter() }) {
        for mode in SPECIAL_MODES.iter().chain([Mode::ShortScalars(1), Mode::ShortScalars(31)].iter()) {
            let case = gen_case(&mut rng, &bls, len, *mode);
            run_generic(ctx, "bls", &case, Entry::Serial(BigUint::zero()), *mode);
            let case = gen_case(&mut rng, &bls, len, *mode);
            run_generic(ctx, "bls", &case, Entry::Serial(BigUint::one()), *mode);
        }
    }
    for &len in &sampled {
        let case = gen_case(&mut rng, &bls, len, Mode::Mixed);
        run_generic(ctx, "bls", &case, Entry::Serial(BigUint::from(3u32)), Mode::Mixed);
    }

    // ---- msm_parallel (BLS): every length 0..70 on every pool
    for t in POOLS {
        for len in 0..=70usize {
            let case = gen_case(&mut rng, &bls, len, Mode::Mixed);
            run_generic(ctx, "bls", &case, Entry::Parallel(t), Mode::Mixed);
        }
        for &len in &sampled {
            if quick && !(t == 3 || t == 16) {
                continue;
            }
            let case = gen_case(&mut rng, &bls, len, Mode::Mixed);
            run_generic(ctx, "bls", &case, Entry::Parallel(t), Mode::Mixed);
        }
        for &len in &boundary {
            for mode in SPECIAL_MODES.iter() {
                if quick && (len + t) % 3 != 0 {
                    continue;
                }
                let case = gen_case(&mut rng, &bls, len, *mode);
                run_generic(ctx, "bls", &case, Entry::Parallel(t), *mode);
            }
        }
    }

    // ---- msm_best (BLS): small lengths delegate to msm_parallel; the batch-affine path needs
    // ceil(ln len) >= 10, i.e. len >= 8104
    for t in POOLS {
        for len in 0..=70usize {
            if quick && (len + t) % 2 != 0 {
                continue;
            }
            let case = gen_case(&mut rng, &bls, len, Mode::Mixed);
            run_generic(ctx, "bls", &case, Entry::Best(t), Mode::Mixed);
        }
    }
    for &len in &sampled {
        for t in [2usize, 16] {
            let case = gen_case(&mut rng, &bls, len, Mode::Mixed);
            run_generic(ctx, "bls", &case, Entry::Best(t), Mode::Mixed);
        }
    }
    let big: Vec<(usize, usize, Mode)> = if quick {
        vec![(8103, 5, Mode::Mixed), (8104, 1, Mode::NoIdentity), (8104, 2, Mode::Mixed), (8104, 3, Mode::AllIdentity), (8104, 16, Mode::SameBase), (8200, 3, Mode::OppositePairs), (8500, 8, Mode::Random)]
    } else {
        let mut v = vec![];
        for (i, len) in [8103usize, 8104, 8105, 8192, 9000, 12000, 16384, 22026, 22027].iter().enumerate() {
            for (j, mode) in [Mode::Mixed, Mode::SameBase, Mode::OppositePairs, Mode::Random, Mode::NoIdentity, Mode::AllIdentity, Mode::MaxScalars, Mode::TopBits, Mode::ShortScalars(2), Mode::ZeroScalars].iter().enumerate() {
                if *len > 12000 && j > 3 {
                    continue;
                }
                v.push((*len, POOLS[(i + j) % 6], *mode));
            }
        }
        v
    };
    for (len, t, mode) in big {
        let case = gen_case(&mut rng, &bls, len, mode);
        run_generic(ctx, "bls", &case, Entry::Best(t), mode);
    }

    // ---- blst Pippenger: multi_exp and msm_specific (zero filter)
    for len in (1..=70usize).chain(sampled.iter().cloned()) {
        let case = gen_case(&mut rng, &bls, len, Mode::Mixed);
        run_bls_specific(ctx, &case, Mode::Mixed, "multiexp", 1);
    }
    for len in (0..=70usize).chain(sampled.iter().cloned()) {
        let case = gen_case(&mut rng, &bls, len, Mode::Mixed);
        run_bls_specific(ctx, &case, Mode::Mixed, "specific-blst", POOLS[len % 6]);
    }
    for &len in &boundary {
        for mode in SPECIAL_MODES.iter() {
            let case = gen_case(&mut rng, &bls, len, *mode);
            run_bls_specific(ctx, &case, *mode, "multiexp", 1);
            let case = gen_case(&mut rng, &bls, len, *mode);
            run_bls_specific(ctx, &case, *mode, "specific-blst", 4);
        }
    }

    // ---- pure-Rust curve (bn256): the same generic code on another `CurveAffine`
    for len in 0..=(if quick { 40usize } else { 70 }) {
        let case = gen_case(&mut rng, &bn, len, Mode::Mixed);
        run_generic(ctx, "bn", &case, Entry::Serial(BigUint::from(len as u32 % 3)), Mode::Mixed);
        let case = gen_case(&mut rng, &bn, len, Mode::Mixed);
        run_generic(ctx, "bn", &case, Entry::Best(POOLS[len % 6]), Mode::Mixed);
        let case = gen_case(&mut rng, &bn, len, Mode::Mixed);
        run_bn_specific(ctx, &case, Mode::Mixed, POOLS[(len + 1) % 6]);
    }
    for &len in &boundary {
        for mode in SPECIAL_MODES.iter() {
            let case = gen_case(&mut rng, &bn, len, *mode);
            run_generic(ctx, "bn", &case, Entry::Parallel(POOLS[len % 6]), *mode);
            let case = gen_case(&mut rng, &bn, len, *mode);
            run_bn_specific(ctx, &case, *mode, 2);
        }
    }
    let bn_big: Vec<(usize, usize, Mode)> = if quick {
        vec![(8104, 3, Mode::Mixed), (8110, 16, Mode::OppositePairs)]
    } else {
        vec![(8103, 2, Mode::NoIdentity), (8104, 1, Mode::Mixed), (8104, 4, Mode::AllIdentity), (8104, 16, Mode::SameBase), (8105, 5, Mode::OppositePairs),
             (9000, 8, Mode::Random), (8200, 3, Mode::MaxScalars), (8300, 2, Mode::TopBits)]
    };
    for (len, t, mode) in bn_big {
        let case = gen_case(&mut rng, &bn, len, mode);
        run_generic(ctx, "bn", &case, Entry::Best(t), mode);
        let case = gen_case(&mut rng, &bn, len, mode);
        run_bn_specific(ctx, &case, mode, t);
    }
}

/// Inputs on which the anchored code is known / suspected to leave its documented domain.
fn run_edge_probes(ctx: &mut Ctx) {
    use ff::Field;
    use group::{prime::PrimeCurveAffine, Group};
    use midnight_curves::{msm::msm_best, Fq, G1Affine, G1Projective};
    // (1) regression: identity bases in the batch-affine path of msm_best (len >= 8104) used to
    // panic (fixed in /repo by "fix: msm_best skips identity bases in the batch-affine path")
    let mut rng = ctx.rng("edge");
    let bls: BasePool<G1Affine> = BasePool::new(&mut rng, 64);
    for (what, mode) in [("all-identity", Mode::AllIdentity), ("some-identity", Mode::Mixed)] {
        let case = gen_case(&mut rng, &bls, 8104, mode);
        let mut k = Fq::ZERO;
        for (b, s) in case.logs.iter().zip(case.scalars.iter()) {
            k += mzkh::fe_from_big::<Fq>(b) * s;
        }
        let exp = G1Projective::generator() * k;
        let res = mzkh::catch(|| pool(4).install(|| msm_best(&case.scalars, &case.bases)));
        ctx.count(&format!("probe:msm_best-identity-base:{what}"));
        if !matches!(&res, Ok(p) if *p == exp) {
            ctx.oracle_fail(
                "msm_best:identity-base:batch-affine",
                "msm_best with >= 8104 bases (batch-affine path) fails when a base is the identity",
                serde_json::json!({"len": 8104, "bases": what,
                    "minimal": "msm_best(&vec![Fq::ONE; 8104], &vec![G1Affine::identity(); 8104])",
                    "result": match &res { Ok(_) => "wrong point".to_string(), Err(m) => format!("panic: {m}") }}),
            );
        }
    }
    // (2) regression: the blst wrapper on the empty input used to panic (the binding indexes
    // `points[0]`); fixed in /repo: the empty sum is the identity
    let res = mzkh::catch(|| G1Projective::multi_exp(&[], &[]));
    let ans = match &res {
        Ok(p) => msm::affine_str::<G1Affine>(p),
        Err(_) => "panic".to_string(),
    };
    ctx.case("msm-bls-multiexp", false, "msm bls multiexp 1 0x0 32 -", &ans);
    if !matches!(&res, Ok(p) if bool::from(p.is_identity())) {
        ctx.oracle_fail("multi_exp:empty-input", "G1Projective::multi_exp on the empty input does not return the identity",
            serde_json::json!({"minimal": "G1Projective::multi_exp(&[], &[])", "result": ans}));
    }
    let _ = G1Affine::identity();
}

/// Run one section; a panic that escapes the per-case `catch` is itself reported (the inputs are
/// all inside the documented domain of the entry points).
fn section(ctx: &mut Ctx, name: &str, f: impl FnOnce(&mut Ctx)) {
    if let Err(m) = mzkh::catch(|| f(ctx)) {
        ctx.oracle_fail(
            &format!("section-panic:{name}"),
            "the implementation panicked outside the per-case guard while the harness exercised it",
            serde_json::json!({"section": name, "message": m}),
        );
    }
}

fn main() {
    let mut ctx = Ctx::from_args("C12");
    section(&mut ctx, "parallelize", run_parallelize);
    section(&mut ctx, "booth", run_booth);
    section(&mut ctx, "msm", run_msm);
    section(&mut ctx, "edge", run_edge_probes);
    section(&mut ctx, "batch", batch::run_batch);
    section(&mut ctx, "fft", poly::run_fft);
    section(&mut ctx, "eval-kate-interp", poly::run_eval_kate_interp);
    section(&mut ctx, "inner-const", poly::run_inner_const);
    section(&mut ctx, "domain", poly::run_domain);
    section(&mut ctx, "commit", poly::run_commit);
    section(&mut ctx, "par-maps", par::run_par_maps);
    section(&mut ctx, "par-setup-domain", par::run_par_setup_domain);
    section(&mut ctx, "helpers", par::run_helpers);
    section(&mut ctx, "g2-unreduced", par::run_g2_and_unreduced);
    section(&mut ctx, "best-loop", par::run_best_loop);
    ctx.finish();
}
