//! Correspondence harness of property C12 (MSM, FFT, evaluation-domain algebra).
use std::sync::Mutex;

use midnight_proofs::utils::arithmetic::parallelize;
use mzkh::Ctx;

fn pool(t: usize) -> rayon::ThreadPool {
    rayon::ThreadPoolBuilder::new().num_threads(t).build().unwrap()
}

/// `parallelize`: the (offset, length) pairs the workers receive, and whether every index was
/// visited exactly once with the right offset (the oracle: index-wise map equals the serial map).
fn run_parallelize(ctx: &mut Ctx) {
    let lens: Vec<usize> = if ctx.quick() {
        (0..=70).chain([97, 128, 255, 1000, 4096]).collect()
    } else {
        (0..=300).chain([511, 512, 513, 1000, 4095, 4096, 4097, 65537]).collect()
    };
    for t in [1usize, 2, 3, 5, 8, 16] {
        let p = pool(t);
        for &len in &lens {
            let seen = Mutex::new(Vec::new());
            let mut v = vec![0usize; len];
            p.install(|| {
                parallelize(&mut v, |chunk, offset| {
                    seen.lock().unwrap().push((offset, chunk.len()));
                    for (i, x) in chunk.iter_mut().enumerate() {
                        *x += offset + i + 1;
                    }
                })
            });
            let mut seen = seen.into_inner().unwrap();
            seen.sort();
            let ans = seen.iter().map(|(o, l)| format!("{o}:{l}")).collect::<Vec<_>>().join(" ");
            ctx.case("chunks", len > t, &format!("chunks {len} {t}"), &ans);
            if v.iter().enumerate().any(|(i, x)| *x != i + 1) {
                ctx.oracle_fail(
                    &format!("parallelize:{len}:{t}"),
                    "parallelize does not visit every index exactly once with its true offset",
                    serde_json::json!({"len": len, "threads": t}),
                );
            }
        }
    }
}

fn main() {
    let mut ctx = Ctx::from_args("C12");
    run_parallelize(&mut ctx);
    ctx.finish();
}
