//! FFT, polynomial helpers and `EvaluationDomain` against the Lean model, with direct oracles
//! (naive DFT / Horner / round trips) on the implementation.

use ff::{Field, PrimeField, WithSmallOrderMulGroup};
use group::{Curve, Group};
use midnight_curves::{fft::best_fft, Bls12, Fq, G1Affine, G1Projective};
use midnight_proofs::{
    poly::{
        commitment::PolynomialCommitmentScheme,
        kzg::{params::ParamsKZG, KZGCommitmentScheme},
        EvaluationDomain, Rotation,
    },
    utils::arithmetic::{compute_inner_product, eval_polynomial, g_to_lagrange, kate_division, lagrange_interpolate},
};
use mzkh::{catch, fe_hex, Ctx};
use rand::{Rng, RngCore};
use rand_chacha::ChaCha8Rng;
use serde_json::json;

use crate::msm::{affine_str, pool, POOLS};

fn hexl(v: &[Fq]) -> String {
    if v.is_empty() {
        "-".into()
    } else {
        v.iter().map(fe_hex).collect::<Vec<_>>().join(",")
    }
}

fn opt_hexl(v: &Result<Vec<Fq>, String>) -> String {
    match v {
        Ok(v) => hexl(v),
        Err(_) => "panic".into(),
    }
}

fn horner(p: &[Fq], x: Fq) -> Fq {
    p.iter().rev().fold(Fq::ZERO, |acc, c| acc * x + c)
}

fn omega_of(k: u32) -> Fq {
    let mut w = Fq::ROOT_OF_UNITY;
    for _ in k..Fq::S {
        w = w.square();
    }
    w
}

fn rand_vec(rng: &mut ChaCha8Rng, n: usize, class: usize) -> Vec<Fq> {
    match class % 5 {
        0 => (0..n).map(|_| Fq::random(&mut *rng)).collect(),
        1 => {
            let mut v = vec![Fq::ZERO; n];
            if n > 0 {
                let i = rng.gen_range(0..n);
                v[i] = Fq::ONE;
            }
            v
        }
        2 => vec![Fq::ONE; n],
        3 => (0..n).map(|i| if i % 3 == 0 { Fq::ZERO } else { -Fq::from(i as u64) }).collect(),
        _ => (0..n).map(|i| Fq::from(i as u64 + 1)).collect(),
    }
}

fn special_x(rng: &mut ChaCha8Rng, class: usize) -> Fq {
    match class % 5 {
        0 => Fq::ZERO,
        1 => Fq::ONE,
        2 => -Fq::ONE,
        3 => Fq::from(rng.next_u64()),
        _ => Fq::random(&mut *rng),
    }
}

pub fn run_fft(ctx: &mut Ctx) {
    let mut rng = ctx.rng("fft");
    let kmax: u32 = if ctx.quick() { 9 } else { 12 };
    for k in 0..=kmax {
        let n = 1usize << k;
        for (ti, t) in POOLS.iter().enumerate() {
            let nclass = if ctx.quick() { 2 } else { 5 };
            for class in 0..nclass {
                if ctx.quick() && k > 6 && (ti + class) % 3 != 0 {
                    continue;
                }
                let a = rand_vec(&mut rng, n, class + ti);
                // the documented use (primitive 2^k-th root), its inverse, and an arbitrary element
                let omega = match class % 3 {
                    0 => omega_of(k),
                    1 => omega_of(k).invert().unwrap(),
                    _ => Fq::random(&mut rng),
                };
                let primitive = class % 3 != 2;
                let mut out = a.clone();
                let res = catch(|| {
                    pool(*t).install(|| best_fft(&mut out, omega, k));
                });
                let ans = match res {
                    Ok(()) => hexl(&out),
                    Err(_) => "panic".into(),
                };
                ctx.case(if primitive { "fft" } else { "fft-any-omega" }, k > 0,
                    &format!("fft {t} {k} {} {}", fe_hex(&omega), hexl(&a)), &ans);
                ctx.count(&format!("fft-path:{}", if k <= (*t as u32).ilog2() { "iterative" } else { "recursive" }));
                // oracle: out[i] = a(omega^i), all i for small sizes, sampled otherwise
                if primitive {
                    let idx: Vec<usize> = if k <= 6 { (0..n).collect() } else { (0..8).map(|_| rng.gen_range(0..n)).collect() };
                    let bad = idx.iter().find(|&&i| out[i] != horner(&a, omega.pow_vartime([i as u64])));
                    if let Some(i) = bad {
                        ctx.oracle_fail(&format!("fft:k{k}:t{t}"), "best_fft is not the discrete Fourier transform",
                            json!({"k": k, "threads": t, "index": i, "omega": fe_hex(&omega), "input": hexl(&a).chars().take(3000).collect::<String>()}));
                    }
                }
            }
        }
    }
    // wrong length: assert_eq!(n, 1 << log_n)
    let mut a = vec![Fq::ONE; 3];
    let res = catch(|| best_fft(&mut a, omega_of(2), 2));
    ctx.case("fft-bad-len", false, &format!("fft 4 2 {} {}", fe_hex(&omega_of(2)), hexl(&[Fq::ONE; 3])),
        if res.is_ok() { "value" } else { "panic" });
}

pub fn run_eval_kate_interp(ctx: &mut Ctx) {
    let mut rng = ctx.rng("poly");
    // ---- eval_polynomial: every length 0..70 on every pool, then sampled
    let extra: Vec<usize> = if ctx.quick() { vec![97, 127, 128, 129, 255, 257, 511, 513, 1000, 1023, 1025, 4096] } else { vec![71, 97, 127, 128, 129, 255, 256, 257, 1000, 2047, 2048, 4095, 4096, 4097] };
    for (ti, t) in crate::par::POOLS9.iter().enumerate() {
        for n in (0..=70usize).chain(extra.iter().cloned()) {
            let reps = if ctx.quick() { 1 } else { 3 };
            for rep in 0..reps {
                let p = rand_vec(&mut rng, n, n + ti + rep);
                let x = special_x(&mut rng, n + rep + 4 * (n % 2));
                let res = catch(|| pool(*t).install(|| eval_polynomial(&p, x)));
                let ans = match &res {
                    Ok(v) => fe_hex(v),
                    Err(_) => "panic".into(),
                };
                ctx.case("evalpoly", n > 1, &format!("evalpoly {t} {} {}", fe_hex(&x), hexl(&p)), &ans);
                ctx.count(&format!("evalpoly-path:{}", if n * 2 < *t { "serial" } else { "chunked" }));
                if !matches!(&res, Ok(v) if *v == horner(&p, x)) {
                    ctx.oracle_fail(&format!("evalpoly:n{n}:t{t}"), "eval_polynomial differs from Horner evaluation",
                        json!({"n": n, "threads": t, "x": fe_hex(&x), "poly": hexl(&p).chars().take(3000).collect::<String>()}));
                }
            }
        }
    }
    // ---- kate_division
    let nmax = if ctx.quick() { 40 } else { 130 };
    for n in 1..=nmax {
        for class in 0..(if ctx.quick() { 3 } else { 6 }) {
            let mut a = rand_vec(&mut rng, n, class);
            let b = special_x(&mut rng, class + n);
            if class % 2 == 0 && n > 0 {
                // make b a root: exact division
                let v = horner(&a, b);
                a[0] -= v;
            }
            let res = catch(|| kate_division(&a, b));
            ctx.case("kate", n > 1, &format!("kate {} {}", fe_hex(&b), hexl(&a)), &opt_hexl(&res));
            // oracle: a(z) = q(z)(z - b) + a(b)
            let z = Fq::random(&mut rng);
            let ok = matches!(&res, Ok(q) if q.len() == n - 1 && horner(&a, z) == horner(q, z) * (z - b) + horner(&a, b));
            if !ok {
                ctx.oracle_fail(&format!("kate:n{n}"), "kate_division: a != q·(X - b) + a(b)",
                    json!({"b": fe_hex(&b), "a": hexl(&a)}));
            }
        }
    }
    // the empty dividend: `a.len() - 1`
    let res = catch(|| kate_division(&Vec::<Fq>::new(), Fq::ONE));
    ctx.case("kate-empty", false, "kate 0x1 -", &opt_hexl(&res));
    // ---- lagrange_interpolate
    let nmax = if ctx.quick() { 10 } else { 24 };
    for n in 0..=nmax {
        for class in 0..(if ctx.quick() { 2 } else { 5 }) {
            let mut xs: Vec<Fq> = match class % 3 {
                0 => (0..n).map(|_| Fq::random(&mut rng)).collect(),
                1 => (0..n).map(|i| Fq::from(i as u64)).collect(),
                _ => (0..n).map(|i| omega_of(5).pow_vartime([i as u64])).collect(),
            };
            if class == 4 && n >= 2 {
                xs[n - 1] = xs[0]; // repeated point: documented panic
            }
            let ys = rand_vec(&mut rng, n, class);
            let res = catch(|| lagrange_interpolate(&xs, &ys));
            ctx.case("interp", n > 1, &format!("interp {} {}", hexl(&xs), hexl(&ys)), &opt_hexl(&res));
            let dup = class == 4 && n >= 2;
            if !dup {
                let ok = matches!(&res, Ok(p) if p.len() == n && xs.iter().zip(ys.iter()).all(|(x, y)| horner(p, *x) == *y));
                if !ok {
                    ctx.oracle_fail(&format!("interp:n{n}"), "lagrange_interpolate does not interpolate",
                        json!({"xs": hexl(&xs), "ys": hexl(&ys)}));
                }
            }
        }
    }
}

/// `compute_inner_product` (every length 0..40, a length mismatch), and the constant / checked
/// constructors of `EvaluationDomain` (`constant_lagrange`, `constant_extended`, `empty_*`,
/// `lagrange_from_vec`, `coeff_from_vec`, `pinned`).
pub fn run_inner_const(ctx: &mut Ctx) {
    let mut rng = ctx.rng("inner");
    let lens: Vec<usize> = if ctx.quick() { (0..=40).collect() } else { (0..=70).chain([128, 1000]).collect() };
    for &n in &lens {
        let a = rand_vec(&mut rng, n, n);
        let b = rand_vec(&mut rng, n, n + 3);
        let res = catch(|| compute_inner_product(&a, &b));
        let ans = match &res {
            Ok(v) => fe_hex(v),
            Err(_) => "panic".into(),
        };
        ctx.case("inner", n > 1, &format!("inner {} {}", hexl(&a), hexl(&b)), &ans);
        let naive = a.iter().zip(b.iter()).fold(Fq::ZERO, |acc, (x, y)| acc + *x * *y);
        if !matches!(&res, Ok(v) if *v == naive) {
            ctx.oracle_fail(&format!("inner_product:len{n}"), "compute_inner_product is not the sum of the products",
                json!({"a": hexl(&a), "b": hexl(&b), "got": ans}));
        }
    }
    // the documented panic: different lengths
    let a = rand_vec(&mut rng, 3, 1);
    let b = rand_vec(&mut rng, 2, 1);
    let res = catch(|| compute_inner_product(&a, &b));
    ctx.case("inner-mismatch", false, &format!("inner {} {}", hexl(&a), hexl(&b)), if res.is_ok() { "value" } else { "panic" });

    let kmax: u32 = if ctx.quick() { 4 } else { 7 };
    for k in 1..=kmax {
        for j in [1u32, 2, 3, 5, 9] {
            let dom = EvaluationDomain::<Fq>::new(j, k);
            let n = 1usize << k;
            let c = special_x(&mut rng, (k + j) as usize);
            let cl = dom.constant_lagrange(c);
            ctx.case("domconst", true, &format!("domconst lagrange {j} {k} {}", fe_hex(&c)), &hexl(&cl));
            let ce = dom.constant_extended(c);
            ctx.case("domconst", true, &format!("domconst extended {j} {k} {}", fe_hex(&c)), &hexl(&ce));
            ctx.case("domconst", false, &format!("domconst lagrange {j} {k} 0x0"), &hexl(&dom.empty_lagrange()));
            ctx.case("domconst", false, &format!("domconst extended {j} {k} 0x0"), &hexl(&dom.empty_extended()));
            // oracle: the constant Lagrange vector is the constant polynomial; `empty_coeff` is zero
            let coeff = dom.lagrange_to_coeff(cl.clone());
            let ok = coeff[0] == c && coeff[1..].iter().all(|v| *v == Fq::ZERO)
                && ce.len() == dom.extended_len() && ce.iter().all(|v| *v == c)
                && dom.empty_coeff().iter().all(|v| *v == Fq::ZERO) && dom.empty_coeff().len() == n;
            if !ok {
                ctx.oracle_fail(&format!("constant_lagrange:k{k}"), "constant_lagrange / constant_extended / empty_coeff are not the constant polynomial",
                    json!({"j": j, "k": k, "c": fe_hex(&c)}));
            }
            // checked constructors: right length accepted unchanged, wrong lengths panic
            for len in [n, n + 1, n.saturating_sub(1)] {
                let v = rand_vec(&mut rng, len, len);
                let r1 = catch(|| dom.lagrange_from_vec(v.clone()).to_vec());
                let r2 = catch(|| dom.coeff_from_vec(v.clone()).to_vec());
                ctx.case("domfromvec", len == n, &format!("domfromvec {j} {k} {}", hexl(&v)), &opt_hexl(&r1));
                if opt_hexl(&r1) != opt_hexl(&r2) {
                    ctx.oracle_fail("coeff_from_vec:differs", "coeff_from_vec and lagrange_from_vec disagree on the length check", json!({"k": k, "len": len}));
                }
            }
            // `pinned()` (hashed into the verifying key's transcript representation): exactly
            // (k, extended_k, omega)
            let pinned = format!("{:?}", dom.pinned());
            let expect = format!("PinnedEvaluationDomain {{ k: {:?}, extended_k: {:?}, omega: {:?} }}", dom.k(), dom.extended_k(), dom.get_omega());
            ctx.count("pinned");
            if pinned != expect {
                ctx.oracle_fail("pinned:fields", "EvaluationDomain::pinned() is not (k, extended_k, omega)", json!({"got": pinned, "expected": expect}));
            }
        }
    }
}

pub fn run_domain(ctx: &mut Ctx) {
    let mut rng = ctx.rng("domain");
    let kmax: u32 = if ctx.quick() { 6 } else { 10 };
    for k in 1..=kmax {
        for j in 1..=9u32 {
            if ctx.quick() && k > 4 && !(j == 1 || j == 2 || j == 4 || j == 9) {
                continue;
            }
            let dom = match catch(|| EvaluationDomain::<Fq>::new(j, k)) {
                Ok(d) => d,
                Err(_) => {
                    ctx.case("dominfo", true, &format!("dominfo {j} {k}"), "panic");
                    continue;
                }
            };
            let n = 1usize << k;
            let en = dom.extended_len();
            ctx.case("dominfo", true, &format!("dominfo {j} {k}"), &format!("{} {} {} {} {} {} {}",
                n, dom.k(), dom.extended_k(), dom.get_quotient_poly_degree(), fe_hex(&dom.get_omega()),
                fe_hex(&dom.get_omega_inv()), fe_hex(&dom.get_extended_omega())));
            ctx.count(&format!("domain-ext:{}", dom.extended_k() - k));
            let t = POOLS[((k + j) as usize) % 6];
            let class = (k + j) as usize;
            // Lagrange <-> coefficient
            let a = rand_vec(&mut rng, n, class);
            let c = pool(t).install(|| dom.lagrange_to_coeff(dom.lagrange_from_vec(a.clone())));
            ctx.case("dom-l2c", true, &format!("dom l2c {t} {j} {k} {}", hexl(&a)), &hexl(&c));
            let back = pool(t).install(|| dom.coeff_to_lagrange(c.clone()));
            ctx.case("dom-c2l", true, &format!("dom c2l {t} {j} {k} {}", hexl(&c)), &hexl(&back));
            let w = dom.get_omega();
            if back[..] != a[..] || (0..n).any(|i| horner(&c, w.pow_vartime([i as u64])) != a[i]) {
                ctx.oracle_fail(&format!("domain:l2c:k{k}"), "lagrange_to_coeff / coeff_to_lagrange are not inverse interpolation / evaluation",
                    json!({"j": j, "k": k, "threads": t, "values": hexl(&a)}));
            }
            // coefficient -> extended (coset) and back
            let ext = pool(t).install(|| dom.coeff_to_extended(c.clone()));
            ctx.case("dom-c2e", true, &format!("dom c2e {t} {j} {k} {}", hexl(&c)), &hexl(&ext));
            let zeta = Fq::ZETA;
            let ew = dom.get_extended_omega();
            let sample: Vec<usize> = (0..6).map(|_| rng.gen_range(0..en)).collect();
            if sample.iter().any(|&i| ext[i] != horner(&c, zeta * ew.pow_vartime([i as u64]))) {
                ctx.oracle_fail(&format!("domain:c2e:k{k}:j{j}"), "coeff_to_extended is not evaluation on the zeta-coset of the extended domain",
                    json!({"j": j, "k": k, "threads": t, "coeffs": hexl(&c)}));
            }
            let extv: Vec<Fq> = ext.to_vec();
            let back_c = pool(t).install(|| dom.extended_to_coeff(ext.clone()));
            ctx.case("dom-e2c", true, &format!("dom e2c {t} {j} {k} {}", hexl(&extv)), &hexl(&back_c));
            let mut padded = c.to_vec();
            padded.resize(en, Fq::ZERO);
            if back_c != padded {
                ctx.oracle_fail(&format!("domain:e2c:k{k}:j{j}"), "extended_to_coeff does not invert coeff_to_extended",
                    json!({"j": j, "k": k, "threads": t}));
            }
            let back_l = pool(t).install(|| dom.extended_to_lagrange(ext.clone()));
            ctx.case("dom-e2l", true, &format!("dom e2l {t} {j} {k} {}", hexl(&extv)), &hexl(&back_l));
            if back_l[..] != a[..] {
                ctx.oracle_fail(&format!("domain:e2l:k{k}:j{j}"), "extended_to_lagrange(coeff_to_extended(p)) differs from the Lagrange form of p",
                    json!({"j": j, "k": k, "threads": t}));
            }
            // division by the vanishing polynomial X^n - 1 on the coset
            let mut h = dom.empty_extended();
            let mut prod = Vec::with_capacity(en);
            for i in 0..en {
                let pt = zeta * ew.pow_vartime([i as u64]);
                let tv = pt.pow_vartime([n as u64]) - Fq::ONE;
                prod.push(ext[i] * tv);
            }
            for (dst, src) in h.iter_mut().zip(prod.iter()) {
                *dst = *src;
            }
            let q = pool(t).install(|| dom.divide_by_vanishing_poly(h));
            ctx.case("dom-divvanish", true, &format!("dom divvanish {t} {j} {k} {}", hexl(&prod)), &hexl(&q));
            if q[..] != ext[..] {
                ctx.oracle_fail(&format!("domain:divvanish:k{k}:j{j}"), "divide_by_vanishing_poly does not divide by X^n - 1 on the coset",
                    json!({"j": j, "k": k, "threads": t}));
            }
            // rotations
            if j <= 2 {
                let v = Fq::random(&mut rng);
                for r in [-3i32, -2, -1, 0, 1, 2, 3, n as i32, -(n as i32) - 1, 1 << 20] {
                    let got = dom.rotate_omega(v, Rotation(r));
                    ctx.case("domrot", true, &format!("domrot {j} {k} {} {r}", fe_hex(&v)), &fe_hex(&got));
                    let e = (r as i64).rem_euclid(n as i64) as u64;
                    if got != v * w.pow_vartime([e]) {
                        ctx.oracle_fail(&format!("domain:rotate_omega:k{k}"), "rotate_omega(v, r) != v·omega^r",
                            json!({"k": k, "r": r, "v": fe_hex(&v)}));
                    }
                }
                let lag = dom.lagrange_from_vec(a.clone());
                for r in [-3i32, -2, -1, 0, 1, 2, 3, n as i32, n as i32 + 1, -(n as i32) - 1, i32::MIN, i32::MAX] {
                    let res = catch(|| lag.rotate(Rotation(r)).to_vec());
                    ctx.case("polyrot", true, &format!("polyrot {r} {}", hexl(&a)), &opt_hexl(&res));
                    // rotated polynomial evaluates like p(omega^r X): rv[i] = a[i + r mod n]
                    // (|r| > n used to panic; fixed in /repo, regression case kept)
                    let ok = matches!(&res, Ok(rv) if (0..n).all(|i| rv[i] == a[(i as i64 + r as i64).rem_euclid(n as i64) as usize]));
                    if !ok {
                        ctx.oracle_fail(
                            &if (r as i64).unsigned_abs() > n as u64 { "polynomial-rotate:beyond-n".to_string() } else { format!("domain:rotate:k{k}") },
                            "Polynomial::rotate is not the index shift by r (mod n)",
                            json!({"k": k, "r": r, "values": hexl(&a)}));
                    }
                }
                // l_i
                let x = Fq::random(&mut rng);
                let xn = x.pow_vartime([n as u64]);
                let ranges: Vec<Vec<i32>> = vec![
                    (-3..=3).collect(),
                    (0..(n as i32 + 3)).collect(),
                    (-(n as i32) - 2..=0).collect(),
                    vec![0],
                    vec![],
                    vec![5, -5, 5, 0, 0],
                ];
                for rots in &ranges {
                    let got = dom.l_i_range(x, xn, rots.iter().cloned());
                    ctx.case("domli", !rots.is_empty(), &format!("domli {j} {k} {} {} {}", fe_hex(&x), fe_hex(&xn), mzkh::join(rots)), &hexl(&got));
                    if k <= 5 {
                        for (r, g) in rots.iter().zip(got.iter()) {
                            let i = (*r as i64).rem_euclid(n as i64) as usize;
                            let mut e = vec![Fq::ZERO; n];
                            e[i] = Fq::ONE;
                            let li = dom.lagrange_to_coeff(dom.lagrange_from_vec(e));
                            if horner(&li, x) != *g {
                                ctx.oracle_fail(&format!("domain:l_i:k{k}"), "l_i_range differs from the evaluation of the Lagrange basis polynomial",
                                    json!({"k": k, "rotation": r, "x": fe_hex(&x)}));
                                break;
                            }
                        }
                    }
                }
                // x inside the domain: the barycentric formula degenerates (batch_invert leaves 0)
                let xd = w.pow_vartime([2u64]);
                let got = dom.l_i_range(xd, Fq::ONE, -3..=3);
                ctx.case("domli-x-in-domain", true, &format!("domli {j} {k} {} 0x1 -3,-2,-1,0,1,2,3", fe_hex(&xd)), &hexl(&got));
                // the Lagrange basis at a domain point is the Kronecker delta (known finding:
                // the barycentric formula returns 0 everywhere)
                let ok = (-3i32..=3).zip(got.iter()).all(|(r, v)| {
                    let hit = (r as i64 - 2).rem_euclid(n as i64) == 0;
                    *v == if hit { Fq::ONE } else { Fq::ZERO }
                });
                if !ok {
                    ctx.oracle_fail("l_i_range:x-in-domain", "l_i_range evaluated at a domain point does not return the Kronecker delta",
                        json!({"j": j, "k": k, "x": "omega^2", "got": hexl(&got)}));
                }
            }
        }
    }
    // j = 0: `(j - 1) as u64`
    let res = catch(|| EvaluationDomain::<Fq>::new(0, 3));
    ctx.case("dominfo", false, "dominfo 0 3", if res.is_ok() { "value" } else { "panic" });
}

pub fn run_commit(ctx: &mut Ctx) {
    let mut rng = ctx.rng("commit");
    let kmax: u32 = if ctx.quick() { 5 } else { 8 };
    for k in 1..=kmax {
        let n = 1usize << k;
        let setup_rng = rng.clone();
        let s = Fq::random(setup_rng.clone());
        let params: ParamsKZG<Bls12> = ParamsKZG::unsafe_setup(k, setup_rng);
        let _ = rng.next_u64();
        let dom = EvaluationDomain::<Fq>::new(1, k);
        // g_lagrange of the setup against g_to_lagrange(g) (used by from_parts / downsize)
        for t in [1usize, 3, 16] {
            let gl = pool(t).install(|| {
                let mut aff = vec![G1Affine::default(); n];
                let g: Vec<G1Projective> = params_g(&params, k);
                G1Projective::batch_normalize(&g, &mut aff);
                g_to_lagrange(&g, k)
            });
            if gl[..] != params.g_lagrange()[..] {
                ctx.oracle_fail(&format!("commit:g_to_lagrange:k{k}"), "g_to_lagrange(g) differs from the Lagrange basis of unsafe_setup",
                    json!({"k": k, "threads": t}));
            }
            ctx.count("g_to_lagrange-vs-setup");
        }
        for class in 0..(if ctx.quick() { 2 } else { 5 }) {
            let evals = rand_vec(&mut rng, n, class);
            let t = POOLS[(class + k as usize) % 6];
            let lag = dom.lagrange_from_vec(evals.clone());
            let c_lag = pool(t).install(|| <KZGCommitmentScheme<Bls12> as PolynomialCommitmentScheme<Fq>>::commit_lagrange(&params, &lag));
            let coeff = dom.lagrange_to_coeff(lag.clone());
            let c_coeff = pool(t).install(|| <KZGCommitmentScheme<Bls12> as PolynomialCommitmentScheme<Fq>>::commit(&params, &coeff));
            ctx.case("commit", true, &format!("commit {} {}", fe_hex(&s), hexl(&coeff)), &affine_str::<G1Affine>(&c_coeff));
            ctx.case("commitlag", true, &format!("commitlag {t} {k} {} {}", fe_hex(&s), hexl(&evals)), &affine_str::<G1Affine>(&c_lag));
            let exp = G1Projective::generator() * horner(&coeff, s);
            if c_lag != c_coeff || c_coeff != exp {
                ctx.oracle_fail(&format!("commit:lagrange-vs-coeff:k{k}"), "commit_lagrange(evals) != commit(coefficients) or != [p(s)]G",
                    json!({"k": k, "threads": t, "evals": hexl(&evals), "s": fe_hex(&s)}));
            }
        }
    }
    // g_to_lagrange on points with known logarithms
    for k in 0..=(if ctx.quick() { 3u32 } else { 5 }) {
        let n = 1usize << k;
        for t in [1usize, 2, 16] {
            let logs = rand_vec(&mut rng, n, k as usize + t);
            let pts: Vec<G1Projective> = logs.iter().map(|l| G1Projective::generator() * l).collect();
            let out = pool(t).install(|| g_to_lagrange(&pts, k));
            let ans = out.iter().map(|p| affine_str::<G1Affine>(p)).collect::<Vec<_>>().join(" ");
            ctx.case("g2l", true, &format!("g2l {t} {k} {}", hexl(&logs)), &ans);
        }
    }
}

fn params_g(params: &ParamsKZG<Bls12>, k: u32) -> Vec<G1Projective> {
    // `g` is crate-private: commit to the monomials X^i to read [s^i]G back
    let n = 1usize << k;
    let dom = EvaluationDomain::<Fq>::new(1, k);
    (0..n)
        .map(|i| {
            let mut c = vec![Fq::ZERO; n];
            c[i] = Fq::ONE;
            <KZGCommitmentScheme<Bls12> as PolynomialCommitmentScheme<Fq>>::commit(params, &dom.coeff_from_vec(c))
        })
        .collect()
}
