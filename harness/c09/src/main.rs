//! Correspondence harness of property C09: circuit structure never depends on witness or
//! instance values.
//!
//! For every operation circuit (built through the REAL `ZkStdLib` / ZKIR compiler) the circuit's
//! real `FloorPlanner::synthesize` is driven exactly as `keygen.rs` does, on a recording
//! `Assignment` backend (`rec::Rec`), with the unknown witness (keygen view) and with every
//! witness class. Oracle: the recorded structure (selectors, fixed cells with values, advice
//! positions, copies, table fills, instance queries, number of public inputs) is identical for
//! all of them; verifying-key bytes, cost model and MockProver fixed/selector/permutation tables
//! are identical; proofs made with the witness verify under the key made without it.
//! Correspondence: the Lean model of the single-pass floor planner recomputes, from the
//! region-relative log of a transparent spy layouter, the absolute placement of every region,
//! the whole absolute call sequence (as a digest) and the cost model; and from the final call
//! sequence the keygen view.

mod ops;
mod rec;
mod run;
mod spy;
mod zkir;
#[allow(dead_code)]
mod zkir_text;

pub type F = midnight_curves::Fq;

fn main() {
    let mut ctx = mzkh::Ctx::from_args("C09");
    run::run(&mut ctx);
    ctx.finish();
}
