//! Correspondence harness of property C09 (stub).
use mzkh::Ctx;

fn main() {
    let ctx = Ctx::from_args("C09");
    ctx.finish();
}
