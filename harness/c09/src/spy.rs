//! `SpyCircuit`: wraps a circuit so that a transparent `SpyLayouter` sits between the circuit's
//! `synthesize` and the REAL layouter created by the circuit's real `FloorPlanner`. The spy
//! forwards every call unchanged (through the public `Region`/`Layouter` API) and logs it in
//! region-relative form, once per invocation of the region closure (the single-pass layouter
//! invokes it twice: shape pass, assignment pass).
//!
//! The relative log is the input of the Lean model of the floor planner
//! (`MidnightZK.Model.C09.Planner`), whose output must reproduce the absolute calls recorded by
//! `rec::Rec` underneath the real layouter.

use std::{cell::RefCell, fmt, rc::Rc};

use midnight_proofs::{
    circuit::{
        layouter::RegionLayouter, Cell, Layouter, Region, Table, Value,
    },
    plonk::{
        Advice, Any, Challenge, Circuit, Column, ConstraintSystem, Error, Fixed, Instance,
        Selector,
    },
    utils::rational::Rational,
};
use mzkh::fe_hex;

use crate::{
    rec::{any_code, col_name},
    F,
};

/// (region index, offset, (kind, index))
pub type RCell = (usize, usize, (u8, usize));

fn rcell(c: &Cell) -> RCell {
    (*c.region_index, c.row_offset, any_code(&c.column))
}

#[derive(Clone, Debug, PartialEq, Eq)]
pub enum RelEv {
    Sel(usize, usize),
    Fix(usize, usize, Option<F>),
    Adv(usize, usize, Option<F>),
    AdvConst(usize, usize, F),
    /// instance column, instance row, advice column, offset
    AdvInst(usize, usize, usize, usize),
    Const(RCell, F),
    Equal(RCell, RCell),
    InstVal(usize, usize),
}

impl RelEv {
    /// The event without witness-dependent payload (advice values) and without the values the
    /// shape pass cannot see (fixed values are only evaluated by the assignment pass).
    pub fn shape_view(&self) -> RelEv {
        match self {
            RelEv::Adv(c, o, _) => RelEv::Adv(*c, *o, None),
            RelEv::Fix(c, o, _) => RelEv::Fix(*c, *o, None),
            e => e.clone(),
        }
    }
    pub fn erased(&self) -> RelEv {
        match self {
            RelEv::Adv(c, o, _) => RelEv::Adv(*c, *o, None),
            e => e.clone(),
        }
    }
    pub fn render(&self, with_values: bool) -> String {
        let cell = |c: &RCell| format!("{}.{}.{}", c.0, c.1, col_name(c.2 .0, c.2 .1));
        match self {
            RelEv::Sel(s, o) => format!("s{s}@{o}"),
            RelEv::Fix(c, o, v) => format!("f{c}@{o}={}", v.map(|v| fe_hex(&v)).unwrap_or("?".into())),
            RelEv::Adv(c, o, Some(v)) if with_values => format!("a{c}@{o}={}", fe_hex(v)),
            RelEv::Adv(c, o, _) => format!("a{c}@{o}"),
            RelEv::AdvConst(c, o, v) => format!("k{c}@{o}={}", fe_hex(v)),
            RelEv::AdvInst(ic, ir, c, o) => format!("n{ic}.{ir}>{c}@{o}"),
            RelEv::Const(c, v) => format!("c{}={}", cell(c), fe_hex(v)),
            RelEv::Equal(a, b) => format!("e{}~{}", cell(a), cell(b)),
            RelEv::InstVal(ic, ir) => format!("q{ic}.{ir}"),
        }
    }
}

#[derive(Clone, Debug)]
pub enum Item {
    Region { name: String, passes: Vec<Vec<RelEv>> },
    Table { name: String },
    /// `Layouter::constrain_instance`
    Inst(RCell, usize, usize),
}

#[derive(Default, Debug)]
pub struct SpyLog {
    pub items: Vec<Item>,
    pub namespaces: usize,
}

pub type Log = Rc<RefCell<SpyLog>>;

pub struct SpyCircuit<'a, C: Circuit<F>> {
    pub inner: &'a C,
    pub log: Log,
}

impl<C: Circuit<F>> Circuit<F> for SpyCircuit<'_, C> {
    type Config = C::Config;
    type FloorPlanner = C::FloorPlanner;
    type Params = C::Params;

    fn without_witnesses(&self) -> Self {
        unreachable!()
    }
    fn params(&self) -> Self::Params {
        self.inner.params()
    }
    fn configure_with_params(meta: &mut ConstraintSystem<F>, params: Self::Params) -> Self::Config {
        C::configure_with_params(meta, params)
    }
    fn configure(meta: &mut ConstraintSystem<F>) -> Self::Config {
        C::configure(meta)
    }
    fn synthesize(&self, config: Self::Config, layouter: impl Layouter<F>) -> Result<(), Error> {
        self.inner.synthesize(config, SpyLayouter { inner: layouter, log: self.log.clone() })
    }
}

/// The same circuit under the dual-pass `V1` floor planner (`floor_planner/v1.rs`): measurement
/// pass on `without_witnesses()`, placement by a first-fit strategy, assignment pass.
pub struct V1Circuit<'a, C: Circuit<F>> {
    pub inner: &'a C,
    /// the circuit with unknown witness (what `without_witnesses` must return)
    pub unknown: &'a C,
}

impl<C: Circuit<F>> Circuit<F> for V1Circuit<'_, C> {
    type Config = C::Config;
    type FloorPlanner = midnight_proofs::circuit::floor_planner::V1;
    type Params = C::Params;

    fn without_witnesses(&self) -> Self {
        V1Circuit { inner: self.unknown, unknown: self.unknown }
    }
    fn params(&self) -> Self::Params {
        self.inner.params()
    }
    fn configure_with_params(meta: &mut ConstraintSystem<F>, params: Self::Params) -> Self::Config {
        C::configure_with_params(meta, params)
    }
    fn configure(meta: &mut ConstraintSystem<F>) -> Self::Config {
        C::configure(meta)
    }
    fn synthesize(&self, config: Self::Config, layouter: impl Layouter<F>) -> Result<(), Error> {
        self.inner.synthesize(config, layouter)
    }
}

pub struct SpyLayouter<L: Layouter<F>> {
    inner: L,
    log: Log,
}

impl<L: Layouter<F>> Layouter<F> for SpyLayouter<L> {
    type Root = Self;

    fn assign_region<A, AR, N, NR>(&mut self, name: N, mut assignment: A) -> Result<AR, Error>
    where
        A: FnMut(Region<'_, F>) -> Result<AR, Error>,
        N: Fn() -> NR,
        NR: Into<String>,
    {
        let idx = {
            let mut l = self.log.borrow_mut();
            l.items.push(Item::Region { name: name().into(), passes: vec![] });
            l.items.len() - 1
        };
        let log = self.log.clone();
        self.inner.assign_region(&name, |region: Region<'_, F>| {
            if let Item::Region { passes, .. } = &mut log.borrow_mut().items[idx] {
                passes.push(vec![]);
            }
            let mut spy = SpyRegion { inner: region, log: log.clone(), idx };
            let r: &mut dyn RegionLayouter<F> = &mut spy;
            assignment(r.into())
        })
    }

    fn assign_table<A, N, NR>(&mut self, name: N, assignment: A) -> Result<(), Error>
    where
        A: FnMut(Table<'_, F>) -> Result<(), Error>,
        N: Fn() -> NR,
        NR: Into<String>,
    {
        self.log.borrow_mut().items.push(Item::Table { name: name().into() });
        self.inner.assign_table(name, assignment)
    }

    fn constrain_instance(&mut self, cell: Cell, column: Column<Instance>, row: usize) -> Result<(), Error> {
        self.log.borrow_mut().items.push(Item::Inst(rcell(&cell), column.index(), row));
        self.inner.constrain_instance(cell, column, row)
    }

    fn get_challenge(&self, challenge: Challenge) -> Value<F> {
        self.inner.get_challenge(challenge)
    }

    fn get_root(&mut self) -> &mut Self::Root {
        self
    }

    fn push_namespace<NR, N>(&mut self, name_fn: N)
    where
        NR: Into<String>,
        N: FnOnce() -> NR,
    {
        self.log.borrow_mut().namespaces += 1;
        self.inner.get_root().push_namespace(name_fn)
    }

    fn pop_namespace(&mut self, gadget_name: Option<String>) {
        self.inner.get_root().pop_namespace(gadget_name)
    }
}

struct SpyRegion<'r> {
    inner: Region<'r, F>,
    log: Log,
    idx: usize,
}

impl fmt::Debug for SpyRegion<'_> {
    fn fmt(&self, f: &mut fmt::Formatter<'_>) -> fmt::Result {
        write!(f, "SpyRegion({})", self.idx)
    }
}

impl SpyRegion<'_> {
    fn push(&self, e: RelEv) -> usize {
        if let Item::Region { passes, .. } = &mut self.log.borrow_mut().items[self.idx] {
            let p = passes.last_mut().unwrap();
            p.push(e);
            return p.len() - 1;
        }
        unreachable!()
    }
    fn set_value(&self, pos: usize, v: Option<F>) {
        if let Item::Region { passes, .. } = &mut self.log.borrow_mut().items[self.idx] {
            match &mut passes.last_mut().unwrap()[pos] {
                RelEv::Adv(_, _, x) | RelEv::Fix(_, _, x) => *x = v,
                _ => unreachable!(),
            }
        }
    }
}

fn eval(v: &Value<Rational<F>>) -> Option<F> {
    let mut out = None;
    v.as_ref().map(|r| out = Some(r.evaluate()));
    out
}

impl RegionLayouter<F> for SpyRegion<'_> {
    fn enable_selector<'v>(
        &'v mut self,
        _annotation: &'v (dyn Fn() -> String + 'v),
        selector: &Selector,
        offset: usize,
    ) -> Result<(), Error> {
        self.push(RelEv::Sel(selector.index(), offset));
        selector.enable(&mut self.inner, offset)
    }

    fn name_column<'v>(&'v mut self, annotation: &'v (dyn Fn() -> String + 'v), column: Column<Any>) {
        self.inner.name_column(annotation, column)
    }

    fn assign_advice<'v>(
        &'v mut self,
        annotation: &'v (dyn Fn() -> String + 'v),
        column: Column<Advice>,
        offset: usize,
        to: &'v mut (dyn FnMut() -> Value<Rational<F>> + 'v),
    ) -> Result<Cell, Error> {
        let pos = self.push(RelEv::Adv(column.index(), offset, None));
        let mut seen: Option<Option<F>> = None;
        let cell = self
            .inner
            .assign_advice(annotation, column, offset, || {
                let v = to();
                seen = Some(eval(&v));
                v
            })?
            .cell();
        if let Some(v) = seen {
            self.set_value(pos, v);
        }
        Ok(cell)
    }

    fn assign_advice_from_constant<'v>(
        &'v mut self,
        annotation: &'v (dyn Fn() -> String + 'v),
        column: Column<Advice>,
        offset: usize,
        constant: Rational<F>,
    ) -> Result<Cell, Error> {
        self.push(RelEv::AdvConst(column.index(), offset, constant.evaluate()));
        Ok(self.inner.assign_advice_from_constant(annotation, column, offset, constant)?.cell())
    }

    fn assign_advice_from_instance<'v>(
        &mut self,
        annotation: &'v (dyn Fn() -> String + 'v),
        instance: Column<Instance>,
        row: usize,
        advice: Column<Advice>,
        offset: usize,
    ) -> Result<(Cell, Value<F>), Error> {
        self.push(RelEv::AdvInst(instance.index(), row, advice.index(), offset));
        let c = self.inner.assign_advice_from_instance(annotation, instance, row, advice, offset)?;
        Ok((c.cell(), c.value().copied()))
    }

    fn instance_value(&mut self, instance: Column<Instance>, row: usize) -> Result<Value<F>, Error> {
        self.push(RelEv::InstVal(instance.index(), row));
        self.inner.instance_value(instance, row)
    }

    fn assign_fixed<'v>(
        &'v mut self,
        annotation: &'v (dyn Fn() -> String + 'v),
        column: Column<Fixed>,
        offset: usize,
        to: &'v mut (dyn FnMut() -> Value<Rational<F>> + 'v),
    ) -> Result<Cell, Error> {
        let pos = self.push(RelEv::Fix(column.index(), offset, None));
        let mut seen: Option<Option<F>> = None;
        let cell = self
            .inner
            .assign_fixed(annotation, column, offset, || {
                let v = to();
                seen = Some(eval(&v));
                v
            })?
            .cell();
        if let Some(v) = seen {
            self.set_value(pos, v);
        }
        Ok(cell)
    }

    fn constrain_constant(&mut self, cell: Cell, constant: Rational<F>) -> Result<(), Error> {
        self.push(RelEv::Const(rcell(&cell), constant.evaluate()));
        self.inner.constrain_constant(cell, constant)
    }

    fn constrain_equal(&mut self, left: Cell, right: Cell) -> Result<(), Error> {
        self.push(RelEv::Equal(rcell(&left), rcell(&right)));
        self.inner.constrain_equal(left, right)
    }
}
