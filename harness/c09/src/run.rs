//! Recording runs, the property's oracle, and the request lines for the Lean model.

use std::{cell::RefCell, collections::BTreeMap, collections::HashMap, rc::Rc};

use ff::PrimeField;
use midnight_curves::Bls12;
use group::Curve;
use midnight_proofs::{
    circuit::Value,
    dev::{cost_model::circuit_model, CellValue, MockProver},
    plonk::{commit_to_instances, keygen_vk_with_k, Circuit, ConstraintSystem, FloorPlanner, VerifyingKey},
    poly::{
        commitment::PolynomialCommitmentScheme,
        kzg::{params::ParamsKZG, KZGCommitmentScheme},
    },
    utils::SerdeFormat,
};
use midnight_zk_stdlib::MidnightCircuit;
use mzkh::{catch, fe_hex, Ctx};
use rand_chacha::ChaCha8Rng;
use rand_core::SeedableRng;
use serde_json::json;

use crate::{
    ops::{all_ops, classes, Op, OpRel},
    rec::{col_name, AbsEv, Rec},
    spy::{Item, RelEv, SpyCircuit, SpyLog, V1Circuit},
    F,
};

type Scheme = KZGCommitmentScheme<Bls12>;

// ---------------------------------------------------------------------------------------------
// digest shared with the Lean driver: h' = (h * B + t + 1) mod (2^61 - 1)

pub const P61: u128 = (1u128 << 61) - 1;
pub const BASE: u128 = 1_000_003;

#[derive(Clone, Copy, Default)]
pub struct Dig(pub u128);

impl Dig {
    pub fn tok(&mut self, t: u128) {
        self.0 = (self.0 * BASE + (t % P61) + 1) % P61;
    }
    pub fn toks(&mut self, ts: &[usize]) {
        for t in ts {
            self.tok(*t as u128);
        }
    }
    /// a small field element as one token
    pub fn val_small(&mut self, v: &F) {
        let x = mzkh::fe_big(v).to_u64_digits().first().copied().unwrap_or(0);
        self.tok(x as u128);
    }
    pub fn val(&mut self, v: &F) {
        let r = v.to_repr();
        let b = r.as_ref();
        for i in 0..4 {
            let mut l = [0u8; 8];
            l.copy_from_slice(&b[8 * i..8 * i + 8]);
            self.tok(u64::from_le_bytes(l) as u128);
        }
    }
    pub fn ev(&mut self, e: &AbsEv) {
        match e {
            AbsEv::Enter(_) => self.tok(1),
            AbsEv::Exit => self.tok(2),
            AbsEv::Sel(s, r) => self.toks(&[3, *s, *r]),
            AbsEv::Fix(c, r, v) => {
                self.toks(&[4, *c, *r]);
                self.val(v);
            }
            AbsEv::Adv(c, r, _) => self.toks(&[5, *c, *r]),
            AbsEv::Copy(a, ra, b, rb) => self.toks(&[6, a.0 as usize, a.1, *ra, b.0 as usize, b.1, *rb]),
            AbsEv::Fill(c, r, v) => {
                self.toks(&[7, *c, *r]);
                self.val(v);
            }
            AbsEv::Query(c, r) => self.toks(&[8, *c, *r]),
        }
    }
}

// ---------------------------------------------------------------------------------------------
// one recorded synthesis

#[derive(Clone, Debug)]
pub struct CsInfo {
    pub constants: Vec<usize>,
    pub unusable: usize,
    pub minimum_rows: usize,
    pub n_fixed: usize,
    pub n_sel: usize,
    pub n_instance: usize,
}

pub struct Synth {
    pub evs: Vec<AbsEv>,
    pub log: Option<SpyLog>,
    pub cs: CsInfo,
}

/// `HashMap` iteration order decides the order of the `fill_from_row` calls of a table
/// (`single_pass.rs: assign_table` iterates `default_and_assigned`): sort each run of them.
fn canonicalise(evs: &mut [AbsEv]) {
    let mut i = 0;
    while i < evs.len() {
        if matches!(evs[i], AbsEv::Fill(..)) {
            let mut j = i;
            while j < evs.len() && matches!(evs[j], AbsEv::Fill(..)) {
                j += 1;
            }
            evs[i..j].sort_by_key(|e| match e {
                AbsEv::Fill(c, r, _) => (*c, *r),
                _ => unreachable!(),
            });
            i = j;
        } else {
            i += 1;
        }
    }
}

/// Drives the circuit's real floor planner on the recording backend, exactly as
/// `keygen.rs: keygen_vk_with_k` drives it on its `Assembly`.
pub fn synth<C: Circuit<F>>(c: &C, spy: bool, instance: Option<Vec<Vec<F>>>) -> Result<Synth, String> {
    let r = catch(|| {
        let mut cs = ConstraintSystem::<F>::default();
        let config = C::configure_with_params(&mut cs, c.params());
        let constants = cs.constants().clone();
        let info = CsInfo {
            constants: constants.iter().map(|c| c.index()).collect(),
            unusable: cs.blinding_factors() + 1,
            minimum_rows: cs.minimum_rows(),
            n_fixed: cs.num_fixed_columns(),
            n_sel: cs.num_selectors(),
            n_instance: cs.num_instance_columns(),
        };
        let mut rec = Rec::new(instance);
        let (res, log) = if spy {
            let log = Rc::new(RefCell::new(SpyLog::default()));
            let sc = SpyCircuit { inner: c, log: log.clone() };
            let res = <C::FloorPlanner as FloorPlanner>::synthesize(&mut rec, &sc, config, constants);
            let l = std::mem::take(&mut *log.borrow_mut());
            (res, Some(l))
        } else {
            (<C::FloorPlanner as FloorPlanner>::synthesize(&mut rec, c, config, constants), None)
        };
        let mut evs = rec.finish();
        canonicalise(&mut evs);
        res.map(|_| Synth { evs, log, cs: info }).map_err(|e| format!("error: {e:?}"))
    });
    match r {
        Ok(x) => x,
        Err(p) => Err(format!("panic: {p}")),
    }
}

pub fn erased(evs: &[AbsEv]) -> Vec<AbsEv> {
    evs.iter().map(|e| e.erased()).collect()
}

fn render_abs(e: &AbsEv) -> String {
    match e {
        AbsEv::Enter(n) => format!("enter({n})"),
        AbsEv::Exit => "exit".into(),
        AbsEv::Sel(s, r) => format!("sel s{s}@{r}"),
        AbsEv::Fix(c, r, v) => format!("fixed f{c}@{r}={}", fe_hex(v)),
        AbsEv::Adv(c, r, _) => format!("advice a{c}@{r}"),
        AbsEv::Copy(a, ra, b, rb) => format!("copy {}@{ra}={}@{rb}", col_name(a.0, a.1), col_name(b.0, b.1)),
        AbsEv::Fill(c, r, v) => format!("fill f{c}@{r}..={}", fe_hex(v)),
        AbsEv::Query(c, r) => format!("query i{c}@{r}"),
    }
}

/// First structural difference of two recorded syntheses (advice values ignored).
pub fn first_diff(a: &[AbsEv], b: &[AbsEv]) -> Option<(usize, String, String)> {
    let n = a.len().min(b.len());
    for i in 0..n {
        if a[i].erased() != b[i].erased() {
            return Some((i, render_abs(&a[i]), render_abs(&b[i])));
        }
    }
    if a.len() != b.len() {
        let f = |v: &[AbsEv]| v.get(n).map(render_abs).unwrap_or("<end>".into());
        return Some((n, f(a), f(b)));
    }
    None
}

/// A cell as (column kind, column index, row).
pub type CellId = (u8, usize, usize);

/// The copy constraints of a recorded synthesis as a canonical SET of unordered (cell, cell) pairs
/// (each pair with its smaller cell first; duplicates and the order of the calls forgotten).
pub fn copy_set(evs: &[AbsEv]) -> std::collections::BTreeSet<(CellId, CellId)> {
    evs.iter()
        .filter_map(|e| match e {
            AbsEv::Copy(a, ra, b, rb) => {
                let (x, y) = ((a.0, a.1, *ra), (b.0, b.1, *rb));
                Some(if x <= y { (x, y) } else { (y, x) })
            }
            _ => None,
        })
        .collect()
}

/// The partition of the cells induced by the copy constraints (what the permutation argument
/// enforces): the classes with at least two cells, each sorted, sorted.
pub fn copy_partition(evs: &[AbsEv]) -> Vec<Vec<CellId>> {
    let pairs = copy_set(evs);
    let mut id: BTreeMap<CellId, usize> = BTreeMap::new();
    for (a, b) in &pairs {
        let n = id.len();
        id.entry(*a).or_insert(n);
        let n = id.len();
        id.entry(*b).or_insert(n);
    }
    let mut parent: Vec<usize> = (0..id.len()).collect();
    fn find(p: &mut Vec<usize>, mut x: usize) -> usize {
        while p[x] != x {
            p[x] = p[p[x]];
            x = p[x];
        }
        x
    }
    for (a, b) in &pairs {
        let (ra, rb) = (find(&mut parent, id[a]), find(&mut parent, id[b]));
        if ra != rb {
            parent[ra.max(rb)] = ra.min(rb);
        }
    }
    let mut classes: BTreeMap<usize, Vec<CellId>> = BTreeMap::new();
    for (c, i) in &id {
        let r = find(&mut parent, *i);
        classes.entry(r).or_default().push(*c);
    }
    let mut out: Vec<Vec<CellId>> = classes.into_values().filter(|c| c.len() > 1).collect();
    out.sort();
    out
}

fn fmt_cell(c: &CellId) -> String {
    format!("{}@{}", col_name(c.0, c.1), c.2)
}

/// Public inputs bound by the recorded synthesis, per instance column: the values of the cells
/// copy-constrained to instance cells.
pub fn derive_instance(s: &Synth) -> Vec<Vec<F>> {
    let mut vals: HashMap<(u8, usize, usize), F> = HashMap::new();
    for e in &s.evs {
        match e {
            AbsEv::Adv(c, r, Some(v)) => {
                vals.insert((0, *c, *r), *v);
            }
            AbsEv::Fix(c, r, v) => {
                vals.insert((1, *c, *r), *v);
            }
            _ => {}
        }
    }
    let mut cols: Vec<BTreeMap<usize, F>> = vec![BTreeMap::new(); s.cs.n_instance];
    for e in &s.evs {
        if let AbsEv::Copy(a, ra, b, rb) = e {
            let (cell, ic, ir) = if b.0 == 2 {
                ((a.0, a.1, *ra), b.1, *rb)
            } else if a.0 == 2 {
                ((b.0, b.1, *rb), a.1, *ra)
            } else {
                continue;
            };
            if let Some(v) = vals.get(&cell) {
                cols[ic].insert(ir, *v);
            }
        }
    }
    cols.into_iter()
        .map(|m| {
            let n = m.keys().max().map(|x| x + 1).unwrap_or(0);
            (0..n).map(|i| m.get(&i).copied().unwrap_or(F::from(0))).collect()
        })
        .collect()
}

// ---------------------------------------------------------------------------------------------
// request line for the Lean planner model

struct RegionInfo {
    /// position of the `Enter` event of this item in the absolute trace
    start: Option<usize>,
}

/// Splits the absolute trace into the blocks produced by each spy item and computes the real
/// start row of every region. Returns (starts, per-item digests).
fn real_placement(s: &Synth) -> Result<(Vec<Option<usize>>, Vec<u128>), String> {
    let log = s.log.as_ref().unwrap();
    let mut pos = 0usize;
    let evs = &s.evs;
    let mut starts = vec![];
    let mut digs = vec![];
    let n_items = log.items.len();
    for (k, it) in log.items.iter().enumerate() {
        let mut d = Dig::default();
        match it {
            Item::Region { passes, .. } => {
                if !matches!(evs.get(pos), Some(AbsEv::Enter(_))) {
                    return Err(format!("item {k}: expected enter at {pos}"));
                }
                let begin = pos;
                // block = enter .. exit, then the constants (fixed + copy pairs)
                while !matches!(evs[pos], AbsEv::Exit) {
                    pos += 1;
                }
                pos += 1;
                let last = passes.last().ok_or("region without pass")?;
                let n_const = last.iter().filter(|e| matches!(e, RelEv::AdvConst(..) | RelEv::Const(..))).count();
                pos += 2 * n_const;
                if pos > evs.len() {
                    return Err(format!("item {k}: constants run past the end"));
                }
                // start row: absolute row minus offset of the cell events, in order
                let mut st: Option<usize> = None;
                let mut ai = begin + 1;
                for e in last {
                    let (off, abs_row) = match e {
                        RelEv::Sel(_, o) => (*o, match &evs[ai] { AbsEv::Sel(_, r) => *r, x => return Err(format!("item {k}: sel vs {x:?}")) }),
                        RelEv::Fix(_, o, _) => (*o, match &evs[ai] { AbsEv::Fix(_, r, _) => *r, x => return Err(format!("item {k}: fix vs {x:?}")) }),
                        RelEv::Adv(_, o, _) | RelEv::AdvConst(_, o, _) => (*o, match &evs[ai] { AbsEv::Adv(_, r, _) => *r, x => return Err(format!("item {k}: adv vs {x:?}")) }),
                        RelEv::AdvInst(_, _, _, o) => {
                            // query, advice, copy
                            ai += 1;
                            let r = match &evs[ai] { AbsEv::Adv(_, r, _) => *r, x => return Err(format!("item {k}: advinst vs {x:?}")) };
                            ai += 1;
                            (*o, r)
                        }
                        RelEv::Equal(..) | RelEv::InstVal(..) => {
                            ai += 1;
                            continue;
                        }
                        RelEv::Const(..) => continue,
                    };
                    ai += 1;
                    let s0 = abs_row.checked_sub(off).ok_or(format!("item {k}: row {abs_row} < offset {off}"))?;
                    match st {
                        None => st = Some(s0),
                        Some(x) if x != s0 => return Err(format!("item {k}: inconsistent start {x} vs {s0}")),
                        _ => {}
                    }
                }
                starts.push(st);
                for e in &evs[begin..pos] {
                    d.ev(e);
                }
            }
            Item::Table { .. } => {
                if !matches!(evs.get(pos), Some(AbsEv::Enter(_))) {
                    return Err(format!("table item {k}: expected enter at {pos}"));
                }
                let begin = pos;
                while !matches!(evs[pos], AbsEv::Exit) {
                    pos += 1;
                }
                pos += 1;
                while pos < evs.len() && matches!(evs[pos], AbsEv::Fill(..)) {
                    pos += 1;
                }
                for e in &evs[begin..pos] {
                    d.ev(e);
                }
            }
            Item::Inst(..) => {
                d.ev(&evs[pos]);
                pos += 1;
            }
        }
        digs.push(d.0);
    }
    if pos != evs.len() {
        return Err(format!("{} trailing events after {n_items} items", evs.len() - pos));
    }
    let _ = RegionInfo { start: None };
    Ok((starts, digs))
}

/// The items of a spy log in the text form read by the Lean driver.
fn render_items(s: &Synth, with_values: bool) -> String {
    let log = s.log.as_ref().unwrap();
    let mut out = Vec::with_capacity(log.items.len());
    // table blocks of the absolute trace, in order
    let mut tables: Vec<Vec<&AbsEv>> = vec![];
    {
        let mut i = 0;
        let mut region_items = log.items.iter().filter(|x| !matches!(x, Item::Inst(..)));
        while i < s.evs.len() {
            if let AbsEv::Enter(_) = &s.evs[i] {
                let it = region_items.next();
                let mut j = i;
                while !matches!(s.evs[j], AbsEv::Exit) {
                    j += 1;
                }
                if matches!(it, Some(Item::Table { .. })) {
                    tables.push(s.evs[i + 1..j].iter().collect());
                }
                i = j;
            }
            i += 1;
        }
    }
    let mut ti = 0;
    for it in &log.items {
        match it {
            Item::Region { passes, .. } => {
                let evs = passes.last().map(|p| p.as_slice()).unwrap_or(&[]);
                let mut s = String::from("R");
                for e in evs {
                    s.push(' ');
                    s.push_str(&e.render(with_values));
                }
                out.push(s);
            }
            Item::Table { .. } => {
                let cells = &tables[ti];
                ti += 1;
                let mut s = String::from("T");
                for e in cells {
                    if let AbsEv::Fix(c, r, v) = e {
                        s.push_str(&format!(" f{c}@{r}={}", fe_hex(v)));
                    }
                }
                out.push(s);
            }
            Item::Inst(c, ic, ir) => {
                out.push(format!("I {}.{}.{} {ic} {ir}", c.0, c.1, col_name(c.2 .0, c.2 .1)));
            }
        }
    }
    out.join(" ; ")
}

fn fold_digests(ds: &[u128]) -> u128 {
    let mut d = Dig::default();
    for x in ds {
        d.tok(*x);
    }
    d.0
}

fn fmt_starts(st: &[Option<usize>]) -> String {
    if st.is_empty() {
        return "-".into();
    }
    st.iter().map(|x| x.map(|v| v.to_string()).unwrap_or("_".into())).collect::<Vec<_>>().join(",")
}

fn header(cs: &CsInfo) -> String {
    format!(
        "K={} U={} M={}",
        if cs.constants.is_empty() { "-".to_string() } else { mzkh::join(&cs.constants) },
        cs.unusable,
        cs.minimum_rows
    )
}

/// `place` request: the shapes seen by the layouter's shape pass.
fn place_line(s: &Synth) -> String {
    let log = s.log.as_ref().unwrap();
    let mut shapes = vec![];
    for it in &log.items {
        if let Item::Region { passes, .. } = it {
            let p = &passes[0];
            let mut cols: Vec<(u8, usize)> = vec![];
            let mut rows = 0usize;
            for e in p {
                let (c, o) = match e {
                    RelEv::Sel(s, o) => ((3u8, *s), *o),
                    RelEv::Fix(c, o, _) => ((1, *c), *o),
                    RelEv::Adv(c, o, _) | RelEv::AdvConst(c, o, _) | RelEv::AdvInst(_, _, c, o) => ((0, *c), *o),
                    _ => continue,
                };
                if !cols.contains(&c) {
                    cols.push(c);
                }
                rows = rows.max(o + 1);
            }
            cols.sort();
            let nconst = passes.last().unwrap().iter().filter(|e| matches!(e, RelEv::AdvConst(..) | RelEv::Const(..))).count();
            shapes.push(format!(
                "{}:{}:{}",
                if cols.is_empty() { "-".to_string() } else { cols.iter().map(|c| col_name(c.0, c.1)).collect::<Vec<_>>().join(",") },
                rows,
                nconst
            ));
        }
    }
    format!("place {} ; {}", header(&s.cs), shapes.join(" "))
}

// ---------------------------------------------------------------------------------------------
// the check of one circuit family (one operation, all witnesses)

pub struct Known<C> {
    pub class: String,
    pub sat: bool,
    pub witness: String,
    pub circuit: C,
}

struct Srs {
    params: HashMap<u32, ParamsKZG<Bls12>>,
}

impl Srs {
    fn get(&mut self, k: u32) -> &ParamsKZG<Bls12> {
        self.params
            .entry(k)
            .or_insert_with(|| ParamsKZG::<Bls12>::unsafe_setup(k, ChaCha8Rng::seed_from_u64(k as u64 + 99)))
    }
}

fn model_triple<C: Circuit<F>>(c: &C) -> Result<(u32, usize, usize), String> {
    catch(|| {
        let m = circuit_model::<F, 48, 32>(c);
        (m.k, m.rows, m.table_rows)
    })
}

/// Expected keygen view of a recorded synthesis: fixed cells (last write wins, fills expanded
/// to the usable rows) and selector cells.
fn view_digest_from_trace(evs: &[AbsEv], cs: &CsInfo, k: u32) -> u128 {
    let usable = (1usize << k) - cs.unusable;
    let mut fixed: Vec<Vec<Option<F>>> = vec![vec![None; usable]; cs.n_fixed];
    let mut sel: Vec<Vec<bool>> = vec![vec![false; usable]; cs.n_sel];
    for e in evs {
        match e {
            AbsEv::Fix(c, r, v) => fixed[*c][*r] = Some(*v),
            AbsEv::Fill(c, r, v) => {
                for row in *r..usable {
                    fixed[*c][row] = Some(*v);
                }
            }
            AbsEv::Sel(s, r) => sel[*s][*r] = true,
            _ => {}
        }
    }
    view_digest(&fixed, &sel)
}

fn view_digest(fixed: &[Vec<Option<F>>], sel: &[Vec<bool>]) -> u128 {
    let mut d = Dig::default();
    for (c, col) in fixed.iter().enumerate() {
        for (r, v) in col.iter().enumerate() {
            if let Some(v) = v {
                d.toks(&[c, r]);
                d.val(v);
            }
        }
    }
    d.tok(0);
    for (s, col) in sel.iter().enumerate() {
        for (r, b) in col.iter().enumerate() {
            if *b {
                d.toks(&[s, r]);
            }
        }
    }
    d.0
}

fn view_digest_from_mock(mp: &MockProver<F>, cs: &CsInfo, k: u32) -> u128 {
    let usable = (1usize << k) - cs.unusable;
    let fixed: Vec<Vec<Option<F>>> = mp.fixed()[..cs.n_fixed]
        .iter()
        .map(|col| {
            col[..usable]
                .iter()
                .map(|c| match c {
                    CellValue::Assigned(v) => Some(*v),
                    _ => None,
                })
                .collect()
        })
        .collect();
    let sel: Vec<Vec<bool>> = mp.selectors().iter().map(|c| c[..usable].to_vec()).collect();
    view_digest(&fixed, &sel)
}

/// A cell assigned by two different regions (the floor planner placed them on top of each
/// other): `(cell, first region, second region)`.
fn cell_collision(evs: &[AbsEv]) -> Option<String> {
    let mut owner: HashMap<(u8, usize, usize), usize> = HashMap::new();
    let mut region = 0usize;
    let mut inside = false;
    let mut names: Vec<String> = vec![];
    for e in evs {
        match e {
            AbsEv::Enter(n) => {
                inside = true;
                names.push(n.clone());
                region = names.len() - 1;
            }
            AbsEv::Exit => inside = false,
            AbsEv::Adv(c, r, _) | AbsEv::Fix(c, r, _) => {
                let kind = if matches!(e, AbsEv::Adv(..)) { 0u8 } else { 1u8 };
                // constants (assigned after the region) belong to the region that pinned them
                let me = if inside { region } else { usize::MAX };
                if let Some(prev) = owner.insert((kind, *c, *r), me) {
                    if prev != me {
                        let nm = |i: usize| if i == usize::MAX { "<constants>".to_string() } else { format!("{i}:{}", names[i]) };
                        return Some(format!("{}@{} assigned by region {} and by region {}", col_name(kind, *c), r, nm(prev), nm(me)));
                    }
                }
            }
            _ => {}
        }
    }
    None
}

/// The commitments keygen must publish for the fixed columns and the selector columns, computed
/// from the recorded call sequence alone (`keygen.rs: Assembly` + `keygen_vk_with_k`).
fn fixed_commitments_match(
    evs: &[AbsEv],
    cs: &CsInfo,
    k: u32,
    params: &ParamsKZG<Bls12>,
    vk: &VerifyingKey<F, Scheme>,
) -> bool {
    let n = 1usize << k;
    let usable = n - cs.unusable;
    let mut fixed: Vec<Vec<F>> = vec![vec![F::from(0); n]; cs.n_fixed];
    let mut sel: Vec<Vec<F>> = vec![vec![F::from(0); n]; cs.n_sel];
    for e in evs {
        match e {
            AbsEv::Fix(c, r, v) => fixed[*c][*r] = *v,
            AbsEv::Fill(c, r, v) => {
                for row in *r..usable {
                    fixed[*c][row] = *v;
                }
            }
            AbsEv::Sel(s, r) => sel[*s][*r] = F::from(1),
            _ => {}
        }
    }
    let domain = vk.get_domain();
    let coms: Vec<_> = fixed
        .into_iter()
        .chain(sel)
        .map(|col| <Scheme as PolynomialCommitmentScheme<F>>::commit_lagrange(params, &domain.lagrange_from_vec(col)))
        .collect();
    let real = vk.fixed_commitments();
    coms.len() == real.len() && coms.iter().zip(real.iter()).all(|(a, b)| a == b)
}

thread_local! {
    /// hash of the verifying key of every circuit (written to the evidence: lets two runs on
    /// two trees be compared)
    pub static VK_HASHES: RefCell<BTreeMap<String, String>> = const { RefCell::new(BTreeMap::new()) };
}

pub struct FamilyOut {
    pub k: u32,
    pub violated: bool,
}

/// The single-pass layouter runs every region closure twice: on a `RegionShape` (to learn the
/// columns and the row count) and then for real. The placement is only sound if the second run
/// touches nothing the first did not declare.
fn check_passes(ctx: &mut Ctx, name: &str, class: &str, log: &SpyLog) -> bool {
    for (k, it) in log.items.iter().enumerate() {
        if let Item::Region { passes, name: rname } = it {
            let a: Vec<RelEv> = passes.first().map(|p| p.iter().map(|e| e.shape_view()).collect()).unwrap_or_default();
            let b: Vec<RelEv> = passes.last().map(|p| p.iter().map(|e| e.shape_view()).collect()).unwrap_or_default();
            if passes.len() != 2 || a != b {
                let only_b: Vec<String> = b.iter().filter(|e| !a.contains(e)).take(12).map(|e| e.render(false)).collect();
                let only_a: Vec<String> = a.iter().filter(|e| !b.contains(e)).take(12).map(|e| e.render(false)).collect();
                ctx.oracle_fail(
                    &format!("passes:{name}"),
                    "a region closure makes different calls in the layouter's shape pass and in its assignment pass (cells used but not declared in the region shape)",
                    json!({"circuit": name, "class": class, "item": k, "region": rname, "passes": passes.len(),
                           "only_in_assignment_pass": only_b, "only_in_shape_pass": only_a}),
                );
                return false;
            }
        }
    }
    true
}

/// Everything that is independent of how the circuit was built.
pub fn check_family<C: Circuit<F>>(
    ctx: &mut Ctx,
    srs: &mut SrsCache,
    name: &str,
    unknown: &C,
    knowns: &[Known<C>],
    small_limit: usize,
    demo: &dyn Fn(usize) -> Option<String>,
    mbl: usize,
    v1: bool,
) -> Option<FamilyOut> {
    let kind = if name.starts_with("zkir:") { "zkir".to_string() } else { name.split('(').next().unwrap_or(name).to_string() };
    // 1. keygen view, with and without the spy
    let s0 = match synth(unknown, true, None) {
        Ok(s) => s,
        Err(e) => {
            ctx.oracle_fail(
                &format!("keygen-synth:{name}"),
                "synthesis with unknown witness (the keygen run) fails",
                json!({"circuit": name, "error": e}),
            );
            return None;
        }
    };
    let s0_plain = synth(unknown, false, None);
    // (advice values are not compared: some gadgets draw random auxiliary witnesses)
    let transparent = matches!(&s0_plain, Ok(p) if first_diff(&s0.evs, &p.evs).is_none());
    if !transparent && std::env::var("C09_DEBUG").is_ok() {
        if let Ok(p) = &s0_plain {
            eprintln!("spy diff {name}: {:?} (len {} vs {})", first_diff(&s0.evs, &p.evs), s0.evs.len(), p.evs.len());
        }
    }
    ctx.case("selfcheck", false, &format!("selfcheck spy-transparent {name}"), if transparent { "ok" } else { "differs" });

    // shape pass vs assignment pass
    {
        let log = s0.log.as_ref().unwrap();
        check_passes(ctx, name, "unknown", log);
        ctx.count_n("regions", log.items.iter().filter(|i| matches!(i, Item::Region { .. })).count() as u64);
        ctx.count_n("tables", log.items.iter().filter(|i| matches!(i, Item::Table { .. })).count() as u64);
    }
    ctx.count_n("abs_events", s0.evs.len() as u64);
    if let Some(c) = cell_collision(&s0.evs) {
        ctx.oracle_fail(&format!("overlap:{name}"), "two regions are placed on the same cell", json!({"circuit": name, "class": "unknown", "cell": c}));
    }

    // cost model of the keygen circuit
    let m0 = match model_triple(unknown) {
        Ok(m) => m,
        Err(e) => {
            ctx.oracle_fail(&format!("model:{name}"), "cost model of the keygen circuit panics", json!({"circuit": name, "error": e}));
            return None;
        }
    };
    let k = m0.0;
    ctx.count(&format!("k={k}"));
    // the k of the cost model must accommodate the synthesis it was computed from
    {
        let needed = s0
            .evs
            .iter()
            .map(|e| match e {
                AbsEv::Sel(_, r) | AbsEv::Fix(_, r, _) | AbsEv::Adv(_, r, _) | AbsEv::Fill(_, r, _) | AbsEv::Query(_, r) => r + 1,
                AbsEv::Copy(_, r1, _, r2) => r1.max(r2) + 1,
                _ => 0,
            })
            .max()
            .unwrap_or(0);
        let usable = (1usize << k).saturating_sub(s0.cs.unusable);
        if needed > usable {
            ctx.oracle_fail(
                &format!("k-too-small:{name}"),
                "the k computed by the cost model does not fit the circuit: keygen at that k fails with not_enough_rows",
                json!({"circuit": name, "k": k, "rows_needed": needed, "usable_rows": usable, "model": format!("{m0:?}")}),
            );
            return None;
        }
    }

    // 2. Lean: placement from shapes, full layout from the relative log
    let (starts, digs) = match real_placement(&s0) {
        Ok(x) => x,
        Err(e) => {
            ctx.case("selfcheck", false, &format!("selfcheck block-structure {name}"), &format!("differs: {e}"));
            return None;
        }
    };
    let n_inst_rows = derive_rows(&s0);
    ctx.case(&format!("place:{kind}"), true, &place_line(&s0), &fmt_starts(&starts));
    let copy_digest = {
        let mut d = Dig::default();
        for (a, b) in copy_set(&s0.evs) {
            d.toks(&[a.0 as usize, a.1, a.2, b.0 as usize, b.1, b.2]);
        }
        d.0
    };
    let answer = format!(
        "starts={} H={} n={} rows={} trows={} irows={} k={} V={} C={}",
        fmt_starts(&starts),
        fold_digests(&digs),
        s0.evs.len(),
        m0.1,
        m0.2,
        n_inst_rows,
        m0.0,
        view_digest_from_trace(&s0.evs, &s0.cs, k),
        copy_digest,
    );
    let small = s0.evs.len() <= small_limit;
    ctx.case(
        &format!("layout:{kind}"),
        true,
        &format!("layout {} ; {}", header(&s0.cs), render_items(&s0, false)),
        &answer,
    );

    p2r_case(ctx, &s0, mbl);

    // the dual-pass planner (v1.rs) on the same circuits: same oracle, no model
    if v1 {
        let u1 = V1Circuit { inner: unknown, unknown };
        match synth(&u1, false, None) {
            Ok(t0) => {
                ctx.count("v1_families");
                for kn in knowns.iter().take(if ctx.thorough() { 8 } else { 3 }) {
                    let c1 = V1Circuit { inner: &kn.circuit, unknown };
                    match synth(&c1, false, None) {
                        Ok(t) => {
                            ctx.count("v1_witness_runs");
                            if let Some((i, a, b)) = first_diff(&t0.evs, &t.evs) {
                                ctx.oracle_fail(
                                    &format!("v1-struct:{name}"),
                                    "under the V1 floor planner the circuit structure differs between the unknown witness and a concrete witness",
                                    json!({"circuit": name, "class": kn.class, "witness": kn.witness, "event": i, "keygen": a, "witness_run": b}),
                                );
                            }
                            if let Some(c) = cell_collision(&t.evs) {
                                ctx.oracle_fail(&format!("v1-overlap:{name}"), "V1 floor planner places two regions on the same cell", json!({"circuit": name, "class": kn.class, "cell": c}));
                            }
                        }
                        Err(e) => {
                            if kn.sat {
                                ctx.oracle_fail(&format!("v1-synth:{name}"), "V1 synthesis fails for a satisfying witness", json!({"circuit": name, "class": kn.class, "error": e}));
                            }
                        }
                    }
                }
            }
            Err(e) => {
                ctx.count("v1_keygen_synthesis_failed");
                if std::env::var("C09_DEBUG").is_ok() {
                    eprintln!("v1 {name}: {e}");
                }
            }
        }
    }

    // 3. every witness class against the keygen view
    let e0 = erased(&s0.evs);
    let copies0 = copy_set(&s0.evs);
    let partition0 = copy_partition(&s0.evs);
    ctx.count_n("copy_pairs_keygen", copies0.len() as u64);
    let mut violated = false;
    let mut first_demo = true;
    let mut mock0: Option<MockProver<F>> = None;
    let mut vk0: Option<Vec<u8>> = None;
    for (ci, kn) in knowns.iter().enumerate() {
        ctx.count("witness_runs");
        let spy_this = small;
        let s = match synth(&kn.circuit, spy_this, None) {
            Ok(s) => s,
            Err(e) => {
                if kn.sat {
                    ctx.oracle_fail(
                        &format!("synth:{name}"),
                        "synthesis fails for a witness that satisfies the relation although the keygen run succeeds",
                        json!({"circuit": name, "class": kn.class, "witness": kn.witness, "error": e}),
                    );
                    violated = true;
                } else {
                    ctx.count("unsat_witness_synthesis_error");
                }
                continue;
            }
        };
        ctx.count(if kn.sat { "class:sat" } else { "class:unsat" });
        if let Some(log) = &s.log {
            if !check_passes(ctx, name, &kn.class, log) {
                violated = true;
            }
        }
        // copy constraints as a canonical set of (cell, cell) pairs, whatever the order of the calls
        ctx.count("copy_sets_compared");
        {
            let cs1 = copy_set(&s.evs);
            if cs1 != copies0 {
                violated = true;
                let only_w: Vec<String> = cs1.difference(&copies0).take(12).map(|(a, b)| format!("{}={}", fmt_cell(a), fmt_cell(b))).collect();
                let only_k: Vec<String> = copies0.difference(&cs1).take(12).map(|(a, b)| format!("{}={}", fmt_cell(a), fmt_cell(b))).collect();
                let part_equal = copy_partition(&s.evs) == partition0;
                let demo_result = if first_demo { demo(ci) } else { None };
                first_demo = false;
                ctx.oracle_fail(
                    &format!("copies:{name}"),
                    "the copy constraints (permutation) differ between the unknown witness (keygen) and a concrete witness",
                    json!({"circuit": name, "class": kn.class, "witness": kn.witness,
                           "copies_only_with_witness": only_w, "copies_only_at_keygen": only_k,
                           "n_copies_keygen": copies0.len(), "n_copies_witness": cs1.len(),
                           "induced_partition_equal": part_equal,
                           "keygen_without_witness_then_prove_with_witness": demo_result}),
                );
            }
        }
        if let Some((i, a, b)) = first_diff(&e0, &s.evs) {
            violated = true;
            // what exactly differs: the part keygen keeps, or only the advice cells used
            let keep = |v: &[AbsEv]| v.iter().filter(|e| e.is_structural()).cloned().collect::<Vec<_>>();
            let fixed_part_equal = keep(&e0) == keep(&s.evs);
            let cells = |v: &[AbsEv]| {
                v.iter()
                    .filter_map(|e| if let AbsEv::Adv(c, r, _) = e { Some((*c, *r)) } else { None })
                    .collect::<std::collections::BTreeSet<_>>()
            };
            let (c0, c1) = (cells(&e0), cells(&s.evs));
            let only_w: Vec<String> = c1.difference(&c0).take(16).map(|(c, r)| format!("a{c}@{r}")).collect();
            let only_k: Vec<String> = c0.difference(&c1).take(16).map(|(c, r)| format!("a{c}@{r}")).collect();
            // keygen without witness + proof with this witness: does it verify?
            let demo_result = if first_demo { demo(ci) } else { None };
            first_demo = false;
            ctx.oracle_fail(
                &format!("{}:{name}", if fixed_part_equal { "struct-advice" } else { "struct" }),
                if fixed_part_equal {
                    "advice cell usage differs between the unknown witness (keygen) and a concrete witness (fixed cells, selectors and copies are equal)"
                } else {
                    "circuit structure differs between the unknown witness (keygen) and a concrete witness"
                },
                json!({"circuit": name, "class": kn.class, "witness": kn.witness, "event": i, "keygen": a, "witness_run": b,
                       "fixed_part_equal": fixed_part_equal, "advice_cells_only_with_witness": only_w,
                       "advice_cells_only_at_keygen": only_k,
                       "keygen_without_witness_then_prove_with_witness": demo_result}),
            );
            if !fixed_part_equal {
                continue;
            }
        }
        if ci < 4 || ctx.thorough() {
            if let Some(c) = cell_collision(&s.evs) {
                violated = true;
                ctx.oracle_fail(&format!("overlap:{name}"), "two regions are placed on the same cell", json!({"circuit": name, "class": kn.class, "cell": c}));
            }
        }
        // instance values steer nothing either
        let inst = derive_instance(&s);
        if s.evs.iter().any(|e| matches!(e, AbsEv::Query(..))) {
            ctx.count("instance_query_runs");
            match synth(&kn.circuit, false, Some(inst.clone())) {
                Ok(s2) => {
                    if let Some((i, a, b)) = first_diff(&e0, &s2.evs) {
                        violated = true;
                        ctx.oracle_fail(
                            &format!("struct-instance:{name}"),
                            "circuit structure depends on the instance values returned by query_instance",
                            json!({"circuit": name, "class": kn.class, "witness": kn.witness, "event": i, "keygen": a, "witness_run": b}),
                        );
                    }
                }
                Err(e) => {
                    ctx.oracle_fail(&format!("synth-instance:{name}"), "synthesis fails once instance values are known", json!({"circuit": name, "class": kn.class, "error": e}));
                }
            }
        }
        if small && s.log.is_some() {
            // the model consumes the trace WITH advice values and must give the keygen answer
            ctx.case(
                &format!("layout-w:{kind}"),
                true,
                &format!("layout {} ; {}", header(&s.cs), render_items(&s, true)),
                &answer,
            );
        }
        // cost model
        match model_triple(&kn.circuit) {
            Ok(m) if m == m0 => {}
            other => {
                violated = true;
                ctx.oracle_fail(
                    &format!("model:{name}"),
                    "cost model (k, rows, table rows) differs between keygen circuit and witness circuit",
                    json!({"circuit": name, "class": kn.class, "witness": kn.witness, "keygen": format!("{m0:?}"), "witness_run": format!("{other:?}")}),
                );
            }
        }
        // MockProver tables
        let do_mock = ci < 3 || ctx.thorough();
        if do_mock {
            match catch(|| MockProver::run(k, &kn.circuit, inst.clone())) {
                Ok(Ok(mp)) => {
                    ctx.count("mock_runs");
                    let vd = view_digest_from_mock(&mp, &s0.cs, k);
                    if vd != view_digest_from_trace(&s0.evs, &s0.cs, k) {
                        violated = true;
                        ctx.oracle_fail(
                            &format!("mock-view:{name}"),
                            "MockProver fixed/selector tables of a witness run differ from the keygen view",
                            json!({"circuit": name, "class": kn.class, "witness": kn.witness}),
                        );
                    }
                    if kn.sat {
                        match catch(|| mp.verify().is_ok()) {
                            Ok(true) => ctx.count("mock_sat_ok"),
                            _ => {
                                ctx.count("mock_sat_class_rejected");
                                ctx.count(&format!("mock_rejected:{name}"));
                                if name.starts_with("Unused(") {
                                    ctx.oracle_fail(
                                        &format!("unused-chip:{name}"),
                                        "a plain addition cannot be satisfied in an architecture that configures a chip it does not use",
                                        json!({"circuit": name, "class": kn.class, "witness": kn.witness}),
                                    );
                                }
                            }
                        }
                    }
                    match &mock0 {
                        None => mock0 = Some(mp),
                        Some(m0p) => {
                            let same = m0p.fixed() == mp.fixed()
                                && m0p.selectors() == mp.selectors()
                                && m0p.permutation() == mp.permutation();
                            if !same {
                                violated = true;
                                ctx.oracle_fail(
                                    &format!("mock-tables:{name}"),
                                    "MockProver fixed/selector/permutation tables differ between two witnesses",
                                    json!({"circuit": name, "class": kn.class, "witness": kn.witness, "other": knowns[0].class}),
                                );
                            }
                        }
                    }
                }
                other => {
                    if kn.sat {
                        ctx.count("mock_run_failed");
                        let _ = other;
                    }
                }
            }
        }
        // verifying key bytes
        let do_vk = ci < 2 || (ctx.thorough() && ci < 6);
        if do_vk {
            let params = srs.get(k).clone();
            if vk0.is_none() {
                match catch(|| keygen_vk_with_k::<F, Scheme, _>(&params, unknown, k)) {
                    Ok(Ok(vk)) => {
                        // the key commits to exactly the fixed/selector columns of the recorded run
                        ctx.count("vk_fixed_commitments_checked");
                        if !fixed_commitments_match(&s0.evs, &s0.cs, k, &params, &vk) {
                            violated = true;
                            ctx.oracle_fail(
                                &format!("vk-fixed:{name}"),
                                "fixed/selector commitments of the verifying key differ from the commitments of the recorded fixed assignment",
                                json!({"circuit": name, "k": k}),
                            );
                        }
                        let bytes = vk.to_bytes(SerdeFormat::RawBytes);
                        VK_HASHES.with(|h| {
                            h.borrow_mut().insert(name.to_string(), blake2b_simd::blake2b(&bytes).to_hex()[..16].to_string())
                        });
                        vk0 = Some(bytes)
                    }
                    other => {
                        ctx.oracle_fail(&format!("keygen:{name}"), "keygen_vk fails at the k of the cost model", json!({"circuit": name, "k": k, "error": format!("{:?}", other.map(|r| r.map(|_| ())))}));
                    }
                }
            }
            if let Some(b0) = &vk0 {
                match catch(|| keygen_vk_with_k::<F, Scheme, _>(&params, &kn.circuit, k)) {
                    Ok(Ok(vk)) => {
                        ctx.count("vk_compared");
                        if &vk.to_bytes(SerdeFormat::RawBytes) != b0 {
                            violated = true;
                            ctx.oracle_fail(
                                &format!("vk:{name}"),
                                "verifying key bytes differ between keygen without witness and keygen with a witness",
                                json!({"circuit": name, "class": kn.class, "witness": kn.witness, "k": k}),
                            );
                        }
                    }
                    other => {
                        violated = true;
                        ctx.oracle_fail(&format!("vk:{name}"), "keygen_vk fails with a concrete witness although it succeeds without", json!({"circuit": name, "class": kn.class, "error": format!("{:?}", other.map(|r| r.map(|_| ())))}));
                    }
                }
            }
        }
    }
    Some(FamilyOut { k, violated })
}

pub type SrsCache = SrsImpl;
pub struct SrsImpl(Srs);
impl SrsImpl {
    pub fn new() -> Self {
        SrsImpl(Srs { params: HashMap::new() })
    }
    pub fn get(&mut self, k: u32) -> &ParamsKZG<Bls12> {
        self.0.get(k)
    }
}

/// Number of instance rows bound by copies (cost_model.rs: `instance_rows`).
fn derive_rows(s: &Synth) -> usize {
    let mut m = 0;
    for e in &s.evs {
        if let AbsEv::Copy(a, ra, b, rb) = e {
            if a.0 == 2 {
                m = m.max(ra + 1);
            }
            if b.0 == 2 {
                m = m.max(rb + 1);
            }
        }
    }
    m
}

fn prove_one(
    params: &ParamsKZG<Bls12>,
    rel: &OpRel,
    vk: &midnight_zk_stdlib::MidnightVK,
    pk: &midnight_zk_stdlib::MidnightPK<OpRel>,
    pi: &Vec<F>,
    committed: &[F],
    w: &crate::ops::W,
) -> Result<Result<(), String>, String> {
    use midnight_zk_stdlib as zs;
    catch(|| {
        let proof = zs::prove::<OpRel, blake2b_simd::State>(params, pk, rel, pi, w.clone(), ChaCha8Rng::seed_from_u64(7))
            .map_err(|e| format!("prove: {e:?}"))?;
        let com = if committed.is_empty() {
            None
        } else {
            Some(commit_to_instances::<F, Scheme>(params, vk.vk().get_domain(), committed).to_affine())
        };
        zs::verify::<OpRel, blake2b_simd::State>(&params.verifier_params(), vk, pi, com, &proof)
            .map_err(|e| format!("verify: {e:?}"))
    })
}

/// The demonstration attached to a structure violation: key from the relation alone, proof with
/// the offending witness.
fn demo_flow(rel: &OpRel, w: &crate::ops::W) -> Option<String> {
    use midnight_zk_stdlib as zs;
    let r = catch(|| {
        let unk = MidnightCircuit::from_relation(rel);
        let k = unk.min_k();
        if k > 12 {
            return "skipped (k > 12)".to_string();
        }
        let params = ParamsKZG::<Bls12>::unsafe_setup(k, ChaCha8Rng::seed_from_u64(k as u64 + 99));
        let vk = zs::setup_vk(&params, rel);
        let pk = zs::setup_pk(rel, &vk);
        let circ = MidnightCircuit::new(rel, Value::known(vec![]), Value::known(w.clone()), Some(8));
        let Ok(s) = synth(&circ, false, None) else { return "witness synthesis failed".to_string() };
        let inst = derive_instance(&s);
        let pi = inst.get(1).cloned().unwrap_or_default();
        let committed = inst.first().cloned().unwrap_or_default();
        match prove_one(&params, rel, &vk, &pk, &pi, &committed, w) {
            Ok(Ok(())) => "proof VERIFIES".to_string(),
            other => format!("proof REJECTED: {other:?}"),
        }
    });
    Some(r.unwrap_or_else(|p| format!("panic: {p}")))
}

/// Real keys and proofs through the public `zk_stdlib` API: the key is generated from the
/// relation alone (no witness), the proof with the witness; it must verify, and the number of
/// public inputs recorded in the key must be the number the witness run binds.
fn prove_flow(ctx: &mut Ctx, srs: &mut SrsCache, rel: &OpRel, name: &str, cls: &[crate::ops::Class], max_classes: usize, max_k: u32) {
    use midnight_zk_stdlib as zs;
    let unk = MidnightCircuit::from_relation(rel);
    let Ok(k) = catch(|| unk.min_k()) else { return };
    if k > max_k {
        ctx.count("flow_skipped_k");
        return;
    }
    let params = srs.get(k).clone();
    let keys = catch(|| {
        let vk = zs::setup_vk(&params, rel);
        let pk = zs::setup_pk(rel, &vk);
        (vk, pk)
    });
    let (vk, pk) = match keys {
        Ok(x) => x,
        Err(e) => {
            ctx.oracle_fail(&format!("flow-keygen:{name}"), "setup_vk/setup_pk without witness fails", json!({"circuit": name, "k": k, "error": e}));
            return;
        }
    };
    let mut done = 0;
    for c in cls.iter().filter(|c| c.sat) {
        if done >= max_classes {
            break;
        }
        // public inputs of this witness, from a recorded run
        let circ = MidnightCircuit::new(rel, Value::known(vec![]), Value::known(c.w.clone()), Some(8));
        let Ok(s) = synth(&circ, false, None) else { continue };
        let inst = derive_instance(&s);
        let pi = inst.get(1).cloned().unwrap_or_default();
        let committed = inst.first().cloned().unwrap_or_default();
        if committed != c.w.committed {
            continue;
        }
        done += 1;
        let res = prove_one(&params, rel, &vk, &pk, &pi, &committed, &c.w);
        ctx.count("flow_proofs");
        match res {
            Ok(Ok(())) => ctx.count("flow_verified"),
            other => {
                ctx.oracle_fail(
                    &format!("flow:{name}"),
                    "proof made with the witness does not verify under the key generated without witness",
                    json!({"circuit": name, "class": c.name, "witness": c.w.render(), "k": k, "result": format!("{other:?}")}),
                );
            }
        }
    }
}

/// Range table (`pow2range.rs: load_table`): the rows loaded against the model's rows for the
/// tags queried during synthesis.
fn p2r_case(ctx: &mut Ctx, s: &Synth, mbl: usize) {
    let log = s.log.as_ref().unwrap();
    // table cells of the block named "pow2range table"
    let mut cells: Vec<(usize, usize, F)> = vec![];
    let mut inside = false;
    for e in &s.evs {
        match e {
            AbsEv::Enter(n) => inside = n == "pow2range table",
            AbsEv::Exit => inside = false,
            AbsEv::Fix(c, r, v) if inside => cells.push((*c, *r, *v)),
            _ => {}
        }
    }
    let Some(t_tag) = cells.iter().map(|c| c.0).min() else { return };
    let mut d = Dig::default();
    let mut rows = 0usize;
    let n = cells.iter().map(|c| c.1 + 1).max().unwrap_or(0);
    for r in 0..n {
        let tag = cells.iter().find(|c| c.0 == t_tag && c.1 == r).map(|c| c.2);
        let val = cells.iter().find(|c| c.0 == t_tag + 1 && c.1 == r).map(|c| c.2);
        if let (Some(t), Some(v)) = (tag, val) {
            d.val_small(&t);
            d.val_small(&v);
            rows += 1;
        }
    }
    // tags queried: values of the fixed tag column (allocated right before the table columns)
    let mut tags: Vec<u64> = vec![];
    for it in &log.items {
        if let Item::Region { passes, .. } = it {
            for e in passes.last().map(|p| p.as_slice()).unwrap_or(&[]) {
                if let RelEv::Fix(c, _, Some(v)) = e {
                    if *c + 1 == t_tag {
                        let x = mzkh::fe_big(v).to_u64_digits().first().copied().unwrap_or(0);
                        if !tags.contains(&x) {
                            tags.push(x);
                        }
                    }
                }
            }
        }
    }
    tags.sort();
    ctx.case("p2r", true, &format!("p2r {mbl} {}", mzkh::join(&tags)), &format!("n={rows} D={}", d.0));
}

/// Which tables `MidnightCircuit::synthesize` loads (configured AND used).
fn tables_case(ctx: &mut Ctx, rel: &OpRel, unknown: &MidnightCircuit<OpRel>) {
    use midnight_zk_stdlib::Relation;
    let Ok(s) = synth(unknown, true, None) else { return };
    let arch = rel.used_chips();
    let a = [arch.sha2_256, arch.sha2_512, arch.base64, arch.automaton, arch.keccak_256 || arch.sha3_256, arch.blake2b];
    let u = rel.op.used_tables();
    let bits = |b: &[bool; 6]| b.iter().map(|x| if *x { '1' } else { '0' }).collect::<String>();
    // Three chips (SHA-256, SHA-512, Keccak/SHA-3) all call their table "spread table"; the load order in
    // `MidnightCircuit::synthesize` is fixed (sha256, sha512, base64, automaton, keccak/sha3, blake2b), so the
    // i-th block of "spread table" regions of the real run is attributed to the i-th chip among those three
    // that is configured and used by the operation; a surplus block is reported as "spread?".
    let spread_owners: Vec<&str> = [("sha256", 0usize), ("sha512", 1), ("keccak_sha3", 4)]
        .iter()
        .filter(|(_, i)| a[*i] && u[*i])
        .map(|(n, _)| *n)
        .collect();
    let mut spread_blocks = 0usize;
    let mut last_name = String::new();
    let mut seen: Vec<&str> = vec![];
    for it in &s.log.as_ref().unwrap().items {
        if let Item::Table { name } = it {
            let new_block = *name != last_name;
            last_name = name.clone();
            let tok = match name.as_str() {
                "pow2range table" => "p2r",
                "spread table" => {
                    if new_block {
                        spread_blocks += 1;
                    }
                    spread_owners.get(spread_blocks.saturating_sub(1)).copied().unwrap_or("spread?")
                }
                "Base64 table" => "base64",
                "automaton table" => "automaton",
                _ => "blake2b",
            };
            if seen.last() != Some(&tok) {
                seen.push(tok);
            }
        } else {
            last_name.clear();
        }
    }
    ctx.case("tables", true, &format!("tables {} {}", bits(&a), bits(&u)), &seen.join(" "));
}

/// Constant cache (`native_chip.rs: cached_fixed`): the constants for which the real chip opens
/// an "Assign fixed" region, in order, against the model's cache.
fn cache_case<C: Circuit<F>>(ctx: &mut Ctx, name: &str, cs: &[u64], unknown: &C) {
    let Ok(s) = synth(unknown, true, None) else { return };
    let log = s.log.as_ref().unwrap();
    let mut created: Vec<String> = vec![];
    for it in &log.items {
        if let Item::Region { name, passes } = it {
            if name == "Assign fixed" {
                if let Some(RelEv::Fix(_, _, Some(v))) = passes.last().and_then(|p| p.first()) {
                    created.push(fe_hex(v));
                }
            }
        }
    }
    // index of the cell each request resolves to = position of its value among the created ones
    let idx: Vec<usize> = cs
        .iter()
        .map(|c| created.iter().position(|v| *v == format!("0x{c:x}")).unwrap_or(usize::MAX))
        .collect();
    let _ = name;
    ctx.case(
        "cache",
        true,
        &format!("cache {}", cs.iter().map(|c| c.to_string()).collect::<Vec<_>>().join(" ")),
        &format!("{} ; {}", mzkh::join(&idx), if created.is_empty() { "-".to_string() } else { created.join(",") }),
    );
}

// ---------------------------------------------------------------------------------------------

/// Operation circuits proved for real in the quick tier.
const FLOW_QUICK: &[&str] = &[
    "Add", "IsZero", "Select", "ToLeBits(Some(8),true)", "LowerThan(8)", "PiNative(5)", "PiCommitted",
    "FixedSeq([1,2,1,3,2,1])", "JubAdd", "Poseidon(2)", "VecLimits", "MapGet", "Base64(8,true)", "BigAdd(64)",
    // regressions: chips configured but never used (base64 could not be proved before 1d7439c)
    "Unused(0)", "Unused(2)", "Unused(6)",
    // value -> structure channels: key without witness, proofs selecting the first and the last entries
    "K1KofN(3,1)", "K1KofN(4,2)", "K1MsmBits(4,1)",
    // example relations
    "Schnorr", "EccOps",
];

pub fn run(ctx: &mut Ctx) {
    let mut srs = SrsCache::new();
    let tier = ctx.tier.clone();
    let nrand = if ctx.thorough() { 6 } else { 2 };
    let small_limit = if ctx.quick() { 400 } else if ctx.search() { 0 } else { 1500 };
    let only = std::env::var("C09_ONLY").ok();
    // every operation at max_bit_len 8; a few again with a larger range table
    let mut jobs: Vec<(Op, u8)> = all_ops(&tier)
        .into_iter()
        // the failing-input search leaves out the circuits whose single synthesis takes seconds
        .filter(|o| !ctx.search() || !matches!(o, Op::K1Msm(_) | Op::BlsMsm | Op::BlsAdd | Op::BlsDouble | Op::BigModExp(1024, _) | Op::BigMul(1024) | Op::Sha512(_) | Op::Blake2b(_) | Op::Blake2b512(_) | Op::Sha3(_) | Op::Keccak(_)))
        .map(|o| (o, 8u8))
        .collect();
    jobs.push((Op::ToLeBits(Some(13), true), 10));
    jobs.push((Op::LowerThan(20), 12));
    if !ctx.quick() {
        jobs.push((Op::ToLeBits(Some(64), true), 13));
        jobs.push((Op::BigAdd(300), 11));
        jobs.push((Op::Sha256(3), 11));
        jobs.push((Op::FfMul(true), 14));
    }
    for (op, mbl) in jobs {
        let name = if mbl == 8 { op.name() } else { format!("{}@mbl{mbl}", op.name()) };
        if let Some(f) = &only {
            if !name.starts_with(f.as_str()) {
                continue;
            }
        }
        let mut rng = ctx.rng(&format!("classes:{name}"));
        let rel = OpRel { op: op.clone() };
        let cls = classes(&op, &mut rng, nrand);
        // the V1 planner only on small circuits in the quick tier
        let v1 = ctx.thorough() || matches!(op, Op::Add | Op::IsZero | Op::LowerThan(8) | Op::ToLeBits(Some(8), true) | Op::PiNative(5) | Op::JubAdd | Op::Poseidon(2) | Op::VecLimits | Op::Select);
        let unknown = MidnightCircuit::new(&rel, Value::unknown(), Value::unknown(), Some(mbl));
        let knowns: Vec<Known<MidnightCircuit<OpRel>>> = cls
            .iter()
            .map(|c| Known {
                class: c.name.clone(),
                sat: c.sat,
                witness: c.w.render(),
                circuit: MidnightCircuit::new(&rel, Value::known(vec![]), Value::known(c.w.clone()), Some(mbl)),
            })
            .collect();
        ctx.count(&format!("op:{}", name.split('(').next().unwrap()));
        let demo = |ci: usize| demo_flow(&rel, &cls[ci].w);
        if let Err(p) = catch(|| check_family(ctx, &mut srs, &name, &unknown, &knowns, small_limit, &demo, mbl as usize, v1)) {
            ctx.case("selfcheck", false, &format!("selfcheck no-panic {name}"), &format!("panic: {p}"));
        }
        tables_case(ctx, &rel, &unknown);
        if let Op::FixedSeq(cs) = &op {
            cache_case(ctx, &name, cs, &unknown);
        }
        // real proofs
        let flow = mbl == 8 && if ctx.quick() { FLOW_QUICK.contains(&name.as_str()) } else { true };
        if flow {
            let (nc, mk) = if ctx.quick() { (2, 13) } else if ctx.search() { (1, 10) } else { (3, 13) };
            prove_flow(ctx, &mut srs, &rel, &name, &cls, nc, mk);
        }
    }
    // ZKIR programs through the real compiler
    let _ = ();
    for p in crate::zkir::programs() {
        let name = format!("zkir:{}", p.text.replace(' ', "_"));
        if let Some(f) = &only {
            if !name.starts_with(f.as_str()) {
                continue;
            }
        }
        let rel = match crate::zkir::relation(&p) {
            Ok(r) => r,
            Err(e) => {
                ctx.oracle_fail(&format!("zkir-compile:{name}"), "ZKIR program of the C09 list is rejected", json!({"program": p.text, "error": e}));
                continue;
            }
        };
        ctx.count("op:zkir");
        let unknown = MidnightCircuit::new(&rel, Value::unknown(), Value::unknown(), Some(8));
        let knowns: Vec<Known<MidnightCircuit<midnight_zkir::ZkirRelation>>> = p
            .witnesses
            .iter()
            .map(|(txt, w)| Known {
                class: txt.clone(),
                sat: true,
                witness: txt.clone(),
                circuit: MidnightCircuit::new(&rel, Value::known(vec![]), Value::known(w.clone()), Some(8)),
            })
            .collect();
        if let Err(p) = catch(|| check_family(ctx, &mut srs, &name, &unknown, &knowns, small_limit, &|_| None, 8, false)) {
            ctx.case("selfcheck", false, &format!("selfcheck no-panic {name}"), &format!("panic: {p}"));
        }
    }
    let hashes = VK_HASHES.with(|h| h.borrow().clone());
    ctx.set_extra("vk_hashes", json!(hashes));
}
