//! The operation circuits: one small `Relation` per library operation, built through the REAL
//! `ZkStdLib`, together with the witness classes that steer the data-dependent branches of the
//! off-circuit helpers (zero / non-zero, equal / unequal, carries, identity points, lengths).

use ff::{Field, PrimeField};
use midnight_circuits::{
    instructions::{public_input::CommittedInstanceInstructions, *},
    types::{AssignedBit, AssignedByte, AssignedNative},
};
use midnight_proofs::{
    circuit::{Layouter, Value},
    plonk::Error,
};
use midnight_zk_stdlib::{Relation, ZkStdLib, ZkStdLibArch};
use num_bigint::BigUint;
use rand::{Rng, RngCore};
use rand_chacha::ChaCha8Rng;

use crate::F;

pub type AN = AssignedNative<F>;
pub type AB = AssignedBit<F>;
pub type AY = AssignedByte<F>;

/// A witness: typed pools the operation picks from.
#[derive(Clone, Debug, Default)]
pub struct W {
    pub f: Vec<F>,
    pub b: Vec<bool>,
    pub y: Vec<u8>,
    pub big: Vec<BigUint>,
    /// values bound through the committed-instance column
    pub committed: Vec<F>,
}

impl W {
    pub fn f(v: &[F]) -> W {
        W { f: v.to_vec(), ..W::default() }
    }
    pub fn render(&self) -> String {
        format!(
            "f=[{}] b=[{}] y=[{}] big=[{}]",
            self.f.iter().map(mzkh::fe_hex).collect::<Vec<_>>().join(","),
            self.b.iter().map(|b| (*b as u8).to_string()).collect::<Vec<_>>().join(","),
            self.y.iter().map(|b| b.to_string()).collect::<Vec<_>>().join(","),
            self.big.iter().map(mzkh::big_hex).collect::<Vec<_>>().join(","),
        )
    }
}

#[derive(Clone, Debug, PartialEq, Eq)]
pub enum Op {
    // native arithmetic
    Add,
    Sub,
    Mul,
    Div,
    Neg,
    Inv0,
    AddConst(u64),
    MulConst(u64),
    Pow(u64),
    LinComb(usize),
    AddAndMul,
    // predicates / control flow
    IsZero,
    IsEqual,
    IsEqualFixed(u64),
    AssertNonZero,
    AssertNotEqual,
    Select,
    CondSwap,
    // decomposition / range
    ToLeBits(Option<usize>, bool),
    ToLeBytes(Option<usize>),
    FromLeBits(usize),
    FromLeBytes(usize),
    ToChunks(usize, Option<usize>),
    Sgn0,
    LeBitsLowerThan(usize, u64),
    LowerThan(u32),
    AssertLowerThanFixed(u64),
    AssignLowerThanFixed(u64),
    DivRem(u64),
    // bits / bitwise
    BinAnd(usize),
    BinOr(usize),
    BinXor(usize),
    BinNot,
    Band(usize),
    Bor(usize),
    Bxor(usize),
    Bnot(usize),
    // bytes
    ByteEq,
    // public inputs
    PiNative(usize),
    PiBit,
    PiByte,
    PiCommitted,
    // constant cache
    FixedSeq(Vec<u64>),
}

impl Op {
    pub fn name(&self) -> String {
        format!("{self:?}").replace(' ', "")
    }
}

#[derive(Clone, Debug)]
pub struct OpRel {
    pub op: Op,
}

fn fv(w: &Value<W>, i: usize) -> Value<F> {
    w.as_ref().map(|w| w.f[i])
}
fn bv(w: &Value<W>, i: usize) -> Value<bool> {
    w.as_ref().map(|w| w.b[i])
}
fn yv(w: &Value<W>, i: usize) -> Value<u8> {
    w.as_ref().map(|w| w.y[i])
}

impl Relation for OpRel {
    type Instance = Vec<F>;
    type Witness = W;

    fn format_instance(instance: &Self::Instance) -> Result<Vec<F>, Error> {
        Ok(instance.clone())
    }

    fn format_committed_instances(w: &Self::Witness) -> Vec<F> {
        w.committed.clone()
    }

    fn used_chips(&self) -> ZkStdLibArch {
        ZkStdLibArch::default()
    }

    fn write_relation<Wr: std::io::Write>(&self, _writer: &mut Wr) -> std::io::Result<()> {
        Ok(())
    }

    fn read_relation<R: std::io::Read>(_reader: &mut R) -> std::io::Result<Self> {
        unimplemented!()
    }

    fn circuit(
        &self,
        s: &ZkStdLib,
        l: &mut impl Layouter<F>,
        _instance: Value<Self::Instance>,
        w: Value<Self::Witness>,
    ) -> Result<(), Error> {
        let nat = |l: &mut _, i: usize| -> Result<AN, Error> { s.assign(l, fv(&w, i)) };
        let bit = |l: &mut _, i: usize| -> Result<AB, Error> { s.assign(l, bv(&w, i)) };
        let byte = |l: &mut _, i: usize| -> Result<AY, Error> { s.assign(l, yv(&w, i)) };
        // every operation exposes its result, so the number and position of the public inputs
        // is part of the compared structure
        let out = |l: &mut _, x: &AN| -> Result<(), Error> { s.constrain_as_public_input(l, x) };
        let outb = |l: &mut _, x: &AB| -> Result<(), Error> { s.constrain_as_public_input(l, x) };
        match &self.op {
            Op::Add => {
                let (x, y) = (nat(l, 0)?, nat(l, 1)?);
                let r = s.add(l, &x, &y)?;
                out(l, &r)
            }
            Op::Sub => {
                let (x, y) = (nat(l, 0)?, nat(l, 1)?);
                let r = s.sub(l, &x, &y)?;
                out(l, &r)
            }
            Op::Mul => {
                let (x, y) = (nat(l, 0)?, nat(l, 1)?);
                let r = s.mul(l, &x, &y, None)?;
                out(l, &r)
            }
            Op::Div => {
                let (x, y) = (nat(l, 0)?, nat(l, 1)?);
                let r = s.div(l, &x, &y)?;
                out(l, &r)
            }
            Op::Neg => {
                let x = nat(l, 0)?;
                let r = s.neg(l, &x)?;
                out(l, &r)
            }
            Op::Inv0 => {
                let x = nat(l, 0)?;
                let r = s.inv0(l, &x)?;
                out(l, &r)
            }
            Op::AddConst(c) => {
                let x = nat(l, 0)?;
                let r = s.add_constant(l, &x, F::from(*c))?;
                out(l, &r)
            }
            Op::MulConst(c) => {
                let x = nat(l, 0)?;
                let r = s.mul_by_constant(l, &x, F::from(*c))?;
                out(l, &r)
            }
            Op::Pow(n) => {
                let x = nat(l, 0)?;
                let r = s.pow(l, &x, *n)?;
                out(l, &r)
            }
            Op::LinComb(n) => {
                let xs = (0..*n).map(|i| nat(l, i)).collect::<Result<Vec<_>, _>>()?;
                let terms: Vec<(F, AN)> =
                    xs.into_iter().enumerate().map(|(i, x)| (F::from(i as u64 + 2), x)).collect();
                let r = s.linear_combination(l, &terms, F::from(7))?;
                out(l, &r)
            }
            Op::AddAndMul => {
                let (x, y, z) = (nat(l, 0)?, nat(l, 1)?, nat(l, 2)?);
                let r = s.add_and_mul(
                    l,
                    (F::from(2), &x),
                    (F::from(3), &y),
                    (F::from(5), &z),
                    F::from(7),
                    F::from(11),
                )?;
                out(l, &r)
            }
            Op::IsZero => {
                let x = nat(l, 0)?;
                let r = s.is_zero(l, &x)?;
                outb(l, &r)
            }
            Op::IsEqual => {
                let (x, y) = (nat(l, 0)?, nat(l, 1)?);
                let r = s.is_equal(l, &x, &y)?;
                outb(l, &r)
            }
            Op::IsEqualFixed(c) => {
                let x = nat(l, 0)?;
                let r = s.is_equal_to_fixed(l, &x, F::from(*c))?;
                outb(l, &r)
            }
            Op::AssertNonZero => {
                let x = nat(l, 0)?;
                s.assert_non_zero(l, &x)
            }
            Op::AssertNotEqual => {
                let (x, y) = (nat(l, 0)?, nat(l, 1)?);
                s.assert_not_equal(l, &x, &y)
            }
            Op::Select => {
                let c = bit(l, 0)?;
                let (x, y) = (nat(l, 0)?, nat(l, 1)?);
                let r = s.select(l, &c, &x, &y)?;
                out(l, &r)
            }
            Op::CondSwap => {
                let c = bit(l, 0)?;
                let (x, y) = (nat(l, 0)?, nat(l, 1)?);
                let (a, b) = s.cond_swap(l, &c, &x, &y)?;
                out(l, &a)?;
                out(l, &b)
            }
            Op::ToLeBits(n, canon) => {
                let x = nat(l, 0)?;
                let bits = s.assigned_to_le_bits(l, &x, *n, *canon)?;
                outb(l, &bits[0])?;
                outb(l, bits.last().unwrap())
            }
            Op::ToLeBytes(n) => {
                let x = nat(l, 0)?;
                let bytes = s.assigned_to_le_bytes(l, &x, *n)?;
                s.constrain_as_public_input(l, &bytes[0])?;
                s.constrain_as_public_input(l, bytes.last().unwrap())
            }
            Op::FromLeBits(n) => {
                let bits = (0..*n).map(|i| bit(l, i)).collect::<Result<Vec<_>, _>>()?;
                let r: AN = s.assigned_from_le_bits(l, &bits)?;
                out(l, &r)
            }
            Op::FromLeBytes(n) => {
                let bytes = (0..*n).map(|i| byte(l, i)).collect::<Result<Vec<_>, _>>()?;
                let r: AN = s.assigned_from_le_bytes(l, &bytes)?;
                out(l, &r)
            }
            Op::ToChunks(bits, nb) => {
                let x = nat(l, 0)?;
                let cs = s.assigned_to_le_chunks(l, &x, *bits, *nb)?;
                out(l, &cs[0])?;
                out(l, cs.last().unwrap())
            }
            Op::Sgn0 => {
                let x = nat(l, 0)?;
                let r = s.sgn0(l, &x)?;
                outb(l, &r)
            }
            Op::LeBitsLowerThan(n, bound) => {
                let bits = (0..*n).map(|i| bit(l, i)).collect::<Result<Vec<_>, _>>()?;
                let r = s.le_bits_lower_than(l, &bits, BigUint::from(*bound))?;
                let r2 = s.le_bits_geq_than(l, &bits, BigUint::from(*bound))?;
                outb(l, &r)?;
                outb(l, &r2)
            }
            Op::LowerThan(n) => {
                let (x, y) = (nat(l, 0)?, nat(l, 1)?);
                let r = s.lower_than(l, &x, &y, *n)?;
                outb(l, &r)
            }
            Op::AssertLowerThanFixed(b) => {
                let x = nat(l, 0)?;
                s.assert_lower_than_fixed(l, &x, &BigUint::from(*b))
            }
            Op::AssignLowerThanFixed(b) => {
                let r = s.assign_lower_than_fixed(l, fv(&w, 0), &BigUint::from(*b))?;
                out(l, &r)
            }
            Op::DivRem(m) => {
                let x = nat(l, 0)?;
                let (q, r) = s.div_rem(l, &x, BigUint::from(*m), None)?;
                out(l, &q)?;
                out(l, &r)
            }
            Op::BinAnd(n) | Op::BinOr(n) | Op::BinXor(n) => {
                let bits = (0..*n).map(|i| bit(l, i)).collect::<Result<Vec<_>, _>>()?;
                let r = match &self.op {
                    Op::BinAnd(_) => s.and(l, &bits)?,
                    Op::BinOr(_) => s.or(l, &bits)?,
                    _ => s.xor(l, &bits)?,
                };
                outb(l, &r)
            }
            Op::BinNot => {
                let b = bit(l, 0)?;
                let r = s.not(l, &b)?;
                outb(l, &r)
            }
            Op::Band(n) | Op::Bor(n) | Op::Bxor(n) => {
                let (x, y) = (nat(l, 0)?, nat(l, 1)?);
                let r = match &self.op {
                    Op::Band(_) => s.band(l, &x, &y, *n)?,
                    Op::Bor(_) => s.bor(l, &x, &y, *n)?,
                    _ => s.bxor(l, &x, &y, *n)?,
                };
                out(l, &r)
            }
            Op::Bnot(n) => {
                let x = nat(l, 0)?;
                let r = s.bnot(l, &x, *n)?;
                out(l, &r)
            }
            Op::ByteEq => {
                let (x, y) = (byte(l, 0)?, byte(l, 1)?);
                let r = s.is_equal(l, &x, &y)?;
                outb(l, &r)
            }
            Op::PiNative(n) => {
                for i in 0..*n {
                    let _x: AN = s.assign_as_public_input(l, fv(&w, i))?;
                }
                Ok(())
            }
            Op::PiBit => {
                let _b: AB = s.assign_as_public_input(l, bv(&w, 0))?;
                Ok(())
            }
            Op::PiByte => {
                let _b: AY = s.assign_as_public_input(l, yv(&w, 0))?;
                Ok(())
            }
            Op::PiCommitted => {
                let x = nat(l, 0)?;
                s.constrain_as_committed_public_input(l, &x)?;
                let y = s.add_constant(l, &x, F::ONE)?;
                out(l, &y)
            }
            Op::FixedSeq(cs) => {
                // constants are parameters of the operation, not witnesses; the witness is added
                // so that the circuit has an advice part at all
                let x = nat(l, 0)?;
                let mut acc = x;
                for c in cs {
                    let k: AN = s.assign_fixed(l, F::from(*c))?;
                    acc = s.add(l, &acc, &k)?;
                }
                out(l, &acc)
            }
        }
    }
}

// ---------------------------------------------------------------------------------------------
// witness classes

pub struct Class {
    pub name: String,
    pub w: W,
    /// whether the relation is expected to be satisfiable with this witness
    pub sat: bool,
}

fn cls(name: &str, w: W) -> Class {
    Class { name: name.to_string(), w, sat: true }
}
fn unsat(name: &str, w: W) -> Class {
    Class { name: name.to_string(), w, sat: false }
}

pub fn rand_f(rng: &mut ChaCha8Rng) -> F {
    F::random(rng)
}

fn two_pow(n: u32) -> F {
    F::from(2).pow_vartime([n as u64])
}

/// Boundary natives.
fn boundary_f() -> Vec<(&'static str, F)> {
    vec![
        ("0", F::ZERO),
        ("1", F::ONE),
        ("-1", -F::ONE),
        ("2^64-1", F::from(u64::MAX)),
        ("2^64", two_pow(64)),
        ("2^128", two_pow(128)),
        ("2^254", two_pow(254)),
        ("(p-1)/2", (-F::ONE) * F::from(2).invert().unwrap()),
        ("(p+1)/2", F::from(2).invert().unwrap()),
    ]
}

fn bits_of(x: u128, n: usize) -> Vec<bool> {
    (0..n).map(|i| i < 128 && (x >> i) & 1 == 1).collect()
}

pub fn classes(op: &Op, rng: &mut ChaCha8Rng, nrand: usize) -> Vec<Class> {
    let mut out = vec![];
    let bf = boundary_f();
    match op {
        // binary natives: pairs steering zero / equal / opposite / carry
        Op::Add | Op::Sub | Op::Mul | Op::IsEqual | Op::AssertNotEqual | Op::Div => {
            for (n, x) in &bf {
                out.push(cls(&format!("x={n},y=x"), W::f(&[*x, *x])));
                out.push(cls(&format!("x={n},y=-x"), W::f(&[*x, -*x])));
                out.push(cls(&format!("x={n},y=0"), W::f(&[*x, F::ZERO])));
                out.push(cls(&format!("x=0,y={n}"), W::f(&[F::ZERO, *x])));
                out.push(cls(&format!("x={n},y=1"), W::f(&[*x, F::ONE])));
            }
            for i in 0..nrand {
                out.push(cls(&format!("rand{i}"), W::f(&[rand_f(rng), rand_f(rng)])));
            }
            for c in out.iter_mut() {
                let (x, y) = (c.w.f[0], c.w.f[1]);
                if (*op == Op::AssertNotEqual && x == y) || (*op == Op::Div && y == F::ZERO) {
                    c.sat = false;
                }
            }
        }
        Op::Neg
        | Op::Inv0
        | Op::AddConst(_)
        | Op::MulConst(_)
        | Op::Pow(_)
        | Op::IsZero
        | Op::IsEqualFixed(_)
        | Op::AssertNonZero
        | Op::Sgn0
        | Op::ToLeBits(None, _)
        | Op::ToLeBytes(None)
        | Op::ToChunks(_, None)
        | Op::FixedSeq(_)
        | Op::PiCommitted => {
            for (n, x) in &bf {
                out.push(cls(&format!("x={n}"), W::f(&[*x])));
            }
            if let Op::IsEqualFixed(c) | Op::AddConst(c) | Op::MulConst(c) = op {
                out.push(cls("x=c", W::f(&[F::from(*c)])));
                out.push(cls("x=-c", W::f(&[-F::from(*c)])));
            }
            for i in 0..nrand {
                out.push(cls(&format!("rand{i}"), W::f(&[rand_f(rng)])));
            }
            for c in out.iter_mut() {
                if *op == Op::AssertNonZero && c.w.f[0] == F::ZERO {
                    c.sat = false;
                }
                if *op == Op::PiCommitted {
                    c.w.committed = vec![c.w.f[0]];
                }
            }
        }
        Op::LinComb(n) => {
            out.push(cls("all0", W::f(&vec![F::ZERO; *n])));
            out.push(cls("all-1", W::f(&vec![-F::ONE; *n])));
            for i in 0..nrand {
                out.push(cls(&format!("rand{i}"), W::f(&(0..*n).map(|_| rand_f(rng)).collect::<Vec<_>>())));
            }
        }
        Op::AddAndMul => {
            out.push(cls("all0", W::f(&[F::ZERO; 3])));
            out.push(cls("all-1", W::f(&[-F::ONE; 3])));
            out.push(cls("x0", W::f(&[F::ZERO, rand_f(rng), rand_f(rng)])));
            for i in 0..nrand {
                out.push(cls(&format!("rand{i}"), W::f(&[rand_f(rng), rand_f(rng), rand_f(rng)])));
            }
        }
        Op::Select | Op::CondSwap => {
            for b in [false, true] {
                for (n, x, y) in [
                    ("eq", F::from(5), F::from(5)),
                    ("zero", F::ZERO, F::ZERO),
                    ("ne", F::from(5), -F::ONE),
                    ("rand", rand_f(rng), rand_f(rng)),
                ] {
                    out.push(cls(&format!("c={b},{n}"), W { f: vec![x, y], b: vec![b], ..W::default() }));
                }
            }
        }
        Op::ToLeBits(Some(n), _) => {
            let n = *n as u32;
            for (name, x) in [
                ("0", F::ZERO),
                ("1", F::ONE),
                ("2^n-1", two_pow(n) - F::ONE),
                ("2^(n-1)", two_pow(n - 1)),
                ("alt", F::from_u128(0xAAAA_AAAA_AAAA_AAAA_AAAA_AAAA_AAAA_AAAAu128 & ((1u128 << n.min(127)) - 1))),
            ] {
                out.push(cls(&format!("x={name}"), W::f(&[x])));
            }
            out.push(unsat("x=2^n", W::f(&[two_pow(n)])));
            out.push(unsat("x=-1", W::f(&[-F::ONE])));
            for i in 0..nrand {
                let r = F::from_u128(rng.gen::<u128>() & ((1u128 << n.min(127)) - 1));
                out.push(cls(&format!("rand{i}"), W::f(&[r])));
            }
        }
        Op::ToLeBytes(Some(n)) => {
            let bits = 8 * *n as u32;
            for (name, x) in [("0", F::ZERO), ("1", F::ONE), ("max", two_pow(bits) - F::ONE), ("255", F::from(255))] {
                out.push(cls(&format!("x={name}"), W::f(&[x])));
            }
            if *n > 1 {
                out.push(cls("x=256", W::f(&[F::from(256)])));
            }
            out.push(unsat("x=2^bits", W::f(&[two_pow(bits)])));
            for i in 0..nrand {
                let r = F::from_u128(rng.gen::<u128>() & ((1u128 << bits.min(127)) - 1));
                out.push(cls(&format!("rand{i}"), W::f(&[r])));
            }
        }
        Op::ToChunks(bits, Some(nb)) => {
            let tot = (*bits * *nb) as u32;
            for (name, x) in [("0", F::ZERO), ("1", F::ONE), ("max", two_pow(tot) - F::ONE)] {
                out.push(cls(&format!("x={name}"), W::f(&[x])));
            }
            out.push(unsat("x=2^tot", W::f(&[two_pow(tot)])));
            for i in 0..nrand {
                let r = F::from_u128(rng.gen::<u128>() & ((1u128 << tot.min(127)) - 1));
                out.push(cls(&format!("rand{i}"), W::f(&[r])));
            }
        }
        Op::FromLeBits(n) | Op::BinAnd(n) | Op::BinOr(n) | Op::BinXor(n) | Op::LeBitsLowerThan(n, _) => {
            let n = *n;
            out.push(cls("all0", W { b: vec![false; n], ..W::default() }));
            out.push(cls("all1", W { b: vec![true; n], ..W::default() }));
            out.push(cls("first", W { b: bits_of(1, n), ..W::default() }));
            out.push(cls("last", W { b: (0..n).map(|i| i == n - 1).collect(), ..W::default() }));
            if let Op::LeBitsLowerThan(_, bound) = op {
                for d in [-1i64, 0, 1] {
                    let v = (*bound as i64 + d) as u128;
                    out.push(cls(&format!("bound{d:+}"), W { b: bits_of(v, n), ..W::default() }));
                }
            }
            for i in 0..nrand {
                out.push(cls(&format!("rand{i}"), W { b: (0..n).map(|_| rng.gen()).collect(), ..W::default() }));
            }
        }
        Op::FromLeBytes(n) => {
            let n = *n;
            out.push(cls("all0", W { y: vec![0; n], ..W::default() }));
            out.push(cls("allff", W { y: vec![255; n], ..W::default() }));
            for i in 0..nrand {
                out.push(cls(&format!("rand{i}"), W { y: (0..n).map(|_| rng.gen()).collect(), ..W::default() }));
            }
        }
        Op::LowerThan(n) => {
            let m = (1u128 << n) - 1;
            for (name, x, y) in [
                ("0,0", 0u128, 0u128),
                ("0,max", 0, m),
                ("max,0", m, 0),
                ("max,max", m, m),
                ("x=y-1", 6, 7),
                ("x=y+1", 8, 7),
                ("x=y", 7, 7),
            ] {
                out.push(cls(name, W::f(&[F::from_u128(x), F::from_u128(y)])));
            }
            out.push(unsat("x=2^n", W::f(&[F::from_u128(m + 1), F::ZERO])));
            out.push(unsat("y=-1", W::f(&[F::ZERO, -F::ONE])));
            for i in 0..nrand {
                out.push(cls(&format!("rand{i}"), W::f(&[F::from_u128(rng.gen::<u128>() & m), F::from_u128(rng.gen::<u128>() & m)])));
            }
        }
        Op::AssertLowerThanFixed(b) | Op::AssignLowerThanFixed(b) => {
            out.push(cls("0", W::f(&[F::ZERO])));
            out.push(cls("b-1", W::f(&[F::from(*b - 1)])));
            out.push(unsat("b", W::f(&[F::from(*b)])));
            out.push(unsat("b+1", W::f(&[F::from(*b + 1)])));
            out.push(unsat("-1", W::f(&[-F::ONE])));
            for i in 0..nrand {
                out.push(cls(&format!("rand{i}"), W::f(&[F::from(rng.next_u64() % *b)])));
            }
        }
        Op::DivRem(m) => {
            for (n, x) in &bf {
                out.push(cls(&format!("x={n}"), W::f(&[*x])));
            }
            for d in [-1i64, 0, 1] {
                out.push(cls(&format!("x=m{d:+}"), W::f(&[F::from((*m as i64 + d) as u64)])));
                out.push(cls(&format!("x=3m{d:+}"), W::f(&[F::from((3 * *m as i64 + d) as u64)])));
            }
            for i in 0..nrand {
                out.push(cls(&format!("rand{i}"), W::f(&[rand_f(rng)])));
            }
        }
        Op::BinNot | Op::PiBit => {
            out.push(cls("0", W { b: vec![false], ..W::default() }));
            out.push(cls("1", W { b: vec![true], ..W::default() }));
        }
        Op::Band(n) | Op::Bor(n) | Op::Bxor(n) | Op::Bnot(n) => {
            let m = if *n >= 128 { u128::MAX } else { (1u128 << n) - 1 };
            for (name, x, y) in [("0,0", 0u128, 0u128), ("max,max", m, m), ("max,0", m, 0), ("alt", m & 0x5555_5555_5555_5555_5555_5555_5555_5555, m & 0xAAAA_AAAA_AAAA_AAAA_AAAA_AAAA_AAAA_AAAA)] {
                out.push(cls(name, W::f(&[F::from_u128(x), F::from_u128(y)])));
            }
            if *n < 128 {
                out.push(unsat("x=2^n", W::f(&[F::from_u128(m + 1), F::ZERO])));
            }
            for i in 0..nrand {
                out.push(cls(&format!("rand{i}"), W::f(&[F::from_u128(rng.gen::<u128>() & m), F::from_u128(rng.gen::<u128>() & m)])));
            }
        }
        Op::ByteEq => {
            for (x, y) in [(0u8, 0u8), (255, 255), (0, 255), (255, 0), (7, 8)] {
                out.push(cls(&format!("{x},{y}"), W { y: vec![x, y], ..W::default() }));
            }
        }
        Op::PiNative(n) => {
            out.push(cls("all0", W::f(&vec![F::ZERO; *n])));
            out.push(cls("all-1", W::f(&vec![-F::ONE; *n])));
            for i in 0..nrand {
                out.push(cls(&format!("rand{i}"), W::f(&(0..*n).map(|_| rand_f(rng)).collect::<Vec<_>>())));
            }
        }
        Op::PiByte => {
            for x in [0u8, 1, 255] {
                out.push(cls(&format!("{x}"), W { y: vec![x], ..W::default() }));
            }
        }
    }
    out
}

pub fn all_ops(tier: &str) -> Vec<Op> {
    let mut v = vec![
        Op::Add,
        Op::Sub,
        Op::Mul,
        Op::Div,
        Op::Neg,
        Op::Inv0,
        Op::AddConst(0),
        Op::AddConst(5),
        Op::MulConst(0),
        Op::MulConst(1),
        Op::MulConst(5),
        Op::Pow(0),
        Op::Pow(1),
        Op::Pow(5),
        Op::LinComb(1),
        Op::LinComb(4),
        Op::LinComb(5),
        Op::LinComb(9),
        Op::AddAndMul,
        Op::IsZero,
        Op::IsEqual,
        Op::IsEqualFixed(0),
        Op::IsEqualFixed(7),
        Op::AssertNonZero,
        Op::AssertNotEqual,
        Op::Select,
        Op::CondSwap,
        Op::ToLeBits(None, true),
        Op::ToLeBits(None, false),
        Op::ToLeBits(Some(1), true),
        Op::ToLeBits(Some(8), true),
        Op::ToLeBits(Some(13), true),
        Op::ToLeBits(Some(64), true),
        Op::ToLeBytes(None),
        Op::ToLeBytes(Some(1)),
        Op::ToLeBytes(Some(4)),
        Op::FromLeBits(1),
        Op::FromLeBits(9),
        Op::FromLeBytes(3),
        Op::ToChunks(8, None),
        Op::ToChunks(5, Some(3)),
        Op::Sgn0,
        Op::LeBitsLowerThan(8, 100),
        Op::LowerThan(8),
        Op::LowerThan(20),
        Op::AssertLowerThanFixed(100),
        Op::AssertLowerThanFixed(256),
        Op::AssignLowerThanFixed(1000),
        Op::DivRem(7),
        Op::DivRem(256),
        Op::BinAnd(3),
        Op::BinOr(3),
        Op::BinXor(3),
        Op::BinNot,
        Op::Band(8),
        Op::Bor(8),
        Op::Bxor(16),
        Op::Bnot(8),
        Op::ByteEq,
        Op::PiNative(1),
        Op::PiNative(5),
        Op::PiBit,
        Op::PiByte,
        Op::PiCommitted,
        Op::FixedSeq(vec![1, 2, 1, 3, 2, 1]),
        Op::FixedSeq(vec![0, 0, 0]),
    ];
    if tier != "quick" {
        v.extend([
            Op::Pow(255),
            Op::LinComb(17),
            Op::ToLeBits(Some(128), true),
            Op::ToLeBits(Some(254), true),
            Op::ToLeBytes(Some(31)),
            Op::FromLeBits(64),
            Op::FromLeBytes(31),
            Op::LowerThan(64),
            Op::LowerThan(120),
            Op::Band(64),
            Op::Bxor(128),
            Op::DivRem(1 << 40),
            Op::FixedSeq((0..40).map(|i| i % 7).collect()),
        ]);
    }
    v
}
