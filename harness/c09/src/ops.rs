//! The operation circuits: one small `Relation` per library operation, built through the REAL
//! `ZkStdLib`, together with the witness classes that steer the data-dependent branches of the
//! off-circuit helpers (zero / non-zero, equal / unequal, carries, identity points, lengths).

use ff::{Field, PrimeField};
use group::Group;
use midnight_circuits::{
    biguint::AssignedBigUint,
    ecc::curves::CircuitCurve,
    field::foreign::params::MultiEmulationParams as MEP,
    hash::poseidon::PoseidonChip,
    instructions::{map::{MapCPU, MapInstructions}, public_input::CommittedInstanceInstructions, *},
    map::cpu::MapMt,
    types::{
        AssignedBit, AssignedByte, AssignedField, AssignedForeignPoint, AssignedNative,
        AssignedNativePoint, AssignedScalarOfNativeCurve, AssignedVector,
    },
};
use midnight_curves::{
    k256::{Fp as KFp, Fq as KFq, K256},
    Fr as JFr, G1Projective, JubjubExtended as Jub, JubjubSubgroup,
};
use midnight_proofs::{
    circuit::{Layouter, Value},
    plonk::Error,
};
use midnight_zk_stdlib::{Relation, ZkStdLib, ZkStdLibArch};
use num_bigint::BigUint;
use rand::{Rng, RngCore};
use rand_chacha::ChaCha8Rng;

use crate::F;

pub type AN = AssignedNative<F>;
pub type AB = AssignedBit<F>;
pub type AY = AssignedByte<F>;

/// A witness: typed pools the operation picks from.
#[derive(Clone, Debug, Default)]
pub struct W {
    pub f: Vec<F>,
    pub b: Vec<bool>,
    pub y: Vec<u8>,
    pub big: Vec<BigUint>,
    /// values bound through the committed-instance column
    pub committed: Vec<F>,
    pub js: Vec<JFr>,
    pub jp: Vec<JubjubSubgroup>,
    pub ks: Vec<KFq>,
    pub kb: Vec<KFp>,
    pub kp: Vec<K256>,
    pub gp: Vec<G1Projective>,
    /// variable-length byte vector (vector gadget, base64)
    pub vy: Vec<u8>,
    pub map: Option<Map>,
}

pub type Map = MapMt<F, PoseidonChip<F>>;
pub const VM: usize = 16;
pub const VA: usize = 4;

impl W {
    pub fn f(v: &[F]) -> W {
        W { f: v.to_vec(), ..W::default() }
    }
    pub fn render(&self) -> String {
        format!(
            "f=[{}] b=[{}] y=[{}] big=[{}] js={:?} jp={:?} ks={:?} kb={:?} kp={:?} gp={:?} vy={:?} map={}",
            self.f.iter().map(mzkh::fe_hex).collect::<Vec<_>>().join(","),
            self.b.iter().map(|b| (*b as u8).to_string()).collect::<Vec<_>>().join(","),
            self.y.iter().map(|b| b.to_string()).collect::<Vec<_>>().join(","),
            self.big.iter().map(mzkh::big_hex).collect::<Vec<_>>().join(","),
            self.js, self.jp, self.ks, self.kb, self.kp, self.gp, self.vy, self.map.is_some(),
        )
    }
}

#[derive(Clone, Debug, PartialEq, Eq)]
pub enum Op {
    // native arithmetic
    Add,
    Sub,
    Mul,
    Div,
    Neg,
    Inv0,
    AddConst(u64),
    MulConst(u64),
    Pow(u64),
    LinComb(usize),
    AddAndMul,
    // predicates / control flow
    IsZero,
    IsEqual,
    IsEqualFixed(u64),
    AssertNonZero,
    AssertNotEqual,
    Select,
    CondSwap,
    // decomposition / range
    ToLeBits(Option<usize>, bool),
    ToLeBytes(Option<usize>),
    FromLeBits(usize),
    FromLeBytes(usize),
    ToChunks(usize, Option<usize>),
    Sgn0,
    LeBitsLowerThan(usize, u64),
    LowerThan(u32),
    AssertLowerThanFixed(u64),
    AssignLowerThanFixed(u64),
    DivRem(u64),
    /// assertion / equality instructions on natives and bits: assert_equal, assert_equal_to_fixed,
    /// assert_not_equal_to_fixed, is_not_equal, is_not_equal_to_fixed, assert_true / assert_false,
    /// assign_many, add_constants
    Cmp(u64),
    // bits / bitwise
    BinAnd(usize),
    BinOr(usize),
    BinXor(usize),
    BinNot,
    Band(usize),
    Bor(usize),
    Bxor(usize),
    Bnot(usize),
    // bytes
    ByteEq,
    // public inputs
    PiNative(usize),
    PiBit,
    PiByte,
    PiCommitted,
    // constant cache
    FixedSeq(Vec<u64>),
    // Jubjub (native Edwards chip), Poseidon, hash to curve
    JubAdd,
    JubDouble,
    JubNegate,
    JubMsm(usize),
    JubMulConst(u64),
    JubIsEqual,
    JubSelect,
    JubFromCoords,
    JubScalarFromNative,
    JubPi,
    Poseidon(usize),
    HashToCurve(usize),
    // foreign field: secp256k1 scalar field (`true`) or base field (`false`)
    FfAdd(bool),
    FfSub(bool),
    FfMul(bool),
    FfDiv(bool),
    FfNeg(bool),
    FfInv(bool),
    FfIsEqual(bool),
    FfIsZero(bool),
    FfToBits(bool),
    FfToBytes(bool),
    FfPi(bool),
    // secp256k1
    K1Add,
    K1Double,
    K1Negate,
    K1Msm(usize),
    K1MulConst(u64),
    K1IsEqual,
    K1Select,
    K1Pi,
    /// assertion / equality instructions on foreign points, x_coordinate / y_coordinate
    K1Cmp,
    /// `ForeignEccChip::k_out_of_n_points`: a table of `n` witnessed points, `k` of them selected
    /// (the index of each selected point is found OFF-circuit from the witness and written to a
    /// captured `mut` vector: value -> structure channel); the selected points are exposed
    K1KofN(usize, usize),
    /// `ForeignEccChip::msm_by_le_bits` -> `windowed_msm` -> `multi_select`: scalars of `bits`
    /// bits for `n` bases (the window value read off-circuit picks `point_table[selector_idx]`)
    K1MsmBits(usize, usize),
    /// Schnorr signature verification over Jubjub (zk_stdlib/examples/schnorr_sig.rs)
    Schnorr,
    /// zk_stdlib/examples/ecc_ops.rs: s*P + Q on Jubjub with a scalar from bits
    EccOps,
    /// zk_stdlib/examples/membership.rs: Merkle-map membership through the map gadget + poseidon
    /// (covered by MapGet) -- here: sha_preimage.rs with a 24-byte preimage and a public digest
    ShaPreimage,
    // bls12-381 G1 as a foreign curve
    BlsAdd,
    BlsDouble,
    BlsMsm,
    // hashes over bytes
    Sha256(usize),
    Sha512(usize),
    Sha3(usize),
    Keccak(usize),
    Blake2b(usize),
    Blake2b512(usize),
    // big unsigned integers (bit bound)
    BigAdd(u32),
    BigSub(u32),
    BigMul(u32),
    BigDivRem(u32),
    BigModExp(u32, u64),
    BigLt(u32),
    BigToBytes(u32),
    BigPi(u32),
    // vector gadget (M = 16, A = 4, bytes)
    VecLimits,
    VecPadFlag,
    VecTrim(usize),
    VecResize,
    VecEq,
    // map gadget
    MapGet,
    MapInsert,
    // parsing
    Base64(usize, bool),
    FetchBytes(usize, usize),
    /// an addition in an architecture that configures a chip the relation never uses
    /// (0 sha256, 1 sha512, 2 base64, 3 keccak, 4 blake2b, 5 secp256k1, 6 jubjub + poseidon)
    Unused(u8),
}

impl Op {
    /// `ZkStdLib.used_*` flags the operation sets (sha256 sha512 base64 automaton keccak/sha3
    /// blake2b): a function of the operation alone.
    pub fn used_tables(&self) -> [bool; 6] {
        match self {
            Op::Sha256(_) | Op::ShaPreimage => [true, false, false, false, false, false],
            Op::Sha512(_) => [false, true, false, false, false, false],
            Op::Base64(..) => [false, false, true, false, false, false],
            Op::Sha3(_) | Op::Keccak(_) => [false, false, false, false, true, false],
            Op::Blake2b(_) | Op::Blake2b512(_) => [false, false, false, false, false, true],
            _ => [false; 6],
        }
    }
    pub fn name(&self) -> String {
        format!("{self:?}").replace(' ', "")
    }
}

/// The foreign-field operation `$op` on chip `$c` (same code for both emulated fields).
macro_rules! ff_op {
    ($op:expr, $c:expr, $l:expr, $x:expr, $y:expr, $outb:expr, $outy:expr) => {{
        let (c, l, x, y) = ($c, $l, $x, $y);
        match &$op {
            Op::FfAdd(_) => {
                let r = c.add(l, &x, &y)?;
                c.constrain_as_public_input(l, &r)
            }
            Op::FfSub(_) => {
                let r = c.sub(l, &x, &y)?;
                c.constrain_as_public_input(l, &r)
            }
            Op::FfMul(_) => {
                let r = c.mul(l, &x, &y, None)?;
                c.constrain_as_public_input(l, &r)
            }
            Op::FfDiv(_) => {
                let r = c.div(l, &x, &y)?;
                c.constrain_as_public_input(l, &r)
            }
            Op::FfNeg(_) => {
                let r = c.neg(l, &x)?;
                c.constrain_as_public_input(l, &r)
            }
            Op::FfInv(_) => {
                let r = c.inv(l, &x)?;
                c.constrain_as_public_input(l, &r)
            }
            Op::FfIsEqual(_) => {
                let r = c.is_equal(l, &x, &y)?;
                $outb(l, &r)
            }
            Op::FfIsZero(_) => {
                let r = c.is_zero(l, &x)?;
                $outb(l, &r)
            }
            Op::FfToBits(_) => {
                let bits = c.assigned_to_le_bits(l, &x, None, true)?;
                $outb(l, &bits[0])?;
                $outb(l, bits.last().unwrap())
            }
            Op::FfToBytes(_) => {
                let bytes = c.assigned_to_le_bytes(l, &x, None)?;
                bytes.iter().try_for_each(|b| $outy(l, b))
            }
            _ => c.constrain_as_public_input(l, &x),
        }
    }};
}

#[derive(Clone, Debug)]
pub struct OpRel {
    pub op: Op,
}

fn fv(w: &Value<W>, i: usize) -> Value<F> {
    w.as_ref().map(|w| w.f[i])
}
fn bv(w: &Value<W>, i: usize) -> Value<bool> {
    w.as_ref().map(|w| w.b[i])
}
fn yv(w: &Value<W>, i: usize) -> Value<u8> {
    w.as_ref().map(|w| w.y[i])
}

impl Relation for OpRel {
    type Instance = Vec<F>;
    type Witness = W;

    fn format_instance(instance: &Self::Instance) -> Result<Vec<F>, Error> {
        Ok(instance.clone())
    }

    fn format_committed_instances(w: &Self::Witness) -> Vec<F> {
        w.committed.clone()
    }

    fn used_chips(&self) -> ZkStdLibArch {
        let d = ZkStdLibArch::default();
        match &self.op {
            Op::JubAdd | Op::JubDouble | Op::JubNegate | Op::JubMsm(_) | Op::JubMulConst(_) | Op::JubIsEqual
            | Op::JubSelect | Op::JubFromCoords | Op::JubScalarFromNative | Op::JubPi => ZkStdLibArch { jubjub: true, ..d },
            Op::Poseidon(_) | Op::MapGet | Op::MapInsert => ZkStdLibArch { poseidon: true, ..d },
            Op::Schnorr => ZkStdLibArch { jubjub: true, poseidon: true, ..d },
            Op::EccOps => ZkStdLibArch { jubjub: true, ..d },
            Op::ShaPreimage => ZkStdLibArch { sha2_256: true, ..d },
            Op::HashToCurve(_) => ZkStdLibArch { jubjub: true, poseidon: true, ..d },
            Op::FfAdd(_) | Op::FfSub(_) | Op::FfMul(_) | Op::FfDiv(_) | Op::FfNeg(_) | Op::FfInv(_) | Op::FfIsEqual(_)
            | Op::FfIsZero(_) | Op::FfToBits(_) | Op::FfToBytes(_) | Op::FfPi(_) | Op::K1Add | Op::K1Double | Op::K1Negate
            | Op::K1Msm(_) | Op::K1MulConst(_) | Op::K1IsEqual | Op::K1Select | Op::K1Pi | Op::K1Cmp | Op::K1KofN(..) | Op::K1MsmBits(..) => {
                ZkStdLibArch { secp256k1: true, nr_pow2range_cols: 4, ..d }
            }
            Op::BlsAdd | Op::BlsDouble | Op::BlsMsm => ZkStdLibArch { bls12_381: true, nr_pow2range_cols: 4, ..d },
            Op::Sha256(_) => ZkStdLibArch { sha2_256: true, ..d },
            Op::Sha512(_) => ZkStdLibArch { sha2_512: true, ..d },
            Op::Sha3(_) => ZkStdLibArch { sha3_256: true, ..d },
            Op::Keccak(_) => ZkStdLibArch { keccak_256: true, ..d },
            Op::Blake2b(_) | Op::Blake2b512(_) => ZkStdLibArch { blake2b: true, ..d },
            Op::BigAdd(_) | Op::BigSub(_) | Op::BigMul(_) | Op::BigDivRem(_) | Op::BigModExp(..) | Op::BigLt(_)
            | Op::BigToBytes(_) | Op::BigPi(_) => ZkStdLibArch { nr_pow2range_cols: 4, ..d },
            Op::Base64(..) => ZkStdLibArch { base64: true, ..d },
            Op::Unused(0) => ZkStdLibArch { sha2_256: true, ..d },
            Op::Unused(1) => ZkStdLibArch { sha2_512: true, ..d },
            Op::Unused(2) => ZkStdLibArch { base64: true, ..d },
            Op::Unused(3) => ZkStdLibArch { keccak_256: true, ..d },
            Op::Unused(4) => ZkStdLibArch { blake2b: true, ..d },
            Op::Unused(5) => ZkStdLibArch { secp256k1: true, nr_pow2range_cols: 4, ..d },
            Op::Unused(_) => ZkStdLibArch { jubjub: true, poseidon: true, ..d },
            _ => d,
        }
    }

    fn write_relation<Wr: std::io::Write>(&self, _writer: &mut Wr) -> std::io::Result<()> {
        Ok(())
    }

    fn read_relation<R: std::io::Read>(_reader: &mut R) -> std::io::Result<Self> {
        unimplemented!()
    }

    fn circuit(
        &self,
        s: &ZkStdLib,
        l: &mut impl Layouter<F>,
        _instance: Value<Self::Instance>,
        w: Value<Self::Witness>,
    ) -> Result<(), Error> {
        let nat = |l: &mut _, i: usize| -> Result<AN, Error> { s.assign(l, fv(&w, i)) };
        let bit = |l: &mut _, i: usize| -> Result<AB, Error> { s.assign(l, bv(&w, i)) };
        let byte = |l: &mut _, i: usize| -> Result<AY, Error> { s.assign(l, yv(&w, i)) };
        // every operation exposes its result, so the number and position of the public inputs
        // is part of the compared structure
        let out = |l: &mut _, x: &AN| -> Result<(), Error> { s.constrain_as_public_input(l, x) };
        let outb = |l: &mut _, x: &AB| -> Result<(), Error> { s.constrain_as_public_input(l, x) };
        let outy = |l: &mut _, x: &AY| -> Result<(), Error> { s.constrain_as_public_input(l, x) };
        match &self.op {
            Op::Add | Op::Unused(_) => {
                let (x, y) = (nat(l, 0)?, nat(l, 1)?);
                let r = s.add(l, &x, &y)?;
                out(l, &r)
            }
            Op::Sub => {
                let (x, y) = (nat(l, 0)?, nat(l, 1)?);
                let r = s.sub(l, &x, &y)?;
                out(l, &r)
            }
            Op::Mul => {
                let (x, y) = (nat(l, 0)?, nat(l, 1)?);
                let r = s.mul(l, &x, &y, None)?;
                out(l, &r)
            }
            Op::Div => {
                let (x, y) = (nat(l, 0)?, nat(l, 1)?);
                let r = s.div(l, &x, &y)?;
                out(l, &r)
            }
            Op::Neg => {
                let x = nat(l, 0)?;
                let r = s.neg(l, &x)?;
                out(l, &r)
            }
            Op::Inv0 => {
                let x = nat(l, 0)?;
                let r = s.inv0(l, &x)?;
                out(l, &r)
            }
            Op::AddConst(c) => {
                let x = nat(l, 0)?;
                let r = s.add_constant(l, &x, F::from(*c))?;
                out(l, &r)
            }
            Op::MulConst(c) => {
                let x = nat(l, 0)?;
                let r = s.mul_by_constant(l, &x, F::from(*c))?;
                out(l, &r)
            }
            Op::Pow(n) => {
                let x = nat(l, 0)?;
                let r = s.pow(l, &x, *n)?;
                out(l, &r)
            }
            Op::LinComb(n) => {
                let xs = (0..*n).map(|i| nat(l, i)).collect::<Result<Vec<_>, _>>()?;
                let terms: Vec<(F, AN)> =
                    xs.into_iter().enumerate().map(|(i, x)| (F::from(i as u64 + 2), x)).collect();
                let r = s.linear_combination(l, &terms, F::from(7))?;
                out(l, &r)
            }
            Op::AddAndMul => {
                let (x, y, z) = (nat(l, 0)?, nat(l, 1)?, nat(l, 2)?);
                let r = s.add_and_mul(
                    l,
                    (F::from(2), &x),
                    (F::from(3), &y),
                    (F::from(5), &z),
                    F::from(7),
                    F::from(11),
                )?;
                out(l, &r)
            }
            Op::IsZero => {
                let x = nat(l, 0)?;
                let r = s.is_zero(l, &x)?;
                outb(l, &r)
            }
            Op::IsEqual => {
                let (x, y) = (nat(l, 0)?, nat(l, 1)?);
                let r = s.is_equal(l, &x, &y)?;
                outb(l, &r)
            }
            Op::IsEqualFixed(c) => {
                let x = nat(l, 0)?;
                let r = s.is_equal_to_fixed(l, &x, F::from(*c))?;
                outb(l, &r)
            }
            Op::AssertNonZero => {
                let x = nat(l, 0)?;
                s.assert_non_zero(l, &x)
            }
            Op::AssertNotEqual => {
                let (x, y) = (nat(l, 0)?, nat(l, 1)?);
                s.assert_not_equal(l, &x, &y)
            }
            Op::Cmp(c) => {
                let (x, y) = (nat(l, 0)?, nat(l, 1)?);
                let x2 = nat(l, 0)?;
                s.assert_equal(l, &x, &x2)?;
                let b1 = s.is_not_equal(l, &x, &y)?;
                let b2 = s.is_not_equal_to_fixed(l, &x, F::from(*c))?;
                let k: AN = s.assign_fixed(l, F::from(*c))?;
                s.assert_equal_to_fixed(l, &k, F::from(*c))?;
                s.assert_not_equal_to_fixed(l, &k, F::from(*c + 1))?;
                let t: AB = s.assign_fixed(l, true)?;
                let f: AB = s.assign_fixed(l, false)?;
                s.assert_true(l, &t)?;
                s.assert_false(l, &f)?;
                let xs: Vec<AN> = s.assign_many(l, &[fv(&w, 0), fv(&w, 1)])?;
                let zs = s.add_constants(l, &xs, &[F::from(*c), F::from(*c + 1)])?;
                outb(l, &b1)?;
                outb(l, &b2)?;
                zs.iter().try_for_each(|z| out(l, z))
            }
            Op::Select => {
                let c = bit(l, 0)?;
                let (x, y) = (nat(l, 0)?, nat(l, 1)?);
                let r = s.select(l, &c, &x, &y)?;
                out(l, &r)
            }
            Op::CondSwap => {
                let c = bit(l, 0)?;
                let (x, y) = (nat(l, 0)?, nat(l, 1)?);
                let (a, b) = s.cond_swap(l, &c, &x, &y)?;
                out(l, &a)?;
                out(l, &b)
            }
            Op::ToLeBits(n, canon) => {
                let x = nat(l, 0)?;
                let bits = s.assigned_to_le_bits(l, &x, *n, *canon)?;
                outb(l, &bits[0])?;
                outb(l, bits.last().unwrap())
            }
            Op::ToLeBytes(n) => {
                let x = nat(l, 0)?;
                let bytes = s.assigned_to_le_bytes(l, &x, *n)?;
                s.constrain_as_public_input(l, &bytes[0])?;
                s.constrain_as_public_input(l, bytes.last().unwrap())
            }
            Op::FromLeBits(n) => {
                let bits = (0..*n).map(|i| bit(l, i)).collect::<Result<Vec<_>, _>>()?;
                let r: AN = s.assigned_from_le_bits(l, &bits)?;
                out(l, &r)
            }
            Op::FromLeBytes(n) => {
                let bytes = (0..*n).map(|i| byte(l, i)).collect::<Result<Vec<_>, _>>()?;
                let r: AN = s.assigned_from_le_bytes(l, &bytes)?;
                out(l, &r)
            }
            Op::ToChunks(bits, nb) => {
                let x = nat(l, 0)?;
                let cs = s.assigned_to_le_chunks(l, &x, *bits, *nb)?;
                out(l, &cs[0])?;
                out(l, cs.last().unwrap())
            }
            Op::Sgn0 => {
                let x = nat(l, 0)?;
                let r = s.sgn0(l, &x)?;
                outb(l, &r)
            }
            Op::LeBitsLowerThan(n, bound) => {
                let bits = (0..*n).map(|i| bit(l, i)).collect::<Result<Vec<_>, _>>()?;
                let r = s.le_bits_lower_than(l, &bits, BigUint::from(*bound))?;
                let r2 = s.le_bits_geq_than(l, &bits, BigUint::from(*bound))?;
                outb(l, &r)?;
                outb(l, &r2)
            }
            Op::LowerThan(n) => {
                let (x, y) = (nat(l, 0)?, nat(l, 1)?);
                let r = s.lower_than(l, &x, &y, *n)?;
                outb(l, &r)
            }
            Op::AssertLowerThanFixed(b) => {
                let x = nat(l, 0)?;
                s.assert_lower_than_fixed(l, &x, &BigUint::from(*b))
            }
            Op::AssignLowerThanFixed(b) => {
                let r = s.assign_lower_than_fixed(l, fv(&w, 0), &BigUint::from(*b))?;
                out(l, &r)
            }
            Op::DivRem(m) => {
                let x = nat(l, 0)?;
                let (q, r) = s.div_rem(l, &x, BigUint::from(*m), None)?;
                out(l, &q)?;
                out(l, &r)
            }
            Op::BinAnd(n) | Op::BinOr(n) | Op::BinXor(n) => {
                let bits = (0..*n).map(|i| bit(l, i)).collect::<Result<Vec<_>, _>>()?;
                let r = match &self.op {
                    Op::BinAnd(_) => s.and(l, &bits)?,
                    Op::BinOr(_) => s.or(l, &bits)?,
                    _ => s.xor(l, &bits)?,
                };
                outb(l, &r)
            }
            Op::BinNot => {
                let b = bit(l, 0)?;
                let r = s.not(l, &b)?;
                outb(l, &r)
            }
            Op::Band(n) | Op::Bor(n) | Op::Bxor(n) => {
                let (x, y) = (nat(l, 0)?, nat(l, 1)?);
                let r = match &self.op {
                    Op::Band(_) => s.band(l, &x, &y, *n)?,
                    Op::Bor(_) => s.bor(l, &x, &y, *n)?,
                    _ => s.bxor(l, &x, &y, *n)?,
                };
                out(l, &r)
            }
            Op::Bnot(n) => {
                let x = nat(l, 0)?;
                let r = s.bnot(l, &x, *n)?;
                out(l, &r)
            }
            Op::ByteEq => {
                let (x, y) = (byte(l, 0)?, byte(l, 1)?);
                let r = s.is_equal(l, &x, &y)?;
                outb(l, &r)
            }
            Op::PiNative(n) => {
                for i in 0..*n {
                    let _x: AN = s.assign_as_public_input(l, fv(&w, i))?;
                }
                Ok(())
            }
            Op::PiBit => {
                let _b: AB = s.assign_as_public_input(l, bv(&w, 0))?;
                Ok(())
            }
            Op::PiByte => {
                let _b: AY = s.assign_as_public_input(l, yv(&w, 0))?;
                Ok(())
            }
            Op::PiCommitted => {
                let x = nat(l, 0)?;
                s.constrain_as_committed_public_input(l, &x)?;
                let y = s.add_constant(l, &x, F::ONE)?;
                out(l, &y)
            }
            Op::JubAdd | Op::JubIsEqual | Op::JubSelect => {
                let j = s.jubjub();
                let p: AssignedNativePoint<Jub> = j.assign(l, w.as_ref().map(|w| w.jp[0]))?;
                let q: AssignedNativePoint<Jub> = j.assign(l, w.as_ref().map(|w| w.jp[1]))?;
                match &self.op {
                    Op::JubAdd => {
                        let r = j.add(l, &p, &q)?;
                        j.constrain_as_public_input(l, &r)
                    }
                    Op::JubIsEqual => {
                        let r = j.is_equal(l, &p, &q)?;
                        outb(l, &r)
                    }
                    _ => {
                        let c = bit(l, 0)?;
                        let r = j.select(l, &c, &p, &q)?;
                        j.constrain_as_public_input(l, &r)
                    }
                }
            }
            Op::JubDouble | Op::JubNegate | Op::JubMulConst(_) | Op::JubPi => {
                let j = s.jubjub();
                let p: AssignedNativePoint<Jub> = j.assign(l, w.as_ref().map(|w| w.jp[0]))?;
                let r = match &self.op {
                    Op::JubDouble => j.double(l, &p)?,
                    Op::JubNegate => j.negate(l, &p)?,
                    Op::JubMulConst(c) => j.mul_by_constant(l, JFr::from(*c), &p)?,
                    _ => p,
                };
                j.constrain_as_public_input(l, &r)
            }
            Op::JubMsm(n) => {
                let j = s.jubjub();
                let mut ss = vec![];
                let mut ps = vec![];
                for i in 0..*n {
                    let sc: AssignedScalarOfNativeCurve<Jub> = j.assign(l, w.as_ref().map(|w| w.js[i]))?;
                    let p: AssignedNativePoint<Jub> = j.assign(l, w.as_ref().map(|w| w.jp[i]))?;
                    ss.push(sc);
                    ps.push(p);
                }
                let r = j.msm(l, &ss, &ps)?;
                j.constrain_as_public_input(l, &r)
            }
            Op::JubFromCoords => {
                let j = s.jubjub();
                let (x, y) = (nat(l, 0)?, nat(l, 1)?);
                let r = j.point_from_coordinates(l, &x, &y)?;
                j.constrain_as_public_input(l, &r)
            }
            Op::JubScalarFromNative => {
                let j = s.jubjub();
                let x = nat(l, 0)?;
                let sc: AssignedScalarOfNativeCurve<Jub> = j.convert(l, &x)?;
                let g: AssignedNativePoint<Jub> = j.assign_fixed(l, <JubjubSubgroup as Group>::generator())?;
                let r = j.msm(l, &[sc], &[g])?;
                j.constrain_as_public_input(l, &r)
            }
            Op::Poseidon(n) => {
                let xs = (0..*n).map(|i| nat(l, i)).collect::<Result<Vec<_>, _>>()?;
                let r = s.poseidon(l, &xs)?;
                out(l, &r)
            }
            Op::HashToCurve(n) => {
                let xs = (0..*n).map(|i| nat(l, i)).collect::<Result<Vec<_>, _>>()?;
                let r = s.hash_to_curve(l, &xs)?;
                s.jubjub().constrain_as_public_input(l, &r)
            }
            Op::FfAdd(sc) | Op::FfSub(sc) | Op::FfMul(sc) | Op::FfDiv(sc) | Op::FfNeg(sc) | Op::FfInv(sc)
            | Op::FfIsEqual(sc) | Op::FfIsZero(sc) | Op::FfToBits(sc) | Op::FfToBytes(sc) | Op::FfPi(sc) => {
                if *sc {
                    let c = s.secp256k1_scalar();
                    let x: AssignedField<F, KFq, MEP> = c.assign(l, w.as_ref().map(|w| w.ks[0]))?;
                    let y: AssignedField<F, KFq, MEP> = c.assign(l, w.as_ref().map(|w| w.ks[1]))?;
                    ff_op!(self.op, c, l, x, y, outb, outy)
                } else {
                    let c = s.secp256k1_curve().base_field_chip();
                    let x: AssignedField<F, KFp, MEP> = c.assign(l, w.as_ref().map(|w| w.kb[0]))?;
                    let y: AssignedField<F, KFp, MEP> = c.assign(l, w.as_ref().map(|w| w.kb[1]))?;
                    ff_op!(self.op, c, l, x, y, outb, outy)
                }
            }
            Op::K1Add | Op::K1IsEqual | Op::K1Select => {
                let c = s.secp256k1_curve();
                let p: AssignedForeignPoint<F, K256, MEP> = c.assign(l, w.as_ref().map(|w| w.kp[0]))?;
                let q: AssignedForeignPoint<F, K256, MEP> = c.assign(l, w.as_ref().map(|w| w.kp[1]))?;
                match &self.op {
                    Op::K1Add => {
                        let r = c.add(l, &p, &q)?;
                        c.constrain_as_public_input(l, &r)
                    }
                    Op::K1IsEqual => {
                        let r = c.is_equal(l, &p, &q)?;
                        outb(l, &r)
                    }
                    _ => {
                        let b = bit(l, 0)?;
                        let r = c.select(l, &b, &p, &q)?;
                        c.constrain_as_public_input(l, &r)
                    }
                }
            }
            Op::K1Double | Op::K1Negate | Op::K1MulConst(_) => {
                let c = s.secp256k1_curve();
                let p: AssignedForeignPoint<F, K256, MEP> = c.assign(l, w.as_ref().map(|w| w.kp[0]))?;
                let r = match &self.op {
                    Op::K1Double => c.double(l, &p)?,
                    Op::K1Negate => c.negate(l, &p)?,
                    Op::K1MulConst(k) => c.mul_by_constant(l, KFq::from(*k), &p)?,
                    _ => unreachable!(),
                };
                c.constrain_as_public_input(l, &r)
            }
            Op::K1Cmp => {
                let c = s.secp256k1_curve();
                let p: AssignedForeignPoint<F, K256, MEP> = c.assign(l, w.as_ref().map(|w| w.kp[0]))?;
                let q: AssignedForeignPoint<F, K256, MEP> = c.assign(l, w.as_ref().map(|w| w.kp[1]))?;
                let p2: AssignedForeignPoint<F, K256, MEP> = c.assign(l, w.as_ref().map(|w| w.kp[0]))?;
                c.assert_equal(l, &p, &p2)?;
                let g = K256::generator();
                let b1 = c.is_not_equal(l, &p, &q)?;
                let b2 = c.is_equal_to_fixed(l, &p, g)?;
                let b3 = c.is_not_equal_to_fixed(l, &q, g)?;
                let gf: AssignedForeignPoint<F, K256, MEP> = c.assign_fixed(l, g)?;
                c.assert_equal_to_fixed(l, &gf, g)?;
                c.assert_not_equal_to_fixed(l, &gf, g + g)?;
                let (px, py) = (c.x_coordinate(&p), c.y_coordinate(&p));
                c.base_field_chip().constrain_as_public_input(l, &px)?;
                c.base_field_chip().constrain_as_public_input(l, &py)?;
                outb(l, &b1)?;
                outb(l, &b2)?;
                outb(l, &b3)
            }
            Op::K1Pi => {
                let c = s.secp256k1_curve();
                let _p: AssignedForeignPoint<F, K256, MEP> = c.assign_as_public_input(l, w.as_ref().map(|w| w.kp[0]))?;
                Ok(())
            }
            Op::K1Msm(n) => {
                let c = s.secp256k1_curve();
                let sc = s.secp256k1_scalar();
                let mut ss = vec![];
                let mut ps = vec![];
                for i in 0..*n {
                    let x: AssignedField<F, KFq, MEP> = sc.assign(l, w.as_ref().map(|w| w.ks[i]))?;
                    let p: AssignedForeignPoint<F, K256, MEP> = c.assign(l, w.as_ref().map(|w| w.kp[i]))?;
                    ss.push(x);
                    ps.push(p);
                }
                let r = c.msm(l, &ss, &ps)?;
                c.constrain_as_public_input(l, &r)
            }
            Op::K1KofN(n, k) => {
                let c = s.secp256k1_curve();
                // the table (first n points of the pool), then the k selected points
                let table = (0..*n)
                    .map(|i| c.assign(l, w.as_ref().map(|w| w.kp[i])))
                    .collect::<Result<Vec<AssignedForeignPoint<F, K256, MEP>>, Error>>()?;
                let selected: Vec<Value<K256>> = (0..*k).map(|j| w.as_ref().map(|w| w.kp[*n + j])).collect();
                let pts = c.k_out_of_n_points(l, &table, &selected)?;
                // downstream use of the returned points: their limbs are copied into the public
                // input rows and into the addition gates
                let mut acc = pts[0].clone();
                for p in pts.iter().skip(1) {
                    acc = c.add(l, &acc, p)?;
                }
                c.constrain_as_public_input(l, &acc)?;
                pts.iter().try_for_each(|p| c.constrain_as_public_input(l, p))
            }
            Op::K1MsmBits(bits, n) => {
                let c = s.secp256k1_curve();
                let mut scalars = vec![];
                let mut bases = vec![];
                for i in 0..*n {
                    let bs = (0..*bits).map(|j| bit(l, i * *bits + j)).collect::<Result<Vec<_>, _>>()?;
                    let p: AssignedForeignPoint<F, K256, MEP> = c.assign(l, w.as_ref().map(|w| w.kp[i]))?;
                    scalars.push(bs);
                    bases.push(p);
                }
                let r = c.msm_by_le_bits(l, &scalars, &bases)?;
                c.constrain_as_public_input(l, &r)
            }
            Op::Schnorr => {
                // zk_stdlib/examples/schnorr_sig.rs: (s, e) with e = H(pk, R, m), R = s*G + e*pk
                let j = s.jubjub();
                let pk: AssignedNativePoint<Jub> = j.assign_as_public_input(l, w.as_ref().map(|w| w.jp[0]))?;
                let m: AN = s.assign_as_public_input(l, fv(&w, 0))?;
                let sig_s: AssignedScalarOfNativeCurve<Jub> = j.assign(l, w.as_ref().map(|w| w.js[0]))?;
                let e_bytes = (0..32).map(|i| byte(l, i)).collect::<Result<Vec<_>, _>>()?;
                let g: AssignedNativePoint<Jub> = j.assign_fixed(l, <JubjubSubgroup as Group>::generator())?;
                let e_sc: AssignedScalarOfNativeCurve<Jub> = j.scalar_from_le_bytes(l, &e_bytes)?;
                let rv = j.msm(l, &[sig_s, e_sc], &[g, pk.clone()])?;
                let (pkx, pky) = (j.x_coordinate(&pk), j.y_coordinate(&pk));
                let (rx, ry) = (j.x_coordinate(&rv), j.y_coordinate(&rv));
                let h = s.poseidon(l, &[pkx, pky, rx, ry, m])?;
                let hb = s.assigned_to_le_bytes(l, &h, None)?;
                hb.iter().zip(e_bytes.iter()).try_for_each(|(a, b)| s.assert_equal(l, a, b))
            }
            Op::EccOps => {
                // zk_stdlib/examples/ecc_ops.rs
                let j = s.jubjub();
                let p: AssignedNativePoint<Jub> = j.assign(l, w.as_ref().map(|w| w.jp[0]))?;
                let q: AssignedNativePoint<Jub> = j.assign(l, w.as_ref().map(|w| w.jp[1]))?;
                let x = nat(l, 0)?;
                let sc: AssignedScalarOfNativeCurve<Jub> = j.convert(l, &x)?;
                let sp = j.msm(l, &[sc], &[p])?;
                let r = j.add(l, &sp, &q)?;
                j.constrain_as_public_input(l, &r)
            }
            Op::ShaPreimage => {
                // zk_stdlib/examples/sha_preimage.rs
                let bytes = (0..24).map(|i| byte(l, i)).collect::<Result<Vec<_>, _>>()?;
                let d = s.sha2_256(l, &bytes)?;
                d.iter().try_for_each(|b| s.constrain_as_public_input(l, b))
            }
            Op::BlsAdd | Op::BlsDouble | Op::BlsMsm => {
                let c = s.bls12_381_curve();
                let p: AssignedForeignPoint<F, G1Projective, MEP> = c.assign(l, w.as_ref().map(|w| w.gp[0]))?;
                let r = match &self.op {
                    Op::BlsAdd => {
                        let q: AssignedForeignPoint<F, G1Projective, MEP> = c.assign(l, w.as_ref().map(|w| w.gp[1]))?;
                        c.add(l, &p, &q)?
                    }
                    Op::BlsDouble => c.double(l, &p)?,
                    _ => {
                        let x = nat(l, 0)?;
                        c.msm(l, &[x], &[p])?
                    }
                };
                c.constrain_as_public_input(l, &r)
            }
            Op::Sha256(n) | Op::Sha512(n) | Op::Sha3(n) | Op::Keccak(n) | Op::Blake2b(n) | Op::Blake2b512(n) => {
                let bytes = (0..*n).map(|i| byte(l, i)).collect::<Result<Vec<_>, _>>()?;
                let outv: Vec<AY> = match &self.op {
                    Op::Sha256(_) => s.sha2_256(l, &bytes)?.to_vec(),
                    Op::Sha512(_) => s.sha2_512(l, &bytes)?.to_vec(),
                    Op::Sha3(_) => s.sha3_256(l, &bytes)?.to_vec(),
                    Op::Keccak(_) => s.keccak_256(l, &bytes)?.to_vec(),
                    Op::Blake2b512(_) => s.blake2b_512(l, &bytes)?.to_vec(),
                    _ => s.blake2b_256(l, &bytes)?.to_vec(),
                };
                outv.iter().try_for_each(|b| s.constrain_as_public_input(l, b))
            }
            Op::BigAdd(nb) | Op::BigSub(nb) | Op::BigMul(nb) | Op::BigDivRem(nb) | Op::BigModExp(nb, _) | Op::BigLt(nb)
            | Op::BigToBytes(nb) | Op::BigPi(nb) => {
                let g = s.biguint();
                let x: AssignedBigUint<F> = g.assign_biguint(l, w.as_ref().map(|w| w.big[0].clone()), *nb)?;
                let y: AssignedBigUint<F> = g.assign_biguint(l, w.as_ref().map(|w| w.big[1].clone()), *nb)?;
                match &self.op {
                    Op::BigAdd(_) => {
                        let r = g.add(l, &x, &y)?;
                        g.constrain_as_public_input(l, &r, r.nb_bits())
                    }
                    Op::BigSub(_) => {
                        let r = g.sub(l, &x, &y)?;
                        g.constrain_as_public_input(l, &r, r.nb_bits())
                    }
                    Op::BigMul(_) => {
                        let r = g.mul(l, &x, &y)?;
                        g.constrain_as_public_input(l, &r, r.nb_bits())
                    }
                    Op::BigDivRem(_) => {
                        let (q, r) = g.div_rem(l, &x, &y)?;
                        g.constrain_as_public_input(l, &q, q.nb_bits())?;
                        g.constrain_as_public_input(l, &r, r.nb_bits())
                    }
                    Op::BigModExp(_, e) => {
                        let r = g.mod_exp(l, &x, *e, &y)?;
                        g.constrain_as_public_input(l, &r, r.nb_bits())
                    }
                    Op::BigLt(_) => {
                        let r = g.lower_than(l, &x, &y)?;
                        outb(l, &r)
                    }
                    Op::BigToBytes(_) => {
                        let bytes = g.to_le_bytes(l, &x)?;
                        s.constrain_as_public_input(l, &bytes[0])?;
                        s.constrain_as_public_input(l, bytes.last().unwrap())
                    }
                    _ => g.constrain_as_public_input(l, &x, *nb),
                }
            }
            Op::VecLimits | Op::VecPadFlag | Op::VecTrim(_) | Op::VecResize | Op::VecEq => {
                let v: AssignedVector<F, AY, VM, VA> =
                    s.assign_with_filler(l, w.as_ref().map(|w| w.vy.clone()), None)?;
                match &self.op {
                    Op::VecLimits => {
                        let (a, b) = s.get_limits(l, &v)?;
                        out(l, &a)?;
                        out(l, &b)
                    }
                    Op::VecPadFlag => {
                        let flags = s.padding_flag(l, &v)?;
                        flags.iter().try_for_each(|b| outb(l, b))
                    }
                    Op::VecTrim(n) => {
                        let t = s.trim_beginning(l, &v, *n)?;
                        let (a, b) = s.get_limits(l, &t)?;
                        out(l, &a)?;
                        out(l, &b)
                    }
                    Op::VecResize => {
                        let t: AssignedVector<F, AY, 32, VA> = s.resize(l, v)?;
                        let (a, b) = s.get_limits(l, &t)?;
                        out(l, &a)?;
                        out(l, &b)
                    }
                    _ => {
                        // two vectors of independent lengths, both trimmed
                        let v2: AssignedVector<F, AY, VM, VA> =
                            s.assign_with_filler(l, w.as_ref().map(|w| w.y.clone()), Some(7u8))?;
                        let (a, b) = s.get_limits(l, &v2)?;
                        let f1 = s.padding_flag(l, &v)?;
                        out(l, &a)?;
                        out(l, &b)?;
                        outb(l, &f1[0])
                    }
                }
            }
            Op::MapGet | Op::MapInsert => {
                let mut map = s.map_gadget().clone();
                map.init(l, w.as_ref().map(|w| w.map.clone().unwrap()))?;
                let key = nat(l, 0)?;
                if self.op == Op::MapInsert {
                    let val = nat(l, 1)?;
                    map.insert(l, &key, &val)?;
                }
                let v = map.get(l, &key)?;
                out(l, &map.succinct_repr())?;
                out(l, &v)
            }
            Op::Base64(n, padded) => {
                let bytes = (0..*n).map(|i| byte(l, i)).collect::<Result<Vec<_>, _>>()?;
                let dec = s.base64().decode_base64(l, &bytes, *padded)?;
                dec.iter().try_for_each(|b| s.constrain_as_public_input(l, b))
            }
            Op::FetchBytes(n, len) => {
                let bytes = (0..*n).map(|i| byte(l, i)).collect::<Result<Vec<_>, _>>()?;
                let idx = nat(l, 0)?;
                let r = s.parser().fetch_bytes(l, &bytes, &idx, *len)?;
                r.iter().try_for_each(|b| s.constrain_as_public_input(l, b))
            }
            Op::FixedSeq(cs) => {
                // constants are parameters of the operation, not witnesses; the witness is added
                // so that the circuit has an advice part at all
                let x = nat(l, 0)?;
                let mut acc = x;
                for c in cs {
                    let k: AN = s.assign_fixed(l, F::from(*c))?;
                    acc = s.add(l, &acc, &k)?;
                }
                out(l, &acc)
            }
        }
    }
}

// ---------------------------------------------------------------------------------------------
// witness classes

pub struct Class {
    pub name: String,
    pub w: W,
    /// whether the relation is expected to be satisfiable with this witness
    pub sat: bool,
}

fn cls(name: &str, w: W) -> Class {
    Class { name: name.to_string(), w, sat: true }
}
fn unsat(name: &str, w: W) -> Class {
    Class { name: name.to_string(), w, sat: false }
}

pub fn rand_f(rng: &mut ChaCha8Rng) -> F {
    F::random(rng)
}

fn two_pow(n: u32) -> F {
    F::from(2).pow_vartime([n as u64])
}

/// Boundary natives.
fn boundary_f() -> Vec<(&'static str, F)> {
    vec![
        ("0", F::ZERO),
        ("1", F::ONE),
        ("-1", -F::ONE),
        ("2^64-1", F::from(u64::MAX)),
        ("2^64", two_pow(64)),
        ("2^128", two_pow(128)),
        ("2^254", two_pow(254)),
        ("(p-1)/2", (-F::ONE) * F::from(2).invert().unwrap()),
        ("(p+1)/2", F::from(2).invert().unwrap()),
    ]
}

fn bits_of(x: u128, n: usize) -> Vec<bool> {
    (0..n).map(|i| i < 128 && (x >> i) & 1 == 1).collect()
}

pub fn classes(op: &Op, rng: &mut ChaCha8Rng, nrand: usize) -> Vec<Class> {
    let mut out = vec![];
    let bf = boundary_f();
    match op {
        // binary natives: pairs steering zero / equal / opposite / carry
        Op::Add | Op::Sub | Op::Mul | Op::IsEqual | Op::AssertNotEqual | Op::Div | Op::Unused(_) | Op::Cmp(_) => {
            for (n, x) in &bf {
                out.push(cls(&format!("x={n},y=x"), W::f(&[*x, *x])));
                out.push(cls(&format!("x={n},y=-x"), W::f(&[*x, -*x])));
                out.push(cls(&format!("x={n},y=0"), W::f(&[*x, F::ZERO])));
                out.push(cls(&format!("x=0,y={n}"), W::f(&[F::ZERO, *x])));
                out.push(cls(&format!("x={n},y=1"), W::f(&[*x, F::ONE])));
            }
            if let Op::Cmp(c) = op {
                out.push(cls("x=c,y=c+1", W::f(&[F::from(*c), F::from(*c + 1)])));
                out.push(cls("x=c+1,y=c", W::f(&[F::from(*c + 1), F::from(*c)])));
            }
            for i in 0..nrand {
                out.push(cls(&format!("rand{i}"), W::f(&[rand_f(rng), rand_f(rng)])));
            }
            for c in out.iter_mut() {
                let (x, y) = (c.w.f[0], c.w.f[1]);
                if (*op == Op::AssertNotEqual && x == y) || (*op == Op::Div && y == F::ZERO) {
                    c.sat = false;
                }
            }
        }
        Op::Neg
        | Op::Inv0
        | Op::AddConst(_)
        | Op::MulConst(_)
        | Op::Pow(_)
        | Op::IsZero
        | Op::IsEqualFixed(_)
        | Op::AssertNonZero
        | Op::Sgn0
        | Op::ToLeBits(None, _)
        | Op::ToLeBytes(None)
        | Op::ToChunks(_, None)
        | Op::FixedSeq(_)
        | Op::PiCommitted => {
            for (n, x) in &bf {
                out.push(cls(&format!("x={n}"), W::f(&[*x])));
            }
            if let Op::IsEqualFixed(c) | Op::AddConst(c) | Op::MulConst(c) = op {
                out.push(cls("x=c", W::f(&[F::from(*c)])));
                out.push(cls("x=-c", W::f(&[-F::from(*c)])));
            }
            for i in 0..nrand {
                out.push(cls(&format!("rand{i}"), W::f(&[rand_f(rng)])));
            }
            for c in out.iter_mut() {
                if *op == Op::AssertNonZero && c.w.f[0] == F::ZERO {
                    c.sat = false;
                }
                if *op == Op::PiCommitted {
                    c.w.committed = vec![c.w.f[0]];
                }
            }
        }
        Op::LinComb(n) => {
            out.push(cls("all0", W::f(&vec![F::ZERO; *n])));
            out.push(cls("all-1", W::f(&vec![-F::ONE; *n])));
            for i in 0..nrand {
                out.push(cls(&format!("rand{i}"), W::f(&(0..*n).map(|_| rand_f(rng)).collect::<Vec<_>>())));
            }
        }
        Op::AddAndMul => {
            out.push(cls("all0", W::f(&[F::ZERO; 3])));
            out.push(cls("all-1", W::f(&[-F::ONE; 3])));
            out.push(cls("x0", W::f(&[F::ZERO, rand_f(rng), rand_f(rng)])));
            for i in 0..nrand {
                out.push(cls(&format!("rand{i}"), W::f(&[rand_f(rng), rand_f(rng), rand_f(rng)])));
            }
        }
        Op::Select | Op::CondSwap => {
            for b in [false, true] {
                for (n, x, y) in [
                    ("eq", F::from(5), F::from(5)),
                    ("zero", F::ZERO, F::ZERO),
                    ("ne", F::from(5), -F::ONE),
                    ("rand", rand_f(rng), rand_f(rng)),
                ] {
                    out.push(cls(&format!("c={b},{n}"), W { f: vec![x, y], b: vec![b], ..W::default() }));
                }
            }
        }
        Op::ToLeBits(Some(n), _) => {
            let n = *n as u32;
            for (name, x) in [
                ("0", F::ZERO),
                ("1", F::ONE),
                ("2^n-1", two_pow(n) - F::ONE),
                ("2^(n-1)", two_pow(n - 1)),
                ("alt", F::from_u128(0xAAAA_AAAA_AAAA_AAAA_AAAA_AAAA_AAAA_AAAAu128 & ((1u128 << n.min(127)) - 1))),
            ] {
                out.push(cls(&format!("x={name}"), W::f(&[x])));
            }
            out.push(unsat("x=2^n", W::f(&[two_pow(n)])));
            out.push(unsat("x=-1", W::f(&[-F::ONE])));
            for i in 0..nrand {
                let r = F::from_u128(rng.gen::<u128>() & ((1u128 << n.min(127)) - 1));
                out.push(cls(&format!("rand{i}"), W::f(&[r])));
            }
        }
        Op::ToLeBytes(Some(n)) => {
            let bits = 8 * *n as u32;
            for (name, x) in [("0", F::ZERO), ("1", F::ONE), ("max", two_pow(bits) - F::ONE), ("255", F::from(255))] {
                out.push(cls(&format!("x={name}"), W::f(&[x])));
            }
            if *n > 1 {
                out.push(cls("x=256", W::f(&[F::from(256)])));
            }
            out.push(unsat("x=2^bits", W::f(&[two_pow(bits)])));
            for i in 0..nrand {
                let r = F::from_u128(rng.gen::<u128>() & ((1u128 << bits.min(127)) - 1));
                out.push(cls(&format!("rand{i}"), W::f(&[r])));
            }
        }
        Op::ToChunks(bits, Some(nb)) => {
            let tot = (*bits * *nb) as u32;
            for (name, x) in [("0", F::ZERO), ("1", F::ONE), ("max", two_pow(tot) - F::ONE)] {
                out.push(cls(&format!("x={name}"), W::f(&[x])));
            }
            out.push(unsat("x=2^tot", W::f(&[two_pow(tot)])));
            for i in 0..nrand {
                let r = F::from_u128(rng.gen::<u128>() & ((1u128 << tot.min(127)) - 1));
                out.push(cls(&format!("rand{i}"), W::f(&[r])));
            }
        }
        Op::FromLeBits(n) | Op::BinAnd(n) | Op::BinOr(n) | Op::BinXor(n) | Op::LeBitsLowerThan(n, _) => {
            let n = *n;
            out.push(cls("all0", W { b: vec![false; n], ..W::default() }));
            out.push(cls("all1", W { b: vec![true; n], ..W::default() }));
            out.push(cls("first", W { b: bits_of(1, n), ..W::default() }));
            out.push(cls("last", W { b: (0..n).map(|i| i == n - 1).collect(), ..W::default() }));
            if let Op::LeBitsLowerThan(_, bound) = op {
                for d in [-1i64, 0, 1] {
                    let v = (*bound as i64 + d) as u128;
                    out.push(cls(&format!("bound{d:+}"), W { b: bits_of(v, n), ..W::default() }));
                }
            }
            for i in 0..nrand {
                out.push(cls(&format!("rand{i}"), W { b: (0..n).map(|_| rng.gen()).collect(), ..W::default() }));
            }
        }
        Op::FromLeBytes(n) => {
            let n = *n;
            out.push(cls("all0", W { y: vec![0; n], ..W::default() }));
            out.push(cls("allff", W { y: vec![255; n], ..W::default() }));
            for i in 0..nrand {
                out.push(cls(&format!("rand{i}"), W { y: (0..n).map(|_| rng.gen()).collect(), ..W::default() }));
            }
        }
        Op::LowerThan(n) => {
            let m = (1u128 << n) - 1;
            for (name, x, y) in [
                ("0,0", 0u128, 0u128),
                ("0,max", 0, m),
                ("max,0", m, 0),
                ("max,max", m, m),
                ("x=y-1", 6, 7),
                ("x=y+1", 8, 7),
                ("x=y", 7, 7),
            ] {
                out.push(cls(name, W::f(&[F::from_u128(x), F::from_u128(y)])));
            }
            out.push(unsat("x=2^n", W::f(&[F::from_u128(m + 1), F::ZERO])));
            out.push(unsat("y=-1", W::f(&[F::ZERO, -F::ONE])));
            for i in 0..nrand {
                out.push(cls(&format!("rand{i}"), W::f(&[F::from_u128(rng.gen::<u128>() & m), F::from_u128(rng.gen::<u128>() & m)])));
            }
        }
        Op::AssertLowerThanFixed(b) | Op::AssignLowerThanFixed(b) => {
            out.push(cls("0", W::f(&[F::ZERO])));
            out.push(cls("b-1", W::f(&[F::from(*b - 1)])));
            out.push(unsat("b", W::f(&[F::from(*b)])));
            out.push(unsat("b+1", W::f(&[F::from(*b + 1)])));
            out.push(unsat("-1", W::f(&[-F::ONE])));
            for i in 0..nrand {
                out.push(cls(&format!("rand{i}"), W::f(&[F::from(rng.next_u64() % *b)])));
            }
        }
        Op::DivRem(m) => {
            for (n, x) in &bf {
                out.push(cls(&format!("x={n}"), W::f(&[*x])));
            }
            for d in [-1i64, 0, 1] {
                out.push(cls(&format!("x=m{d:+}"), W::f(&[F::from((*m as i64 + d) as u64)])));
                out.push(cls(&format!("x=3m{d:+}"), W::f(&[F::from((3 * *m as i64 + d) as u64)])));
            }
            for i in 0..nrand {
                out.push(cls(&format!("rand{i}"), W::f(&[rand_f(rng)])));
            }
        }
        Op::BinNot | Op::PiBit => {
            out.push(cls("0", W { b: vec![false], ..W::default() }));
            out.push(cls("1", W { b: vec![true], ..W::default() }));
        }
        Op::Band(n) | Op::Bor(n) | Op::Bxor(n) | Op::Bnot(n) => {
            let m = if *n >= 128 { u128::MAX } else { (1u128 << n) - 1 };
            for (name, x, y) in [("0,0", 0u128, 0u128), ("max,max", m, m), ("max,0", m, 0), ("alt", m & 0x5555_5555_5555_5555_5555_5555_5555_5555, m & 0xAAAA_AAAA_AAAA_AAAA_AAAA_AAAA_AAAA_AAAA)] {
                out.push(cls(name, W::f(&[F::from_u128(x), F::from_u128(y)])));
            }
            if *n < 128 {
                out.push(unsat("x=2^n", W::f(&[F::from_u128(m + 1), F::ZERO])));
            }
            for i in 0..nrand {
                out.push(cls(&format!("rand{i}"), W::f(&[F::from_u128(rng.gen::<u128>() & m), F::from_u128(rng.gen::<u128>() & m)])));
            }
        }
        Op::ByteEq => {
            for (x, y) in [(0u8, 0u8), (255, 255), (0, 255), (255, 0), (7, 8)] {
                out.push(cls(&format!("{x},{y}"), W { y: vec![x, y], ..W::default() }));
            }
        }
        Op::PiNative(n) => {
            out.push(cls("all0", W::f(&vec![F::ZERO; *n])));
            out.push(cls("all-1", W::f(&vec![-F::ONE; *n])));
            for i in 0..nrand {
                out.push(cls(&format!("rand{i}"), W::f(&(0..*n).map(|_| rand_f(rng)).collect::<Vec<_>>())));
            }
        }
        Op::JubAdd | Op::JubIsEqual | Op::JubSelect => {
            let g = <JubjubSubgroup as Group>::generator();
            let id = <JubjubSubgroup as Group>::identity();
            let r1 = g * JFr::random(&mut *rng);
            let r2 = g * JFr::random(&mut *rng);
            for (n, p, q) in [
                ("id,id", id, id), ("id,g", id, g), ("g,id", g, id), ("p,p", r1, r1), ("p,-p", r1, -r1),
                ("g,g", g, g), ("p,q", r1, r2),
            ] {
                for b in [false, true] {
                    if *op != Op::JubSelect && b {
                        continue;
                    }
                    out.push(cls(&format!("{n},c={b}"), W { jp: vec![p, q], b: vec![b], ..W::default() }));
                }
            }
        }
        Op::JubDouble | Op::JubNegate | Op::JubMulConst(_) | Op::JubPi => {
            let g = <JubjubSubgroup as Group>::generator();
            let id = <JubjubSubgroup as Group>::identity();
            out.push(cls("id", W { jp: vec![id], ..W::default() }));
            out.push(cls("g", W { jp: vec![g], ..W::default() }));
            out.push(cls("-g", W { jp: vec![-g], ..W::default() }));
            for i in 0..nrand {
                out.push(cls(&format!("rand{i}"), W { jp: vec![g * JFr::random(&mut *rng)], ..W::default() }));
            }
        }
        Op::JubMsm(n) => {
            let g = <JubjubSubgroup as Group>::generator();
            let id = <JubjubSubgroup as Group>::identity();
            let n = *n;
            out.push(cls("s=0", W { js: vec![JFr::ZERO; n], jp: vec![g; n], ..W::default() }));
            out.push(cls("s=1", W { js: vec![JFr::ONE; n], jp: vec![g; n], ..W::default() }));
            out.push(cls("s=-1", W { js: vec![-JFr::ONE; n], jp: vec![g; n], ..W::default() }));
            out.push(cls("p=id", W { js: vec![JFr::from(5); n], jp: vec![id; n], ..W::default() }));
            out.push(cls("cancel", W { js: (0..n).map(|i| if i % 2 == 0 { JFr::ONE } else { -JFr::ONE }).collect(), jp: vec![g; n], ..W::default() }));
            for i in 0..nrand {
                out.push(cls(&format!("rand{i}"), W {
                    js: (0..n).map(|_| JFr::random(&mut *rng)).collect(),
                    jp: (0..n).map(|_| g * JFr::random(&mut *rng)).collect(),
                    ..W::default()
                }));
            }
        }
        Op::JubFromCoords => {
            use group::Curve;
            let g = <JubjubSubgroup as Group>::generator();
            for (n, p) in [("g", g), ("2g", g + g), ("rand", g * JFr::random(&mut *rng))] {
                let e: Jub = p.into();
                let a = e.to_affine();
                out.push(cls(n, W::f(&[a.get_u(), a.get_v()])));
            }
            out.push(unsat("id", W::f(&[F::ZERO, F::ONE])));
            out.push(unsat("off-curve", W::f(&[F::ONE, F::ONE])));
        }
        Op::JubScalarFromNative => {
            for (n, x) in &bf {
                out.push(cls(&format!("x={n}"), W::f(&[*x])));
            }
            for i in 0..nrand {
                out.push(cls(&format!("rand{i}"), W::f(&[rand_f(rng)])));
            }
        }
        Op::Poseidon(n) | Op::HashToCurve(n) => {
            out.push(cls("all0", W::f(&vec![F::ZERO; *n])));
            out.push(cls("all-1", W::f(&vec![-F::ONE; *n])));
            for i in 0..nrand {
                out.push(cls(&format!("rand{i}"), W::f(&(0..*n).map(|_| rand_f(rng)).collect::<Vec<_>>())));
            }
        }
        Op::FfAdd(sc) | Op::FfSub(sc) | Op::FfMul(sc) | Op::FfDiv(sc) | Op::FfNeg(sc) | Op::FfInv(sc)
        | Op::FfIsEqual(sc) | Op::FfIsZero(sc) | Op::FfToBits(sc) | Op::FfToBytes(sc) | Op::FfPi(sc) => {
            // pairs over the emulated field: 0, 1, -1 (= modulus - 1: every limb at its bound),
            // equal, opposite, a value whose low limbs are zero (carries), random
            fn mk<K: PrimeField>(sc: bool, x: K, y: K) -> W
            where
                K: 'static,
            {
                let mut w = W::default();
                let conv = |v: K| BigUint::from_bytes_le(v.to_repr().as_ref());
                if sc {
                    w.ks = vec![mzkh::fe_from_big::<KFq>(&conv(x)), mzkh::fe_from_big::<KFq>(&conv(y))];
                } else {
                    w.kb = vec![mzkh::fe_from_big::<KFp>(&conv(x)), mzkh::fe_from_big::<KFp>(&conv(y))];
                }
                w
            }
            macro_rules! gen {
                ($K:ty) => {{
                    let r1 = <$K>::random(&mut *rng);
                    let r2 = <$K>::random(&mut *rng);
                    let hi = <$K>::from(2u64).pow_vartime([200u64]);
                    let mut v = vec![
                        ("0,0", <$K>::ZERO, <$K>::ZERO),
                        ("0,1", <$K>::ZERO, <$K>::ONE),
                        ("1,0", <$K>::ONE, <$K>::ZERO),
                        ("-1,-1", -<$K>::ONE, -<$K>::ONE),
                        ("-1,1", -<$K>::ONE, <$K>::ONE),
                        ("x,x", r1, r1),
                        ("x,-x", r1, -r1),
                        ("2^200,2^200", hi, hi),
                        ("x,y", r1, r2),
                    ];
                    for _ in 0..nrand {
                        v.push(("rand", <$K>::random(&mut *rng), <$K>::random(&mut *rng)));
                    }
                    v.into_iter()
                        .map(|(n, x, y)| {
                            let zero_div = (matches!(op, Op::FfDiv(_)) && y == <$K>::ZERO)
                                || (matches!(op, Op::FfInv(_)) && x == <$K>::ZERO);
                            Class { name: n.to_string(), w: mk::<$K>(*sc, x, y), sat: !zero_div }
                        })
                        .collect::<Vec<_>>()
                }};
            }
            if *sc {
                out.extend(gen!(KFq));
            } else {
                out.extend(gen!(KFp));
            }
        }
        Op::K1Add | Op::K1IsEqual | Op::K1Select | Op::K1Cmp => {
            let g = K256::generator();
            let id = K256::identity();
            let r1 = g * KFq::random(&mut *rng);
            let r2 = g * KFq::random(&mut *rng);
            for (n, p, q) in [
                ("id,id", id, id), ("id,g", id, g), ("g,id", g, id), ("p,p", r1, r1), ("p,-p", r1, -r1),
                ("p,q", r1, r2),
            ] {
                for b in [false, true] {
                    if *op != Op::K1Select && b {
                        continue;
                    }
                    out.push(cls(&format!("{n},c={b}"), W { kp: vec![p, q], b: vec![b], ..W::default() }));
                }
            }
        }
        Op::K1Double | Op::K1Negate | Op::K1MulConst(_) | Op::K1Pi => {
            let g = K256::generator();
            out.push(cls("id", W { kp: vec![K256::identity()], ..W::default() }));
            out.push(cls("g", W { kp: vec![g], ..W::default() }));
            for i in 0..nrand {
                out.push(cls(&format!("rand{i}"), W { kp: vec![g * KFq::random(&mut *rng)], ..W::default() }));
            }
        }
        Op::K1Msm(n) => {
            let g = K256::generator();
            let n = *n;
            let pts = |rng: &mut ChaCha8Rng| (0..n).map(|_| g * KFq::random(&mut *rng)).collect::<Vec<_>>();
            out.push(cls("s=0", W { ks: vec![KFq::ZERO; n], kp: pts(rng), ..W::default() }));
            out.push(cls("s=1", W { ks: vec![KFq::ONE; n], kp: pts(rng), ..W::default() }));
            out.push(cls("s=-1", W { ks: vec![-KFq::ONE; n], kp: pts(rng), ..W::default() }));
            out.push(cls("p=id", W { ks: vec![KFq::from(5u64); n], kp: vec![K256::identity(); n], ..W::default() }));
            out.push(cls("same-base", W { ks: (0..n).map(|_| KFq::random(&mut *rng)).collect(), kp: vec![g; n], ..W::default() }));
            for i in 0..nrand.min(2) {
                out.push(cls(&format!("rand{i}"), W { ks: (0..n).map(|_| KFq::random(&mut *rng)).collect(), kp: pts(rng), ..W::default() }));
            }
        }
        Op::K1KofN(n, k) => {
            // a fixed table g*11, g*22, ...; the classes differ in WHICH entries are selected
            let g = K256::generator();
            let table: Vec<K256> = (0..*n).map(|i| g * KFq::from(11 * (i as u64 + 1))).collect();
            let mk = |idx: &[usize]| {
                let mut kp = table.clone();
                kp.extend(idx.iter().map(|i| table[*i]));
                W { kp, ..W::default() }
            };
            let name = |idx: &[usize]| format!("sel={}", idx.iter().map(|i| i.to_string()).collect::<Vec<_>>().join("+"));
            // every increasing k-subset when small, else first / last / spread / random
            let mut subsets: Vec<Vec<usize>> = vec![];
            let first: Vec<usize> = (0..*k).collect();
            let last: Vec<usize> = (*n - *k..*n).collect();
            subsets.push(first.clone());
            if last != first {
                subsets.push(last.clone());
            }
            if *k == 1 {
                for i in 1..*n - 1 {
                    subsets.push(vec![i]);
                }
            } else {
                let mut spread: Vec<usize> = (0..*k).map(|j| j * (*n - 1) / (*k - 1)).collect();
                spread.dedup();
                if spread.len() == *k && !subsets.contains(&spread) {
                    subsets.push(spread);
                }
                let shifted: Vec<usize> = (1..=*k).collect();
                if *k < *n && !subsets.contains(&shifted) {
                    subsets.push(shifted);
                }
            }
            for _ in 0..nrand {
                let mut pool: Vec<usize> = (0..*n).collect();
                let mut pick = vec![];
                for _ in 0..*k {
                    pick.push(pool.remove(rng.gen::<usize>() % pool.len()));
                }
                pick.sort();
                if !subsets.contains(&pick) {
                    subsets.push(pick);
                }
            }
            for sub in &subsets {
                out.push(cls(&name(sub), mk(sub)));
            }
            if *k >= 2 {
                // out of order / repeated: `error_if_known_and` aborts the synthesis of these witnesses
                let mut rev = last.clone();
                rev.reverse();
                out.push(unsat(&format!("out-of-order,{}", name(&rev)), mk(&rev)));
                out.push(unsat("repeated", mk(&vec![*n - 1; *k])));
            }
            // a point that is not in the table (`position(..).unwrap_or(0)`)
            let mut w = mk(&first);
            w.kp[*n] = g * KFq::from(5u64);
            out.push(unsat("not-in-table", w));
        }
        Op::K1MsmBits(bits, n) => {
            let g = K256::generator();
            let pts = |rng: &mut ChaCha8Rng| (0..*n).map(|_| g * KFq::random(&mut *rng)).collect::<Vec<_>>();
            let tot = *bits * *n;
            // window values 0 / 1 / 2^WS-1 / alternating / random: `multi_select` reads them off-circuit
            out.push(cls("windows=0", W { b: vec![false; tot], kp: pts(rng), ..W::default() }));
            out.push(cls("windows=15", W { b: vec![true; tot], kp: pts(rng), ..W::default() }));
            out.push(cls("windows=1", W { b: (0..tot).map(|i| i % 4 == 0).collect(), kp: pts(rng), ..W::default() }));
            out.push(cls("windows=8", W { b: (0..tot).map(|i| i % 4 == 3).collect(), kp: pts(rng), ..W::default() }));
            out.push(cls("same-base", W { b: (0..tot).map(|i| i % 3 == 0).collect(), kp: vec![g; *n], ..W::default() }));
            for i in 0..nrand {
                out.push(cls(&format!("rand{i}"), W { b: (0..tot).map(|_| rng.gen()).collect(), kp: pts(rng), ..W::default() }));
            }
            out.push(unsat("base=id", W { b: vec![true; tot], kp: vec![K256::identity(); *n], ..W::default() }));
        }
        Op::Schnorr => {
            use midnight_circuits::instructions::hash::HashCPU;
            let g = <JubjubSubgroup as Group>::generator();
            let coords = |p: &JubjubSubgroup| {
                use group::Curve;
                let e: Jub = (*p).into();
                let a = e.to_affine();
                (a.get_u(), a.get_v())
            };
            let sign = |sk: JFr, kk: JFr, m: F| {
                let pk = g * sk;
                let r = g * kk;
                let (rx, ry) = coords(&r);
                let (pkx, pky) = coords(&pk);
                let h = <PoseidonChip<F> as HashCPU<F, F>>::hash(&[pkx, pky, rx, ry, m]);
                let e_bytes = h.to_bytes_le();
                let mut buff = [0u8; 64];
                buff[..32].copy_from_slice(&e_bytes);
                let e = JFr::from_bytes_wide(&buff);
                W { jp: vec![pk], f: vec![m], js: vec![kk - e * sk], y: e_bytes.to_vec(), ..W::default() }
            };
            out.push(cls("sk=1,k=1,m=0", sign(JFr::ONE, JFr::ONE, F::ZERO)));
            out.push(cls("sk=-1,k=2,m=-1", sign(-JFr::ONE, JFr::from(2), -F::ONE)));
            for i in 0..nrand.max(1) {
                out.push(cls(&format!("rand{i}"), sign(JFr::random(&mut *rng), JFr::random(&mut *rng), rand_f(rng))));
            }
            // a forged signature: same structure, unsatisfied
            let mut bad = sign(JFr::from(3), JFr::from(4), F::from(5));
            bad.js[0] += JFr::ONE;
            out.push(unsat("forged", bad));
        }
        Op::EccOps => {
            let g = <JubjubSubgroup as Group>::generator();
            let id = <JubjubSubgroup as Group>::identity();
            let r1 = g * JFr::random(&mut *rng);
            for (n, p, q, x) in [
                ("id,id,0", id, id, F::ZERO), ("g,id,1", g, id, F::ONE), ("g,-g,1", g, -g, F::ONE), ("p,p,-1", r1, r1, -F::ONE),
                ("p,g,rand", r1, g, rand_f(rng)),
            ] {
                out.push(cls(n, W { jp: vec![p, q], f: vec![x], ..W::default() }));
            }
        }
        Op::ShaPreimage => {
            out.push(cls("all0", W { y: vec![0; 24], ..W::default() }));
            out.push(cls("allff", W { y: vec![255; 24], ..W::default() }));
            for i in 0..nrand {
                out.push(cls(&format!("rand{i}"), W { y: (0..24).map(|_| rng.gen()).collect(), ..W::default() }));
            }
        }
        Op::BlsAdd | Op::BlsDouble | Op::BlsMsm => {
            let g = G1Projective::generator();
            let id = G1Projective::identity();
            let r1 = g * F::random(&mut *rng);
            let r2 = g * F::random(&mut *rng);
            for (n, p, q, x) in [
                ("id,id", id, id, F::ZERO), ("id,g", id, g, F::ONE), ("p,p", r1, r1, -F::ONE), ("p,-p", r1, -r1, F::from(2)),
                ("p,q", r1, r2, rand_f(rng)),
            ] {
                out.push(cls(n, W { gp: vec![p, q], f: vec![x], ..W::default() }));
            }
        }
        Op::Sha256(n) | Op::Sha512(n) | Op::Sha3(n) | Op::Keccak(n) | Op::Blake2b(n) | Op::Blake2b512(n) | Op::Base64(n, _) | Op::FetchBytes(n, _) => {
            let n = *n;
            if let Op::Base64(..) = op {
                let alpha = b"ABCDEFGHIJKLMNOPQRSTUVWXYZabcdefghijklmnopqrstuvwxyz0123456789+/";
                out.push(cls("allA", W { y: vec![b'A'; n], ..W::default() }));
                out.push(cls("all/", W { y: vec![b'/'; n], ..W::default() }));
                for i in 0..nrand {
                    out.push(cls(&format!("rand{i}"), W { y: (0..n).map(|_| alpha[rng.gen::<usize>() % 64]).collect(), ..W::default() }));
                }
                out.push(unsat("invalid-char", W { y: vec![b'!'; n], ..W::default() }));
            } else {
                out.push(cls("all0", W { y: vec![0; n], f: vec![F::ZERO], ..W::default() }));
                out.push(cls("allff", W { y: vec![255; n], f: vec![F::ONE], ..W::default() }));
                for i in 0..nrand {
                    let idx = if let Op::FetchBytes(n, len) = op { rng.gen::<usize>() % (n - len + 1) } else { 0 };
                    out.push(cls(&format!("rand{i}"), W { y: (0..n).map(|_| rng.gen()).collect(), f: vec![F::from(idx as u64)], ..W::default() }));
                }
                if let Op::FetchBytes(n, len) = op {
                    out.push(cls("idx=max", W { y: (0..*n).map(|i| i as u8).collect(), f: vec![F::from((n - len) as u64)], ..W::default() }));
                    out.push(unsat("idx=max+1", W { y: vec![1; *n], f: vec![F::from((n - len + 1) as u64)], ..W::default() }));
                    out.push(unsat("idx=-1", W { y: vec![1; *n], f: vec![-F::ONE], ..W::default() }));
                }
            }
        }
        Op::BigAdd(nb) | Op::BigSub(nb) | Op::BigMul(nb) | Op::BigDivRem(nb) | Op::BigModExp(nb, _) | Op::BigLt(nb)
        | Op::BigToBytes(nb) | Op::BigPi(nb) => {
            use num_traits::{One, Zero};
            let max = (BigUint::one() << *nb) - BigUint::one();
            let half = BigUint::one() << (*nb - 1);
            let rb = |rng: &mut ChaCha8Rng| {
                let bytes: Vec<u8> = (0..(*nb as usize).div_ceil(8)).map(|_| rng.gen()).collect();
                BigUint::from_bytes_le(&bytes) & &max
            };
            let r1 = rb(rng);
            let mut v = vec![
                ("0,0", BigUint::zero(), BigUint::zero()),
                ("0,1", BigUint::zero(), BigUint::one()),
                ("1,0", BigUint::one(), BigUint::zero()),
                ("max,max", max.clone(), max.clone()),
                ("max,1", max.clone(), BigUint::one()),
                ("half,half", half.clone(), half.clone()),
                ("x,x", r1.clone(), r1.clone()),
                ("x,x+1", r1.clone(), (&r1 + BigUint::one()) & &max),
            ];
            for _ in 0..nrand {
                v.push(("rand", rb(rng), rb(rng)));
            }
            for (n, x, y) in v {
                let bad = (matches!(op, Op::BigSub(_)) && x < y)
                    || (matches!(op, Op::BigDivRem(_) | Op::BigModExp(..)) && y.is_zero());
                out.push(Class { name: n.to_string(), w: W { big: vec![x, y], ..W::default() }, sat: !bad });
            }
            out.push(unsat("x=2^nb", W { big: vec![&max + BigUint::one(), BigUint::one()], ..W::default() }));
        }
        Op::VecLimits | Op::VecPadFlag | Op::VecTrim(_) | Op::VecResize | Op::VecEq => {
            // every length 0..=M (vector lengths are witness data)
            for len in 0..=VM {
                let vy: Vec<u8> = (0..len).map(|i| (i as u8).wrapping_mul(37).wrapping_add(1)).collect();
                let mut c = cls(&format!("len={len}"), W { vy: vy.clone(), y: vy.clone(), ..W::default() });
                if let Op::VecTrim(n) = op {
                    c.sat = len >= *n;
                }
                out.push(c);
            }
            out.push(cls("len=5,other=3", W { vy: vec![1, 2, 3, 4, 5], y: vec![1, 2, 3], ..W::default() }));
            out.push(cls("len=4,differs", W { vy: vec![1, 2, 3, 4], y: vec![1, 2, 3, 5], ..W::default() }));
            for i in 0..nrand {
                let len = rng.gen::<usize>() % (VM + 1);
                out.push(cls(&format!("rand{i}"), W { vy: (0..len).map(|_| rng.gen()).collect(), y: (0..len).map(|_| rng.gen()).collect(), ..W::default() }));
            }
            if let Op::VecTrim(n) = op {
                for c in out.iter_mut() {
                    c.sat = c.w.vy.len() >= *n;
                }
            }
        }
        Op::MapGet | Op::MapInsert => {
            let empty = Map::new(&F::ZERO);
            let mut one = Map::new(&F::ZERO);
            one.insert(&F::from(7), &F::from(9));
            let mut many = Map::new(&F::from(3));
            for i in 0..20u64 {
                many.insert(&F::from(i * i + 1), &F::from(i));
            }
            for (mn, m) in [("empty", empty), ("one", one), ("many", many)] {
                for (kn, k) in [("hit", F::from(7)), ("miss", F::from(8)), ("zero", F::ZERO), ("-1", -F::ONE), ("rand", rand_f(rng))] {
                    out.push(cls(&format!("{mn},{kn}"), W { f: vec![k, F::from(11)], map: Some(m.clone()), ..W::default() }));
                }
            }
        }
        Op::PiByte => {
            for x in [0u8, 1, 255] {
                out.push(cls(&format!("{x}"), W { y: vec![x], ..W::default() }));
            }
        }
    }
    out
}

pub fn all_ops(tier: &str) -> Vec<Op> {
    let mut v = vec![
        Op::Add,
        Op::Sub,
        Op::Mul,
        Op::Div,
        Op::Neg,
        Op::Inv0,
        Op::AddConst(0),
        Op::AddConst(5),
        Op::MulConst(0),
        Op::MulConst(1),
        Op::MulConst(5),
        Op::Pow(0),
        Op::Pow(1),
        Op::Pow(5),
        Op::LinComb(1),
        Op::LinComb(4),
        Op::LinComb(5),
        Op::LinComb(9),
        Op::AddAndMul,
        Op::IsZero,
        Op::IsEqual,
        Op::IsEqualFixed(0),
        Op::IsEqualFixed(7),
        Op::AssertNonZero,
        Op::AssertNotEqual,
        Op::Select,
        Op::CondSwap,
        Op::ToLeBits(None, true),
        Op::ToLeBits(None, false),
        Op::ToLeBits(Some(1), true),
        Op::ToLeBits(Some(8), true),
        Op::ToLeBits(Some(13), true),
        Op::ToLeBits(Some(64), true),
        Op::ToLeBytes(None),
        Op::ToLeBytes(Some(1)),
        Op::ToLeBytes(Some(4)),
        Op::FromLeBits(1),
        Op::FromLeBits(9),
        Op::FromLeBytes(3),
        Op::ToChunks(8, None),
        Op::ToChunks(5, Some(3)),
        Op::Sgn0,
        Op::LeBitsLowerThan(8, 100),
        Op::LowerThan(8),
        Op::LowerThan(20),
        Op::AssertLowerThanFixed(100),
        Op::AssertLowerThanFixed(256),
        Op::AssignLowerThanFixed(1000),
        Op::DivRem(7),
        Op::DivRem(256),
        Op::BinAnd(3),
        Op::BinOr(3),
        Op::BinXor(3),
        Op::BinNot,
        Op::Band(8),
        Op::Bor(8),
        Op::Bxor(16),
        Op::Bnot(8),
        Op::ByteEq,
        Op::PiNative(1),
        Op::PiNative(5),
        Op::PiBit,
        Op::PiByte,
        Op::PiCommitted,
        Op::FixedSeq(vec![1, 2, 1, 3, 2, 1]),
        Op::FixedSeq(vec![0, 0, 0]),
    ];
    v.extend([
        Op::JubAdd,
        Op::JubDouble,
        Op::JubNegate,
        Op::JubMsm(1),
        Op::JubMulConst(0),
        Op::JubMulConst(5),
        Op::JubIsEqual,
        Op::JubSelect,
        Op::JubFromCoords,
        Op::JubScalarFromNative,
        Op::JubPi,
        Op::Poseidon(1),
        Op::Poseidon(2),
        Op::Poseidon(5),
        Op::HashToCurve(2),
        Op::FfAdd(true),
        Op::FfSub(true),
        Op::FfMul(true),
        Op::FfDiv(true),
        Op::FfNeg(true),
        Op::FfInv(true),
        Op::FfIsEqual(true),
        Op::FfIsZero(true),
        Op::FfToBits(true),
        Op::FfToBytes(true),
        Op::FfPi(true),
        Op::FfAdd(false),
        Op::FfMul(false),
        Op::FfDiv(false),
        Op::FfIsEqual(false),
        Op::K1Add,
        Op::K1Double,
        Op::K1Negate,
        Op::K1IsEqual,
        Op::K1Select,
        Op::K1Pi,
        Op::K1MulConst(5),
        Op::Sha256(0),
        Op::Sha256(3),
        Op::Sha256(55),
        Op::Sha256(56),
        Op::BigAdd(64),
        Op::BigAdd(300),
        Op::BigSub(300),
        Op::BigMul(300),
        Op::BigDivRem(200),
        Op::BigModExp(200, 3),
        Op::BigLt(300),
        Op::BigToBytes(120),
        Op::BigPi(300),
        Op::VecLimits,
        Op::VecPadFlag,
        Op::VecTrim(4),
        Op::VecResize,
        Op::VecEq,
        Op::MapGet,
        Op::MapInsert,
        Op::Base64(8, true),
        Op::Base64(6, false),
        Op::FetchBytes(40, 5),
        Op::Unused(0),
        Op::Unused(2),
        Op::Unused(6),
        // value -> structure channels (translators/c09_value_channels.py): the off-circuit index
        Op::K1KofN(3, 1),
        Op::K1KofN(4, 2),
        Op::K1MsmBits(4, 1),
        Op::Cmp(7),
        Op::K1Cmp,
        // relations of zk_stdlib/examples
        Op::Schnorr,
        Op::EccOps,
        Op::ShaPreimage,
    ]);
    if tier != "quick" {
        v.extend([
            Op::JubMsm(3),
            Op::Poseidon(9),
            Op::HashToCurve(1),
            Op::FfSub(false),
            Op::FfNeg(false),
            Op::FfInv(false),
            Op::FfIsZero(false),
            Op::FfToBits(false),
            Op::FfToBytes(false),
            Op::FfPi(false),
            Op::K1Msm(1),
            Op::K1Msm(2),
            Op::K1KofN(5, 3),
            Op::K1KofN(3, 3),
            Op::K1MsmBits(8, 2),
            Op::K1MsmBits(5, 1),
            Op::BlsAdd,
            Op::BlsDouble,
            Op::BlsMsm,
            Op::Sha256(64),
            Op::Sha256(119),
            Op::Sha256(120),
            Op::Sha512(0),
            Op::Sha512(111),
            Op::Sha512(112),
            Op::Sha3(0),
            Op::Sha3(135),
            Op::Sha3(136),
            Op::Keccak(5),
            Op::Blake2b(0),
            Op::Blake2b(128),
            Op::Blake2b(129),
            Op::Blake2b512(3),
            Op::BigMul(1024),
            Op::BigModExp(1024, 3),
            Op::BigModExp(200, 65537),
            Op::BigDivRem(500),
            Op::VecTrim(8),
            Op::Base64(64, true),
            Op::FetchBytes(100, 31),
            Op::Unused(1),
            Op::Unused(3),
            Op::Unused(4),
            Op::Unused(5),
            Op::Pow(255),
            Op::LinComb(17),
            Op::ToLeBits(Some(128), true),
            Op::ToLeBits(Some(254), true),
            Op::ToLeBytes(Some(31)),
            Op::FromLeBits(64),
            Op::FromLeBytes(31),
            Op::LowerThan(64),
            Op::LowerThan(120),
            Op::Band(64),
            Op::Bxor(128),
            Op::DivRem(1 << 40),
            Op::FixedSeq((0..40).map(|i| i % 7).collect()),
        ]);
    }
    v
}
