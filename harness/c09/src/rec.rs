//! `Rec`: an `Assignment` backend that logs every call the circuit's real floor planner makes
//! during one synthesis, exactly at the interface at which `keygen.rs: Assembly` (fixed cells,
//! selectors, copies) and `prover.rs: WitnessCollection` (advice cells) observe it.
//!
//! No hook is needed: `Assignment` is a public trait and `FloorPlanner::synthesize` accepts
//! any implementation.

use std::cell::RefCell;

use midnight_proofs::{
    circuit::Value,
    plonk::{Advice, Any, Assignment, Challenge, Column, Error, Fixed, Instance, Selector},
    utils::rational::Rational,
};

use crate::F;

/// Column kinds as small integers (shared with the Lean model): 0 advice, 1 fixed,
/// 2 instance, 3 selector.
pub fn any_code(c: &Column<Any>) -> (u8, usize) {
    match c.column_type() {
        Any::Advice(_) => (0, c.index()),
        Any::Fixed => (1, c.index()),
        Any::Instance => (2, c.index()),
    }
}

pub fn col_name(k: u8, i: usize) -> String {
    format!("{}{}", ["a", "f", "i", "s"][k as usize], i)
}

/// One call observed at the `Assignment` interface (absolute rows).
#[derive(Clone, Debug, PartialEq, Eq)]
pub enum AbsEv {
    Enter(String),
    Exit,
    Sel(usize, usize),
    Fix(usize, usize, F),
    /// advice column, row, value if known
    Adv(usize, usize, Option<F>),
    Copy((u8, usize), usize, (u8, usize), usize),
    Fill(usize, usize, F),
    Query(usize, usize),
}

impl AbsEv {
    /// The same event with the advice value removed (the keygen view of the call).
    pub fn erased(&self) -> AbsEv {
        match self {
            AbsEv::Adv(c, r, _) => AbsEv::Adv(*c, *r, None),
            e => e.clone(),
        }
    }
    pub fn is_structural(&self) -> bool {
        !matches!(self, AbsEv::Adv(..) | AbsEv::Query(..))
    }
}

#[derive(Default)]
pub struct Rec {
    pub evs: Vec<AbsEv>,
    queries: RefCell<Vec<(usize, usize, usize)>>,
    /// instance values handed back on `query_instance` (None = unknown, as in keygen)
    pub instance: Option<Vec<Vec<F>>>,
}

impl Rec {
    pub fn new(instance: Option<Vec<Vec<F>>>) -> Self {
        Rec { evs: vec![], queries: RefCell::new(vec![]), instance }
    }

    /// Insert the `query_instance` calls (made through `&self`) at their positions.
    pub fn finish(self) -> Vec<AbsEv> {
        let qs = self.queries.take();
        if qs.is_empty() {
            return self.evs;
        }
        let mut out = Vec::with_capacity(self.evs.len() + qs.len());
        let mut qi = 0;
        for (i, e) in self.evs.into_iter().enumerate() {
            while qi < qs.len() && qs[qi].0 <= i {
                out.push(AbsEv::Query(qs[qi].1, qs[qi].2));
                qi += 1;
            }
            out.push(e);
        }
        while qi < qs.len() {
            out.push(AbsEv::Query(qs[qi].1, qs[qi].2));
            qi += 1;
        }
        out
    }
}

fn eval<VR: Into<Rational<F>>>(v: Value<VR>) -> Option<F> {
    let mut out = None;
    v.map(|x| {
        let r: Rational<F> = x.into();
        out = Some(r.evaluate());
    });
    out
}

impl Assignment<F> for Rec {
    fn enter_region<NR, N>(&mut self, name_fn: N)
    where
        NR: Into<String>,
        N: FnOnce() -> NR,
    {
        self.evs.push(AbsEv::Enter(name_fn().into()));
    }

    fn annotate_column<A, AR>(&mut self, _annotation: A, _column: Column<Any>)
    where
        A: FnOnce() -> AR,
        AR: Into<String>,
    {
    }

    fn exit_region(&mut self) {
        self.evs.push(AbsEv::Exit);
    }

    fn enable_selector<A, AR>(&mut self, _: A, selector: &Selector, row: usize) -> Result<(), Error>
    where
        A: FnOnce() -> AR,
        AR: Into<String>,
    {
        self.evs.push(AbsEv::Sel(selector.index(), row));
        Ok(())
    }

    fn query_instance(&self, column: Column<Instance>, row: usize) -> Result<Value<F>, Error> {
        self.queries.borrow_mut().push((self.evs.len(), column.index(), row));
        Ok(match &self.instance {
            None => Value::unknown(),
            Some(cols) => match cols.get(column.index()).and_then(|c| c.get(row)) {
                Some(v) => Value::known(*v),
                None => Value::known(F::from(0)),
            },
        })
    }

    fn assign_advice<V, VR, A, AR>(
        &mut self,
        _: A,
        column: Column<Advice>,
        row: usize,
        to: V,
    ) -> Result<(), Error>
    where
        V: FnOnce() -> Value<VR>,
        VR: Into<Rational<F>>,
        A: FnOnce() -> AR,
        AR: Into<String>,
    {
        self.evs.push(AbsEv::Adv(column.index(), row, eval(to())));
        Ok(())
    }

    fn assign_fixed<V, VR, A, AR>(
        &mut self,
        _: A,
        column: Column<Fixed>,
        row: usize,
        to: V,
    ) -> Result<(), Error>
    where
        V: FnOnce() -> Value<VR>,
        VR: Into<Rational<F>>,
        A: FnOnce() -> AR,
        AR: Into<String>,
    {
        // keygen.rs: Assembly::assign_fixed fails on an unknown value
        let v = eval(to()).ok_or(Error::Synthesis("unknown fixed value".into()))?;
        self.evs.push(AbsEv::Fix(column.index(), row, v));
        Ok(())
    }

    fn copy(
        &mut self,
        left_column: Column<Any>,
        left_row: usize,
        right_column: Column<Any>,
        right_row: usize,
    ) -> Result<(), Error> {
        self.evs.push(AbsEv::Copy(any_code(&left_column), left_row, any_code(&right_column), right_row));
        Ok(())
    }

    fn fill_from_row(
        &mut self,
        column: Column<Fixed>,
        row: usize,
        to: Value<Rational<F>>,
    ) -> Result<(), Error> {
        let v = eval(to).ok_or(Error::Synthesis("unknown fill value".into()))?;
        self.evs.push(AbsEv::Fill(column.index(), row, v));
        Ok(())
    }

    fn get_challenge(&self, _challenge: Challenge) -> Value<F> {
        Value::unknown()
    }

    fn push_namespace<NR, N>(&mut self, _: N)
    where
        NR: Into<String>,
        N: FnOnce() -> NR,
    {
    }

    fn pop_namespace(&mut self, _: Option<String>) {}
}
