//! Canonical text encoding of ZKIR programs and witnesses (copy of the C18 harness module
//! `harness/c18/src/text.rs`, snapshot; only the parsing half is used here).
use ff::PrimeField;
use group::Group;
use midnight_curves::{Fr as JubjubFr, JubjubAffine, JubjubExtended, JubjubSubgroup};
use midnight_zkir::{Instruction, IrType, IrValue, Operation};
use num_bigint::BigUint;
use num_traits::Num;

pub type F = midnight_curves::Fq;

#[derive(Clone, Debug)]
pub struct Case {
    pub prog: Vec<Instruction>,
    pub wit: Vec<(String, IrValue)>,
}

pub fn hex_bytes(b: &[u8]) -> String {
    b.iter().map(|x| format!("{x:02x}")).collect()
}

pub fn unhex_bytes(s: &str) -> Option<Vec<u8>> {
    if s.len() % 2 != 0 {
        return None;
    }
    (0..s.len() / 2).map(|i| u8::from_str_radix(&s[2 * i..2 * i + 2], 16).ok()).collect()
}

pub fn f_big(x: &F) -> BigUint {
    BigUint::from_bytes_le(&x.to_bytes_le())
}

pub fn f_hex(x: &F) -> String {
    f_big(x).to_str_radix(16)
}

pub fn f_from_big(b: &BigUint) -> F {
    F::from_str_vartime(&b.to_str_radix(10)).expect("canonical field element")
}

pub fn fr_big(x: &JubjubFr) -> BigUint {
    BigUint::from_bytes_le(x.to_repr().as_ref())
}

pub fn fr_from_big(b: &BigUint) -> JubjubFr {
    JubjubFr::from_str_vartime(&b.to_str_radix(10)).expect("canonical jubjub scalar")
}

pub fn point_uv(p: &JubjubSubgroup) -> (F, F) {
    let a: JubjubAffine = Into::<JubjubExtended>::into(*p).into();
    (a.get_u(), a.get_v())
}

pub fn fmt_ty(t: &IrType) -> String {
    match t {
        IrType::Bool => "bool".into(),
        IrType::Bytes(n) => format!("bytes.{n}"),
        IrType::Native => "native".into(),
        IrType::BigUint(n) => format!("big.{n}"),
        IrType::JubjubPoint => "point".into(),
        IrType::JubjubScalar => "scalar".into(),
    }
}

pub fn parse_ty(s: &str) -> Option<IrType> {
    let parts: Vec<&str> = s.split('.').collect();
    Some(match parts.as_slice() {
        ["bool"] => IrType::Bool,
        ["bytes", n] => IrType::Bytes(n.parse().ok()?),
        ["native"] => IrType::Native,
        ["big", n] => IrType::BigUint(n.parse().ok()?),
        ["point"] => IrType::JubjubPoint,
        ["scalar"] => IrType::JubjubScalar,
        _ => return None,
    })
}

pub fn fmt_val(v: &IrValue) -> String {
    match v {
        IrValue::Bool(b) => format!("b:{}", *b as u8),
        IrValue::Bytes(b) => format!("y:{}", hex_bytes(b)),
        IrValue::Native(x) => format!("n:{}", f_hex(x)),
        IrValue::BigUint(x) => format!("u:{}", x.to_str_radix(16)),
        IrValue::JubjubPoint(p) => {
            let (u, v) = point_uv(p);
            format!("p:{}/{}", f_hex(&u), f_hex(&v))
        }
        IrValue::JubjubScalar(s) => format!("s:{}", fr_big(s).to_str_radix(16)),
    }
}

pub fn parse_val(s: &str) -> Option<IrValue> {
    let (k, body) = s.split_once(':')?;
    let big = |h: &str| BigUint::from_str_radix(h, 16).ok();
    Some(match k {
        "b" => IrValue::Bool(body == "1"),
        "y" => IrValue::Bytes(unhex_bytes(body)?),
        "n" => IrValue::Native(f_from_big(&big(body)?)),
        "u" => IrValue::BigUint(big(body)?),
        "p" => {
            let (u, v) = body.split_once('/')?;
            IrValue::JubjubPoint(JubjubSubgroup::from_raw_unchecked(
                f_from_big(&big(u)?),
                f_from_big(&big(v)?),
            ))
        }
        "s" => IrValue::JubjubScalar(fr_from_big(&big(body)?)),
        _ => return None,
    })
}

pub fn fmt_op(op: &Operation) -> String {
    use Operation::*;
    match op {
        Load(t) => format!("load.{}", fmt_ty(t)),
        Publish => "publish".into(),
        AssertEqual => "assert_eq".into(),
        AssertNotEqual => "assert_ne".into(),
        IsEqual => "is_eq".into(),
        Add => "add".into(),
        Sub => "sub".into(),
        Mul => "mul".into(),
        Neg => "neg".into(),
        ModExp(n) => format!("mod_exp.{n}"),
        InnerProduct => "inner_product".into(),
        AffineCoordinates => "affine".into(),
        IntoBytes(n) => format!("into_bytes.{n}"),
        FromBytes(t) => format!("from_bytes.{}", fmt_ty(t)),
        Poseidon => "poseidon".into(),
        Sha256 => "sha256".into(),
        Sha512 => "sha512".into(),
    }
}

pub fn parse_op(s: &str) -> Option<Operation> {
    use Operation::*;
    let (head, rest) = match s.split_once('.') {
        Some((h, r)) => (h, Some(r)),
        None => (s, None),
    };
    Some(match (head, rest) {
        ("load", Some(t)) => Load(parse_ty(t)?),
        ("publish", None) => Publish,
        ("assert_eq", None) => AssertEqual,
        ("assert_ne", None) => AssertNotEqual,
        ("is_eq", None) => IsEqual,
        ("add", None) => Add,
        ("sub", None) => Sub,
        ("mul", None) => Mul,
        ("neg", None) => Neg,
        ("mod_exp", Some(n)) => ModExp(n.parse().ok()?),
        ("inner_product", None) => InnerProduct,
        ("affine", None) => AffineCoordinates,
        ("into_bytes", Some(n)) => IntoBytes(n.parse().ok()?),
        ("from_bytes", Some(t)) => FromBytes(parse_ty(t)?),
        ("poseidon", None) => Poseidon,
        ("sha256", None) => Sha256,
        ("sha512", None) => Sha512,
        _ => return None,
    })
}

fn fmt_name(n: &str) -> String {
    assert!(!n.contains([' ', ';', ',', '|', '=', '%', '\n']), "name not encodable: {n:?}");
    if n.is_empty() {
        "%".into()
    } else {
        n.into()
    }
}

fn parse_names(s: &str) -> Vec<String> {
    if s.is_empty() {
        vec![]
    } else {
        s.split(',').map(|n| if n == "%" { String::new() } else { n.to_string() }).collect()
    }
}

pub fn fmt_instr(i: &Instruction) -> String {
    format!(
        "{};{};{}",
        fmt_op(&i.operation),
        i.inputs.iter().map(|n| fmt_name(n)).collect::<Vec<_>>().join(","),
        i.outputs.iter().map(|n| fmt_name(n)).collect::<Vec<_>>().join(",")
    )
}

pub fn parse_instr(s: &str) -> Option<Instruction> {
    let parts: Vec<&str> = s.split(';').collect();
    if parts.len() != 3 {
        return None;
    }
    Some(Instruction {
        operation: parse_op(parts[0])?,
        inputs: parse_names(parts[1]),
        outputs: parse_names(parts[2]),
    })
}

pub fn fmt_case_body(c: &Case) -> String {
    let mut out: Vec<String> = c.prog.iter().map(fmt_instr).collect();
    out.push("|".into());
    for (n, v) in &c.wit {
        out.push(format!("{}={}", fmt_name(n), fmt_val(v)));
    }
    out.join(" ")
}

/// Parses `instr instr ... | name=val ...` (anything after a second `|` is ignored).
pub fn parse_case_body(s: &str) -> Option<Case> {
    let mut prog = vec![];
    let mut wit = vec![];
    let mut section = 0;
    for tok in s.split(' ').filter(|t| !t.is_empty()) {
        if tok == "|" {
            section += 1;
            continue;
        }
        match section {
            0 => prog.push(parse_instr(tok)?),
            1 => {
                let (n, v) = tok.split_once('=')?;
                wit.push((if n == "%" { String::new() } else { n.to_string() }, parse_val(v)?));
            }
            _ => {}
        }
    }
    Some(Case { prog, wit })
}

/// Canonical class of a ZKIR error, computed from its `Debug` rendering (the in-circuit
/// side only ever sees that rendering, wrapped in `plonk::Error::Synthesis`).
pub fn classify_msg(msg: &str) -> String {
    let structured = msg.starts_with("wrong arity")
        || msg.ends_with(" not found")
        || msg.ends_with(" already exists")
        || (msg.starts_with("type ") && msg.contains(" was expected instead of "))
        || msg.contains(" is not supported on ");
    if structured {
        return msg.replace(' ', "_");
    }
    if msg.contains("cannot be parsed as a") {
        // ParsingError(type, string): keep the type only
        let t = msg.rsplit("cannot be parsed as a ").next().unwrap_or("");
        return format!("parse:{}", t.replace(' ', "_"));
    }
    if msg.starts_with("cannot convert") && msg.contains(" to \"") {
        // TryFrom<IrValue> / TryFrom<CircuitValue> of the wrong variant
        return "other:type-convert".to_string();
    }
    for (pre, class) in [
        ("cannot reduce modulo zero", "other:zero-modulus"),
        ("assertion violated", "other:assert"),
        ("underflow subtracting", "other:underflow"),
        ("cannot convert", "other:cannot-convert"),
        ("expecting Bytes(n)", "other:expecting-bytes"),
        ("invalid length", "other:invalid-length"),
        ("invalid format", "other:invalid-format"),
    ] {
        if msg.starts_with(pre) {
            return class.to_string();
        }
    }
    // hex / radix decoding errors of constants
    if msg.contains("OddLength") || msg.contains("InvalidHexCharacter") || msg.contains("InvalidStringLength") {
        return "other:hex".to_string();
    }
    if msg.contains("ParseBigIntError") {
        return "other:bigint".to_string();
    }
    format!("other:?{}", msg.replace(' ', "_").chars().take(80).collect::<String>())
}

pub fn classify_zkir(e: &midnight_zkir::Error) -> String {
    classify_msg(&format!("{e:?}"))
}

/// `plonk::Error::Synthesis(msg)` displays as `General synthesis error: msg`-like text; we
/// strip what precedes the ZKIR message.
pub fn classify_plonk(e: &midnight_proofs::plonk::Error) -> String {
    match e {
        midnight_proofs::plonk::Error::Synthesis(m) => classify_msg(m),
        other => format!("plonk:{}", format!("{other:?}").replace(' ', "_").chars().take(80).collect::<String>()),
    }
}

pub fn generator() -> JubjubSubgroup {
    JubjubSubgroup::generator()
}
