//! ZKIR programs (compiled by the REAL `ZkirRelation`) with several witnesses each: the circuit a
//! program compiles to must not depend on the values loaded.

use std::collections::HashMap;

use midnight_zkir::{IrValue, ZkirRelation};

use crate::zkir_text::{parse_case_body, Case};

/// `program | witness` followed by further ` || witness` alternatives.
pub const PROGRAMS: &[&str] = &[
    // native arithmetic and comparisons: zero / equal / opposite operands
    "load.native;;x,y add;x,y;z mul;z,x;t neg;t;u is_eq;x,y;e publish;u,e; | x=n:0 y=n:0 || x=n:5 y=n:5 || x=n:1 y=n:73eda753299d7d483339d80809a1d80553bda402fffe5bfeffffffff00000000 || x=n:1234567 y=n:89abcdef",
    "load.native;;x,y sub;x,y;z assert_ne;x,y; publish;z; | x=n:1 y=n:0 || x=n:0 y=n:1 || x=n:73eda753299d7d483339d80809a1d80553bda402fffe5bfeffffffff00000000 y=n:1",
    "load.bool;;a,b is_eq;a,b;e publish;e,a; | a=b:0 b=b:0 || a=b:1 b=b:0 || a=b:1 b=b:1",
    // bytes, hashes
    "load.bytes.4;;b sha256;b;h publish;h; | b=y:00000000 || b=y:ffffffff || b=y:01020304",
    "load.bytes.3;;a,b is_eq;a,b;e publish;e; | a=y:000000 b=y:000000 || a=y:000001 b=y:000000 || a=y:ffffff b=y:ffffff",
    "load.native;;x into_bytes.32;x;b from_bytes.native;b;y assert_eq;x,y; publish;b; | x=n:0 || x=n:1 || x=n:73eda753299d7d483339d80809a1d80553bda402fffe5bfeffffffff00000000 || x=n:100000000000000000000000000000000",
    "load.native;;x,y poseidon;x,y;h publish;h; | x=n:0 y=n:0 || x=n:1 y=n:2 || x=n:73eda753299d7d483339d80809a1d80553bda402fffe5bfeffffffff00000000 y=n:0",
    // big unsigned integers: carries, equal operands, zero
    "load.big.96;;x,y add;x,y;z mul;x,y;m is_eq;x,y;e publish;z,m,e; | x=u:0 y=u:0 || x=u:ffffffffffffffffffffffff y=u:ffffffffffffffffffffffff || x=u:ffffffffffffffffffffffff y=u:1 || x=u:123456789abcdef y=u:fedcba987654321",
    "load.big.96;;x,y sub;x,y;z publish;z; | x=u:5 y=u:5 || x=u:ffffffffffffffffffffffff y=u:0 || x=u:1000000000000000000000 y=u:1",
    "load.big.64;;x,m mod_exp.5;x,m;r publish;r; | x=u:0 m=u:7 || x=u:ffffffffffffffff m=u:ffffffffffffffff || x=u:5 m=u:1 || x=u:123456 m=u:fedcba9",
    "load.big.120;;x into_bytes.15;x;b from_bytes.big.120;b;y assert_eq;x,y; publish;b; | x=u:0 || x=u:ffffffffffffffffffffffffffffff || x=u:100000000000000",
    // Jubjub: identity, generator, scalars 0 / 1 / -1
    "load.scalar;;s mul;s,Jubjub:GENERATOR;p add;p,p;q affine;q;u,v publish;u,v; | s=s:0 || s=s:1 || s=s:e7db4ea6533afa906673b0101343b00a6682093ccc81082d0970e5ed6f72cb6 || s=s:123456789abcdef",
    "load.scalar;;s,t mul;s,Jubjub:GENERATOR;p mul;t,Jubjub:GENERATOR;q add;p,q;r is_eq;p,q;e publish;r,e; | s=s:1 t=s:1 || s=s:1 t=s:e7db4ea6533afa906673b0101343b00a6682093ccc81082d0970e5ed6f72cb6 || s=s:0 t=s:5 || s=s:7 t=s:9",
    "load.scalar;;s,t load.native;;x inner_product;s,t,Jubjub:GENERATOR,Jubjub:GENERATOR;p publish;p,x; | s=s:0 t=s:0 x=n:0 || s=s:1 t=s:e7db4ea6533afa906673b0101343b00a6682093ccc81082d0970e5ed6f72cb6 x=n:1 || s=s:5 t=s:6 x=n:7",
    "load.bytes.8;;b from_bytes.scalar;b;s mul;s,Jubjub:GENERATOR;p neg;p;q publish;q; | b=y:0000000000000000 || b=y:0100000000000000 || b=y:ffffffffffffffff",
];

pub struct Program {
    pub text: String,
    pub case: Case,
    pub witnesses: Vec<(String, HashMap<&'static str, IrValue>)>,
}

fn leak(s: &str) -> &'static str {
    Box::leak(s.to_string().into_boxed_str())
}

pub fn programs() -> Vec<Program> {
    PROGRAMS
        .iter()
        .map(|t| {
            let mut parts = t.split(" || ");
            let first = parts.next().unwrap();
            let case = parse_case_body(first).unwrap_or_else(|| panic!("bad program {first}"));
            let prog_text = first.split(" | ").next().unwrap().to_string();
            let mut witnesses = vec![];
            let to_map = |c: &Case| -> HashMap<&'static str, IrValue> {
                c.wit.iter().map(|(n, v)| (leak(n), v.clone())).collect()
            };
            witnesses.push((first.split(" | ").nth(1).unwrap_or("").to_string(), to_map(&case)));
            for alt in parts {
                let c = parse_case_body(&format!("| {alt}")).unwrap_or_else(|| panic!("bad witness {alt}"));
                witnesses.push((alt.to_string(), to_map(&c)));
            }
            Program { text: prog_text, case, witnesses }
        })
        .collect()
}

pub fn relation(p: &Program) -> Result<ZkirRelation, String> {
    ZkirRelation::from_instructions(&p.case.prog).map_err(|e| format!("{e:?}"))
}
