//! Shared plumbing of the correspondence harness: line protocol writer, statistics,
//! oracle-failure records, seeded randomness, panic capture, number formatting.
//!
//! Every per-property binary `h-cXX` is invoked as
//! `h-cXX --tier quick|thorough|search --seed N --out DIR [--replay FILE]` and writes
//! `DIR/ops.txt` (one request per line), `DIR/impl.txt` (the implementation's canonical
//! answer per line), `DIR/stats.json` (input distribution, samples, oracle failures).

use std::collections::{BTreeMap, HashSet};
use std::fs::File;
use std::hash::{Hash, Hasher};
use std::io::{BufWriter, Write};
use std::path::PathBuf;

use ff::PrimeField;
use num_bigint::BigUint;
use rand_chacha::ChaCha8Rng;
use rand_core::SeedableRng;
use serde_json::{json, Value};

pub mod copyrec;
pub mod csdump;
pub mod family;
pub mod fixedrec;
pub mod recording;
pub mod shape;

pub struct Ctx {
    pub id: String,
    pub tier: String,
    pub seed: u64,
    pub out_dir: PathBuf,
    pub replay: Option<PathBuf>,
    ops: BufWriter<File>,
    imp: BufWriter<File>,
    stats: BTreeMap<String, u64>,
    samples: BTreeMap<String, Vec<String>>,
    oracle: Vec<Value>,
    distinct: HashSet<u64>,
    lines: u64,
    extra: BTreeMap<String, Value>,
}

impl Ctx {
    pub fn from_args(id: &str) -> Ctx {
        let args: Vec<String> = std::env::args().collect();
        let mut tier = "quick".to_string();
        let mut seed = 1u64;
        let mut out = PathBuf::from(format!("/verif/work/{id}"));
        let mut replay = None;
        let mut i = 1;
        while i < args.len() {
            match args[i].as_str() {
                "--tier" => {
                    tier = args[i + 1].clone();
                    i += 1
                }
                "--seed" => {
                    seed = args[i + 1].parse().expect("seed");
                    i += 1
                }
                "--out" => {
                    out = PathBuf::from(&args[i + 1]);
                    i += 1
                }
                "--replay" => {
                    replay = Some(PathBuf::from(&args[i + 1]));
                    i += 1
                }
                other => panic!("unknown argument {other}"),
            }
            i += 1;
        }
        std::fs::create_dir_all(&out).unwrap();
        let ops = BufWriter::new(File::create(out.join("ops.txt")).unwrap());
        let imp = BufWriter::new(File::create(out.join("impl.txt")).unwrap());
        quiet_panics();
        Ctx {
            id: id.to_string(),
            tier,
            seed,
            out_dir: out,
            replay,
            ops,
            imp,
            stats: BTreeMap::new(),
            samples: BTreeMap::new(),
            oracle: vec![],
            distinct: HashSet::new(),
            lines: 0,
            extra: BTreeMap::new(),
        }
    }

    pub fn quick(&self) -> bool {
        self.tier == "quick"
    }
    pub fn thorough(&self) -> bool {
        self.tier == "thorough"
    }
    pub fn search(&self) -> bool {
        self.tier == "search"
    }

    /// Deterministic PRNG derived from the run seed and a label.
    pub fn rng(&self, label: &str) -> ChaCha8Rng {
        let mut h = std::collections::hash_map::DefaultHasher::new();
        label.hash(&mut h);
        let mut s = [0u8; 32];
        s[..8].copy_from_slice(&self.seed.to_le_bytes());
        s[8..16].copy_from_slice(&h.finish().to_le_bytes());
        ChaCha8Rng::from_seed(s)
    }

    /// One correspondence case: request line for the model, canonical implementation answer.
    /// `kind` feeds the distribution table; `nontrivial` says whether the case counts
    /// towards `distinct_nontrivial` (distinctness is measured by hashing the request line).
    pub fn case(&mut self, kind: &str, nontrivial: bool, op_line: &str, impl_line: &str) {
        debug_assert!(!op_line.contains('\n') && !impl_line.contains('\n'));
        writeln!(self.ops, "{op_line}").unwrap();
        writeln!(self.imp, "{impl_line}").unwrap();
        self.lines += 1;
        *self.stats.entry(format!("case:{kind}")).or_insert(0) += 1;
        if nontrivial {
            let mut h = std::collections::hash_map::DefaultHasher::new();
            op_line.hash(&mut h);
            self.distinct.insert(h.finish());
        }
        let s = self.samples.entry(kind.to_string()).or_default();
        if s.len() < 2 && (nontrivial || s.is_empty()) {
            let mut l = format!("{op_line} => {impl_line}");
            if l.len() > 300 {
                l.truncate(300);
                l.push('…');
            }
            s.push(l);
        }
    }

    /// Count something for the distribution table.
    pub fn count(&mut self, key: &str) {
        *self.stats.entry(key.to_string()).or_insert(0) += 1;
    }
    pub fn count_n(&mut self, key: &str, n: u64) {
        *self.stats.entry(key.to_string()).or_insert(0) += n;
    }
    pub fn set_extra(&mut self, key: &str, v: Value) {
        self.extra.insert(key.to_string(), v);
    }

    /// A failure of the *property statement itself* observed on the implementation (an honest
    /// proof rejected, a forged witness accepted, a panic on untrusted bytes, …). `key` is the
    /// canonical identity of the failing input used for matching known findings; `detail`
    /// must contain everything needed to replay.
    pub fn oracle_fail(&mut self, key: &str, what: &str, detail: Value) {
        self.count("oracle_fail");
        if self.oracle.len() < 50 {
            self.oracle.push(json!({"key": key, "what": what, "detail": detail}));
        }
    }

    pub fn finish(mut self) {
        self.ops.flush().unwrap();
        self.imp.flush().unwrap();
        let stats = json!({
            "property_id": self.id,
            "tier": self.tier,
            "seed": self.seed,
            "lines": self.lines,
            "distinct_nontrivial": self.distinct.len(),
            "distribution": self.stats,
            "samples": self.samples,
            "oracle_failures": self.oracle,
            "extra": self.extra,
        });
        std::fs::write(
            self.out_dir.join("stats.json"),
            serde_json::to_vec_pretty(&stats).unwrap(),
        )
        .unwrap();
    }
}

/// Install a panic hook that stays silent (panics are caught and reported as values).
pub fn quiet_panics() {
    if std::env::var("MZKH_VERBOSE").is_ok() {
        return;
    }
    std::panic::set_hook(Box::new(|_| {}));
}

/// Run `f`, turning a panic into `Err(message)`.
pub fn catch<T>(f: impl FnOnce() -> T) -> Result<T, String> {
    match std::panic::catch_unwind(std::panic::AssertUnwindSafe(f)) {
        Ok(v) => Ok(v),
        Err(e) => {
            let msg = if let Some(s) = e.downcast_ref::<&str>() {
                s.to_string()
            } else if let Some(s) = e.downcast_ref::<String>() {
                s.clone()
            } else {
                "panic".to_string()
            };
            Err(msg)
        }
    }
}

/// Little-endian bytes to `0x…` big-endian hex without leading zeros.
pub fn le_bytes_hex(b: &[u8]) -> String {
    format!("0x{}", BigUint::from_bytes_le(b).to_str_radix(16))
}

/// Canonical integer value of a prime-field element as hex.
pub fn fe_hex<F: PrimeField>(f: &F) -> String {
    le_bytes_hex(f.to_repr().as_ref())
}

pub fn fe_big<F: PrimeField>(f: &F) -> BigUint {
    BigUint::from_bytes_le(f.to_repr().as_ref())
}

pub fn big_hex(b: &BigUint) -> String {
    format!("0x{}", b.to_str_radix(16))
}

/// Field element from an integer (reduced modulo the field's modulus).
pub fn fe_from_big<F: PrimeField>(b: &BigUint) -> F {
    let mut acc = F::ZERO;
    let base = F::from(1u64 << 32) * F::from(1u64 << 32);
    for d in b.to_u64_digits().iter().rev() {
        acc = acc * base + F::from(*d);
    }
    acc
}

pub fn join<T: ToString>(v: &[T]) -> String {
    if v.is_empty() {
        "-".to_string()
    } else {
        v.iter().map(|x| x.to_string()).collect::<Vec<_>>().join(",")
    }
}
