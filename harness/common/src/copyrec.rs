//! `CopyRecorder`: an `Assignment` that records every copy constraint a circuit REQUESTS
//! (`Assignment::copy`, i.e. `constrain_equal` / `constrain_instance` / constant cells) with
//! absolute rows, by driving the circuit's real floor planner. Independent of
//! `permutation::keygen::Assembly` (which turns the requests into cycles).

use ff::Field;
use midnight_proofs::{
    circuit::Value,
    plonk::{
        Advice, Any, Assignment, Challenge, Circuit, Column, ConstraintSystem, Error, Fixed,
        FloorPlanner, Instance, Selector,
    },
    utils::rational::Rational,
};

/// (column kind 'a'|'f'|'i', column index, row)
pub type CellRef = (char, usize, usize);

#[derive(Default)]
pub struct CopyRecorder {
    pub copies: Vec<(CellRef, CellRef)>,
}

fn cell(c: Column<Any>, row: usize) -> CellRef {
    let k = match c.column_type() {
        Any::Advice(_) => 'a',
        Any::Fixed => 'f',
        Any::Instance => 'i',
    };
    (k, c.index(), row)
}

impl<F: Field> Assignment<F> for CopyRecorder {
    fn enter_region<NR, N>(&mut self, _: N)
    where
        NR: Into<String>,
        N: FnOnce() -> NR,
    {
    }
    fn annotate_column<A, AR>(&mut self, _: A, _: Column<Any>)
    where
        A: FnOnce() -> AR,
        AR: Into<String>,
    {
    }
    fn exit_region(&mut self) {}
    fn enable_selector<A, AR>(&mut self, _: A, _: &Selector, _: usize) -> Result<(), Error>
    where
        A: FnOnce() -> AR,
        AR: Into<String>,
    {
        Ok(())
    }
    fn query_instance(&self, _: Column<Instance>, _: usize) -> Result<Value<F>, Error> {
        Ok(Value::unknown())
    }
    fn assign_advice<V, VR, A, AR>(&mut self, _: A, _: Column<Advice>, _: usize, _: V) -> Result<(), Error>
    where
        V: FnOnce() -> Value<VR>,
        VR: Into<Rational<F>>,
        A: FnOnce() -> AR,
        AR: Into<String>,
    {
        Ok(())
    }
    fn assign_fixed<V, VR, A, AR>(&mut self, _: A, _: Column<Fixed>, _: usize, _: V) -> Result<(), Error>
    where
        V: FnOnce() -> Value<VR>,
        VR: Into<Rational<F>>,
        A: FnOnce() -> AR,
        AR: Into<String>,
    {
        Ok(())
    }
    fn copy(&mut self, lc: Column<Any>, lr: usize, rc: Column<Any>, rr: usize) -> Result<(), Error> {
        self.copies.push((cell(lc, lr), cell(rc, rr)));
        Ok(())
    }
    fn fill_from_row(&mut self, _: Column<Fixed>, _: usize, _: Value<Rational<F>>) -> Result<(), Error> {
        Ok(())
    }
    fn get_challenge(&self, _: Challenge) -> Value<F> {
        Value::unknown()
    }
    fn push_namespace<NR, N>(&mut self, _: N)
    where
        NR: Into<String>,
        N: FnOnce() -> NR,
    {
    }
    fn pop_namespace(&mut self, _: Option<String>) {}
}

/// The copy constraints requested by `circuit`, in request order.
pub fn requested_copies<F: Field + ff::PrimeField, C: Circuit<F>>(circuit: &C) -> Vec<(CellRef, CellRef)>
where
    C::Params: Clone,
{
    let mut cs = ConstraintSystem::<F>::default();
    let config = C::configure_with_params(&mut cs, circuit.params());
    let mut rec = CopyRecorder::default();
    C::FloorPlanner::synthesize(&mut rec, circuit, config, cs.constants().clone()).expect("synthesis");
    rec.copies
}
