//! One-line rendering of the part of a real constraint system the schedule model depends on.
use midnight_curves::{Bls12, Fq as F};
use midnight_proofs::{plonk::ProvingKey, poly::kzg::KZGCommitmentScheme};

type Scheme = KZGCommitmentScheme<Bls12>;

fn fmt_queries<C>(qs: &[(C, midnight_proofs::poly::Rotation)], idx: impl Fn(&C) -> usize) -> String {
    if qs.is_empty() {
        "-".into()
    } else {
        qs.iter().map(|(c, r)| format!("{}:{}", idx(c), r.0)).collect::<Vec<_>>().join(",")
    }
}

pub fn shape_string(pk: &ProvingKey<F, Scheme>, k: u32) -> String {
    let cs = pk.get_vk().cs();
    let ap: Vec<u8> = cs.advice_column_phase();
    let cp: Vec<u8> = cs.challenge_phase();
    format!(
        "ap={} cp={} aq={} iq={} fq={} nl={} nt={} pc={} deg={} bl={} k={}",
        crate::join(&ap),
        crate::join(&cp),
        fmt_queries(cs.advice_queries(), |c| c.index()),
        fmt_queries(cs.instance_queries(), |c| c.index()),
        fmt_queries(cs.fixed_queries(), |c| c.index()),
        cs.lookups().len(),
        cs.trashcans().len(),
        cs.permutation().get_columns().len(),
        cs.degree(),
        cs.blinding_factors(),
        k
    )
}

