//! `FixedRecorder`: an `Assignment` that records every write a circuit REQUESTS on its fixed
//! columns (`assign_fixed` with absolute row and value, `fill_from_row` with its first row and
//! filler), in request order, by driving the circuit's real floor planner. Independent of
//! `keygen::Assembly` and of `MockProver` (which turn the requests into columns).

use ff::Field;
use midnight_proofs::{
    circuit::Value,
    plonk::{
        Advice, Any, Assignment, Challenge, Circuit, Column, ConstraintSystem, Error, Fixed,
        FloorPlanner, Instance, Selector,
    },
    utils::rational::Rational,
};

/// One requested write: `Assign(col, row, value)` or `Fill(col, from_row, filler)`.
#[derive(Clone, Debug, PartialEq)]
pub enum FixedOp<F> {
    Assign(usize, usize, F),
    Fill(usize, usize, F),
}

pub struct FixedRecorder<F> {
    pub ops: Vec<FixedOp<F>>,
}

fn known<F: Field>(v: Value<Rational<F>>) -> F {
    let mut out = None;
    v.evaluate().map(|x| out = Some(x));
    out.expect("fixed values are known")
}

impl<F: Field> Assignment<F> for FixedRecorder<F> {
    fn enter_region<NR, N>(&mut self, _: N)
    where
        NR: Into<String>,
        N: FnOnce() -> NR,
    {
    }
    fn annotate_column<A, AR>(&mut self, _: A, _: Column<Any>)
    where
        A: FnOnce() -> AR,
        AR: Into<String>,
    {
    }
    fn exit_region(&mut self) {}
    fn enable_selector<A, AR>(&mut self, _: A, _: &Selector, _: usize) -> Result<(), Error>
    where
        A: FnOnce() -> AR,
        AR: Into<String>,
    {
        Ok(())
    }
    fn query_instance(&self, _: Column<Instance>, _: usize) -> Result<Value<F>, Error> {
        Ok(Value::unknown())
    }
    fn assign_advice<V, VR, A, AR>(&mut self, _: A, _: Column<Advice>, _: usize, _: V) -> Result<(), Error>
    where
        V: FnOnce() -> Value<VR>,
        VR: Into<Rational<F>>,
        A: FnOnce() -> AR,
        AR: Into<String>,
    {
        Ok(())
    }
    fn assign_fixed<V, VR, A, AR>(&mut self, _: A, c: Column<Fixed>, row: usize, to: V) -> Result<(), Error>
    where
        V: FnOnce() -> Value<VR>,
        VR: Into<Rational<F>>,
        A: FnOnce() -> AR,
        AR: Into<String>,
    {
        self.ops.push(FixedOp::Assign(c.index(), row, known(to().into_field())));
        Ok(())
    }
    fn copy(&mut self, _: Column<Any>, _: usize, _: Column<Any>, _: usize) -> Result<(), Error> {
        Ok(())
    }
    fn fill_from_row(&mut self, c: Column<Fixed>, from: usize, to: Value<Rational<F>>) -> Result<(), Error> {
        self.ops.push(FixedOp::Fill(c.index(), from, known(to)));
        Ok(())
    }
    fn get_challenge(&self, _: Challenge) -> Value<F> {
        Value::unknown()
    }
    fn push_namespace<NR, N>(&mut self, _: N)
    where
        NR: Into<String>,
        N: FnOnce() -> NR,
    {
    }
    fn pop_namespace(&mut self, _: Option<String>) {}
}

/// The fixed-column writes requested by `circuit`, in request order, and the number of fixed
/// columns of the constraint system before selectors are converted into fixed columns.
pub fn requested_fixed_ops<F: Field + ff::PrimeField, C: Circuit<F>>(circuit: &C) -> (Vec<FixedOp<F>>, usize)
where
    C::Params: Clone,
{
    let mut cs = ConstraintSystem::<F>::default();
    let config = C::configure_with_params(&mut cs, circuit.params());
    let mut rec = FixedRecorder { ops: vec![] };
    C::FloorPlanner::synthesize(&mut rec, circuit, config, cs.constants().clone()).expect("synthesis");
    (rec.ops, cs.num_fixed_columns())
}
