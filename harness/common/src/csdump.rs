//! Serialisation of a real `ConstraintSystem` (after selector replacement) and of a
//! `MockProver` assignment table into the one-line format read by the Lean `rowSat` model
//! (`lean/MidnightZK/Model/C02/RowSat.lean`, driver `mzk-c02`).

use ff::PrimeField;
use midnight_proofs::{
    dev::{CellValue, InstanceValue, MockProver},
    plonk::{Any, ConstraintSystem, Expression},
};

fn hex<F: PrimeField>(f: &F) -> String {
    crate::fe_hex(f)[2..].to_string()
}

/// Prefix rendering of an expression: C<hex> F<col>@<rot> A<col>@<rot> I<col>@<rot> H<i>
/// N(e) S(e,e) P(e,e) X(e,<hex>).
pub fn expr_string<F: PrimeField>(e: &Expression<F>) -> String {
    e.evaluate(
        &|c| format!("C{}", hex(&c)),
        &|_| panic!("virtual selectors are removed during optimization"),
        &|q| format!("F{}@{}", q.column_index(), q.rotation().0),
        &|q| format!("A{}@{}", q.column_index(), q.rotation().0),
        &|q| format!("I{}@{}", q.column_index(), q.rotation().0),
        &|c| format!("H{}", c.index()),
        &|a| format!("N({a})"),
        &|a, b| format!("S({a},{b})"),
        &|a, b| format!("P({a},{b})"),
        &|a, c| format!("X({a},{})", hex(&c)),
    )
}

fn list(v: Vec<String>, sep: &str) -> String {
    if v.is_empty() {
        "-".to_string()
    } else {
        v.join(sep)
    }
}

/// `gates=… lookups=… trash=… pc=… bl=…` of a constraint system.
pub fn cs_string<F: PrimeField + ff::WithSmallOrderMulGroup<3>>(cs: &ConstraintSystem<F>) -> String {
    let gates: Vec<String> =
        cs.gates().iter().flat_map(|g| g.polynomials().iter().map(expr_string)).collect();
    let lookups: Vec<String> = cs
        .lookups()
        .iter()
        .map(|l| {
            format!(
                "{}>{}",
                list(l.input_expressions().iter().map(expr_string).collect(), "|"),
                list(l.table_expressions().iter().map(expr_string).collect(), "|")
            )
        })
        .collect();
    let trash: Vec<String> = cs
        .trashcans()
        .iter()
        .map(|t| {
            format!(
                "{}>{}",
                expr_string(t.selector()),
                list(t.constraint_expressions().iter().map(expr_string).collect(), "|")
            )
        })
        .collect();
    let pc: Vec<String> = cs
        .permutation()
        .get_columns()
        .iter()
        .map(|c| {
            let k = match c.column_type() {
                Any::Advice(_) => "a",
                Any::Fixed => "f",
                Any::Instance => "i",
            };
            format!("{k}{}", c.index())
        })
        .collect();
    format!(
        "bl={} gates={} lookups={} trash={} pc={}",
        cs.blinding_factors(),
        list(gates, ";"),
        list(lookups, ";"),
        list(trash, ";"),
        list(pc, ",")
    )
}

fn rle(vals: Vec<String>) -> String {
    let mut out: Vec<String> = vec![];
    let mut i = 0;
    while i < vals.len() {
        let mut j = i;
        while j < vals.len() && vals[j] == vals[i] {
            j += 1;
        }
        if j - i > 1 {
            out.push(format!("{}*{}", vals[i], j - i));
        } else {
            out.push(vals[i].clone());
        }
        i = j;
    }
    list(out, ",")
}

fn col_string<F: PrimeField>(col: &[CellValue<F>]) -> String {
    rle(col
        .iter()
        .map(|c| match c {
            CellValue::Unassigned => "0".to_string(),
            CellValue::Assigned(v) => hex(v),
            CellValue::Poison(_) => "P".to_string(),
        })
        .collect())
}

/// Like `table_string`, but the copy constraints are the ones the circuit REQUESTED
/// (recorded by `copyrec::requested_copies`), not the cycles stored by the key-generation
/// `Assembly`.
pub fn table_string_requested<F: PrimeField + ff::FromUniformBytes<64> + Ord>(
    mp: &MockProver<F>,
    n: usize,
    copies: &[(crate::copyrec::CellRef, crate::copyrec::CellRef)],
) -> String {
    let cols: Vec<(char, usize)> = mp
        .cs()
        .permutation()
        .get_columns()
        .iter()
        .map(|c| {
            let k = match c.column_type() {
                Any::Advice(_) => 'a',
                Any::Fixed => 'f',
                Any::Instance => 'i',
            };
            (k, c.index())
        })
        .collect();
    let idx = |c: &crate::copyrec::CellRef| cols.iter().position(|x| *x == (c.0, c.1)).expect("copy on a column outside the permutation");
    let cp: Vec<String> = copies.iter().map(|(a, b)| format!("{}.{}.{}.{}", idx(a), a.2, idx(b), b.2)).collect();
    let base = table_string(mp, n);
    // replace the cp= field
    base.split(' ')
        .map(|f| if f.starts_with("cp=") { format!("cp={}", list(cp.clone(), ",")) } else { f.to_string() })
        .collect::<Vec<_>>()
        .join(" ")
}

/// Do the requested copy constraints hold on the table?
pub fn requested_copies_hold<F: PrimeField + ff::FromUniformBytes<64> + Ord>(
    mp: &MockProver<F>,
    copies: &[(crate::copyrec::CellRef, crate::copyrec::CellRef)],
) -> bool {
    let val = |c: &crate::copyrec::CellRef| -> Option<F> {
        match c.0 {
            'a' => match mp.advice()[c.1][c.2] {
                CellValue::Assigned(v) => Some(v),
                CellValue::Unassigned => Some(F::ZERO),
                CellValue::Poison(_) => None,
            },
            'f' => match mp.fixed()[c.1][c.2] {
                CellValue::Assigned(v) => Some(v),
                CellValue::Unassigned => Some(F::ZERO),
                CellValue::Poison(_) => None,
            },
            _ => match mp.instance()[c.1][c.2] {
                InstanceValue::Assigned(v) => Some(v),
                InstanceValue::Padding => Some(F::ZERO),
            },
        }
    };
    copies.iter().all(|(a, b)| val(a) == val(b))
}

/// `n=… ch=… cp=… fixed=… advice=… inst=…` of a mock-prover table.
pub fn table_string<F: PrimeField + ff::FromUniformBytes<64> + Ord>(mp: &MockProver<F>, n: usize) -> String {
    let fixed: Vec<String> = mp.fixed().iter().map(|c| col_string(c)).collect();
    let advice: Vec<String> = mp.advice().iter().map(|c| col_string(c)).collect();
    let inst: Vec<String> = mp
        .instance()
        .iter()
        .map(|c| {
            rle(c
                .iter()
                .map(|v| match v {
                    InstanceValue::Assigned(v) => hex(v),
                    InstanceValue::Padding => "0".to_string(),
                })
                .collect())
        })
        .collect();
    let mut cp = vec![];
    use rayon::iter::ParallelIterator;
    let mapping: Vec<Vec<(usize, usize)>> = mp.permutation().mapping().map(|c| c.collect::<Vec<_>>()).collect();
    for (ci, col) in mapping.into_iter().enumerate() {
        for (ri, (c2, r2)) in col.into_iter().enumerate() {
            if (ci, ri) != (c2, r2) {
                cp.push(format!("{ci}.{ri}.{c2}.{r2}"));
            }
        }
    }
    format!(
        "n={} cp={} fixed={} advice={} inst={}",
        n,
        list(cp, ","),
        list(fixed, "/"),
        list(advice, "/"),
        list(inst, "/")
    )
}
