//! Serialisation of a real `ConstraintSystem` (after selector replacement) and of a
//! `MockProver` assignment table into the one-line format read by the Lean `rowSat` model
//! (`lean/MidnightZK/Model/C02/RowSat.lean`, driver `mzk-c02`).

use ff::PrimeField;
use midnight_proofs::{
    dev::{CellValue, InstanceValue, MockProver},
    plonk::{Any, ConstraintSystem, Expression},
};

fn hex<F: PrimeField>(f: &F) -> String {
    crate::fe_hex(f)[2..].to_string()
}

/// Prefix rendering of an expression: C<hex> F<col>@<rot> A<col>@<rot> I<col>@<rot> H<i>
/// N(e) S(e,e) P(e,e) X(e,<hex>).
pub fn expr_string<F: PrimeField>(e: &Expression<F>) -> String {
    e.evaluate(
        &|c| format!("C{}", hex(&c)),
        &|_| panic!("virtual selectors are removed during optimization"),
        &|q| format!("F{}@{}", q.column_index(), q.rotation().0),
        &|q| format!("A{}@{}", q.column_index(), q.rotation().0),
        &|q| format!("I{}@{}", q.column_index(), q.rotation().0),
        &|c| format!("H{}", c.index()),
        &|a| format!("N({a})"),
        &|a, b| format!("S({a},{b})"),
        &|a, b| format!("P({a},{b})"),
        &|a, c| format!("X({a},{})", hex(&c)),
    )
}

fn list(v: Vec<String>, sep: &str) -> String {
    if v.is_empty() {
        "-".to_string()
    } else {
        v.join(sep)
    }
}

/// `gates=… lookups=… trash=… pc=… bl=…` of a constraint system.
pub fn cs_string<F: PrimeField + ff::WithSmallOrderMulGroup<3>>(cs: &ConstraintSystem<F>) -> String {
    let gates: Vec<String> =
        cs.gates().iter().flat_map(|g| g.polynomials().iter().map(expr_string)).collect();
    let lookups: Vec<String> = cs
        .lookups()
        .iter()
        .map(|l| {
            format!(
                "{}>{}",
                list(l.input_expressions().iter().map(expr_string).collect(), "|"),
                list(l.table_expressions().iter().map(expr_string).collect(), "|")
            )
        })
        .collect();
    let trash: Vec<String> = cs
        .trashcans()
        .iter()
        .map(|t| {
            format!(
                "{}>{}",
                expr_string(t.selector()),
                list(t.constraint_expressions().iter().map(expr_string).collect(), "|")
            )
        })
        .collect();
    let pc: Vec<String> = cs
        .permutation()
        .get_columns()
        .iter()
        .map(|c| {
            let k = match c.column_type() {
                Any::Advice(_) => "a",
                Any::Fixed => "f",
                Any::Instance => "i",
            };
            format!("{k}{}", c.index())
        })
        .collect();
    format!(
        "bl={} gates={} lookups={} trash={} pc={}",
        cs.blinding_factors(),
        list(gates, ";"),
        list(lookups, ";"),
        list(trash, ";"),
        list(pc, ",")
    )
}

fn rle(vals: Vec<String>) -> String {
    let mut out: Vec<String> = vec![];
    let mut i = 0;
    while i < vals.len() {
        let mut j = i;
        while j < vals.len() && vals[j] == vals[i] {
            j += 1;
        }
        if j - i > 1 {
            out.push(format!("{}*{}", vals[i], j - i));
        } else {
            out.push(vals[i].clone());
        }
        i = j;
    }
    list(out, ",")
}

fn col_string<F: PrimeField>(col: &[CellValue<F>]) -> String {
    rle(col
        .iter()
        .map(|c| match c {
            CellValue::Unassigned => "0".to_string(),
            CellValue::Assigned(v) => hex(v),
            CellValue::Poison(_) => "P".to_string(),
        })
        .collect())
}

/// `n=… ch=… cp=… fixed=… advice=… inst=…` of a mock-prover table.
pub fn table_string<F: PrimeField + ff::FromUniformBytes<64> + Ord>(mp: &MockProver<F>, n: usize) -> String {
    let fixed: Vec<String> = mp.fixed().iter().map(|c| col_string(c)).collect();
    let advice: Vec<String> = mp.advice().iter().map(|c| col_string(c)).collect();
    let inst: Vec<String> = mp
        .instance()
        .iter()
        .map(|c| {
            rle(c
                .iter()
                .map(|v| match v {
                    InstanceValue::Assigned(v) => hex(v),
                    InstanceValue::Padding => "0".to_string(),
                })
                .collect())
        })
        .collect();
    let mut cp = vec![];
    use rayon::iter::ParallelIterator;
    let mapping: Vec<Vec<(usize, usize)>> = mp.permutation().mapping().map(|c| c.collect::<Vec<_>>()).collect();
    for (ci, col) in mapping.into_iter().enumerate() {
        for (ri, (c2, r2)) in col.into_iter().enumerate() {
            if (ci, ri) != (c2, r2) {
                cp.push(format!("{ci}.{ri}.{c2}.{r2}"));
            }
        }
    }
    format!(
        "n={} cp={} fixed={} advice={} inst={}",
        n,
        list(cp, ","),
        list(fixed, "/"),
        list(advice, "/"),
        list(inst, "/")
    )
}
