//! A generated family of PLONK circuits over the BLS12-381 scalar field, with satisfying
//! witnesses by construction, used by the checks of C01, C02, C03, C17.
//!
//! A member is described by `FamParams`: phase-0 and phase-1 advice columns, an optional
//! unblinded column, instance columns, a list of gate kinds (degree 3..6, rotations -1..1,
//! simple / complex / additive selectors, a challenge gate), lookups (arity 1 and 2 into fixed
//! tables, "any" lookup into an instance column), copy constraints (advice–advice,
//! advice–constant, advice–instance). `FamCircuit` carries the parameters, a witness seed and an
//! optional fault (the index of one advice assignment whose value is altered).

use std::{
    cell::Cell,
    sync::{
        atomic::{AtomicUsize, Ordering},
        Arc,
    },
};

use ff::Field;
use midnight_curves::Fq as F;
use midnight_proofs::{
    circuit::{AssignedCell, Layouter, Region, SimpleFloorPlanner, Value},
    plonk::{
        Advice, Challenge, Circuit, Column, ConstraintSystem, Constraints, Error, Expression,
        FirstPhase, Fixed, Instance, SecondPhase, Selector, TableColumn,
    },
    poly::Rotation,
};
use rand::{Rng, SeedableRng};
use rand_chacha::ChaCha8Rng;

#[derive(Clone, Copy, Debug, PartialEq, Eq, Hash)]
pub enum GateKind {
    /// s · (a0·a1 − a2)
    Mul,
    /// s · (a0 + a1(next) − a2(prev) + f0)
    LinRot,
    /// s · (a0^(d−1) − a1), degree d ∈ 3..=6
    Pow(u8),
    /// additive selector: a0 + a1 − a2 (trash argument)
    Additive,
    /// complex selector cs · (a0·a1 − a2)
    Complex,
    /// phase 1: s · (b0 − c·a0) with c the challenge usable after the first phase
    Chal,
    /// s · (a0 − p(cur) − 2·p(next) − 3·p(prev)) with p the first plain instance column
    InstRot,
    /// s · (a0(next) − a1): when listed first, the first advice query of the constraint system
    /// is a rotated one (the first opening point is then not `x`)
    NextFirst,
}

#[derive(Clone, Copy, Debug, PartialEq, Eq, Hash)]
pub enum LookupKind {
    /// cs·a0 ∈ t0
    Range,
    /// (cs·a0, cs·a1) ∈ (t0, t1) with t1 = t0² + 1 on the table rows and (0, 0) added
    Pair,
    /// cs·a0 ∈ plain instance column (lookup_any)
    AnyInstance,
}

#[derive(Clone, Debug, PartialEq, Eq, Hash)]
pub struct FamParams {
    /// phase-0 advice columns (≥ 3)
    pub n_adv0: usize,
    /// phase-1 advice columns (0 or ≥ 1); needed by `GateKind::Chal`
    pub n_adv1: usize,
    /// add one unblinded advice column carrying copies of a0
    pub unblinded: bool,
    /// committed instance columns (come first) and plain instance columns
    pub n_committed: usize,
    pub n_plain: usize,
    pub gates: Vec<GateKind>,
    pub lookups: Vec<LookupKind>,
    /// copy constraints between steps / to constants / to instance cells
    pub copies: bool,
    pub const_copies: bool,
    pub inst_copies: bool,
    /// number of steps (regions) synthesised
    pub steps: usize,
    /// log2 of the lookup table size
    pub table_bits: u32,
}

impl Default for FamParams {
    fn default() -> Self {
        FamParams {
            n_adv0: 3,
            n_adv1: 0,
            unblinded: false,
            n_committed: 0,
            n_plain: 1,
            gates: vec![GateKind::Mul],
            lookups: vec![],
            copies: true,
            const_copies: false,
            inst_copies: true,
            steps: 4,
            table_bits: 3,
        }
    }
}

#[derive(Clone, Debug)]
pub struct FamConfig {
    adv0: Vec<Column<Advice>>,
    adv1: Vec<Column<Advice>>,
    unblinded: Option<Column<Advice>>,
    f0: Column<Fixed>,
    constants: Column<Fixed>,
    instance: Vec<Column<Instance>>,
    challenge: Option<Challenge>,
    gate_sel: Vec<Selector>,
    lookup_sel: Vec<Selector>,
    t0: TableColumn,
    t1: TableColumn,
    params: FamParams,
}

#[derive(Clone, Copy, Debug, PartialEq, Eq)]
pub enum FaultKind {
    PlusOne,
    Zero,
    Random,
    /// take the value of the previously assigned cell
    Neighbour,
}

#[derive(Clone, Debug)]
pub struct FamCircuit {
    pub params: FamParams,
    pub seed: u64,
    pub known: bool,
    /// (index of the advice assignment in synthesis order, kind)
    pub fault: Option<(usize, FaultKind)>,
    /// number of advice assignments performed by the last synthesis (all phases)
    pub cell_count: Arc<AtomicUsize>,
}

impl FamCircuit {
    pub fn new(params: FamParams, seed: u64) -> Self {
        FamCircuit { params, seed, known: true, fault: None, cell_count: Arc::new(AtomicUsize::new(0)) }
    }

    /// Values of the instance columns (committed first), derived from the seed.
    pub fn instances(&self) -> Vec<Vec<F>> {
        let mut rng = ChaCha8Rng::seed_from_u64(self.seed ^ 0x1257_aa55);
        let n = self.params.n_committed + self.params.n_plain;
        (0..n)
            .map(|c| {
                let len = if c % 2 == 0 { self.params.steps.min(3) + 1 } else { 2 };
                (0..len).map(|_| F::from(rng.gen_range(1u64..(1 << self.params.table_bits)))).collect()
            })
            .collect()
    }

    /// Minimal `k` such that the circuit fits (given the number of blinding rows).
    pub fn min_k(&self, blinding: usize) -> u32 {
        let rows = (self.params.steps * 3 + 2).max((1usize << self.params.table_bits) + 2) + blinding + 1;
        let mut k = 3;
        while (1usize << k) < rows {
            k += 1;
        }
        k
    }
}

struct Assigner<'a> {
    counter: &'a Cell<usize>,
    prev: &'a Cell<F>,
    fault: Option<(usize, FaultKind)>,
    seed: u64,
}

impl Assigner<'_> {
    fn put(
        &self,
        region: &mut Region<'_, F>,
        col: Column<Advice>,
        offset: usize,
        v: Value<F>,
    ) -> Result<AssignedCell<F, F>, Error> {
        let idx = self.counter.get();
        self.counter.set(idx + 1);
        let prev = self.prev.get();
        let v = match self.fault {
            Some((i, kind)) if i == idx => v.map(|x| match kind {
                FaultKind::PlusOne => x + F::ONE,
                FaultKind::Zero => F::ZERO,
                FaultKind::Random => {
                    F::random(ChaCha8Rng::seed_from_u64(self.seed ^ (idx as u64) ^ 0xfa17))
                }
                FaultKind::Neighbour => prev,
            }),
            _ => v,
        };
        v.map(|x| self.prev.set(x));
        region.assign_advice(|| "a", col, offset, || v)
    }
}

impl Circuit<F> for FamCircuit {
    type Config = FamConfig;
    type FloorPlanner = SimpleFloorPlanner;
    type Params = FamParams;

    fn without_witnesses(&self) -> Self {
        let mut c = self.clone();
        c.known = false;
        c.fault = None;
        c
    }

    fn params(&self) -> Self::Params {
        self.params.clone()
    }

    fn configure(_meta: &mut ConstraintSystem<F>) -> Self::Config {
        unreachable!("configure_with_params is used")
    }

    fn configure_with_params(meta: &mut ConstraintSystem<F>, params: FamParams) -> FamConfig {
        assert!(params.n_adv0 >= 3);
        let adv0: Vec<_> = (0..params.n_adv0).map(|_| meta.advice_column_in(FirstPhase)).collect();
        let unblinded = params.unblinded.then(|| meta.unblinded_advice_column());
        let challenge = (params.n_adv1 > 0).then(|| meta.challenge_usable_after(FirstPhase));
        let adv1: Vec<_> = (0..params.n_adv1).map(|_| meta.advice_column_in(SecondPhase)).collect();
        let f0 = meta.fixed_column();
        let constants = meta.fixed_column();
        // A member without any copy constraint has an empty permutation argument (no column is
        // equality-enabled, no constants column).
        let need_eq = params.copies || params.const_copies || params.inst_copies || params.unblinded;
        if need_eq {
            meta.enable_constant(constants);
        }
        let instance: Vec<_> =
            (0..params.n_committed + params.n_plain).map(|_| meta.instance_column()).collect();
        // `enable_equality` registers a query at the current rotation: when NextFirst is the
        // first gate it is deferred until after the gates, so that the first advice query of
        // the constraint system is the rotated one.
        let equality_late = params.gates.first() == Some(&GateKind::NextFirst);
        if !equality_late && need_eq {
            for c in adv0.iter().chain(adv1.iter()).chain(unblinded.iter()) {
                meta.enable_equality(*c);
            }
            for c in instance.iter() {
                meta.enable_equality(*c);
            }
        }
        let t0 = meta.lookup_table_column();
        let t1 = meta.lookup_table_column();

        let mut gate_sel = vec![];
        for (gi, g) in params.gates.iter().enumerate() {
            let name: &'static str = Box::leak(format!("gate{gi}").into_boxed_str());
            match *g {
                GateKind::Mul => {
                    let s = meta.selector();
                    gate_sel.push(s);
                    meta.create_gate(name, |m| {
                        let a0 = m.query_advice(adv0[0], Rotation::cur());
                        let a1 = m.query_advice(adv0[1], Rotation::cur());
                        let a2 = m.query_advice(adv0[2], Rotation::cur());
                        Constraints::with_selector(s, vec![a0 * a1 - a2])
                    });
                }
                GateKind::LinRot => {
                    let s = meta.selector();
                    gate_sel.push(s);
                    meta.create_gate(name, |m| {
                        let a0 = m.query_advice(adv0[0], Rotation::cur());
                        let a1 = m.query_advice(adv0[1], Rotation::next());
                        let a2 = m.query_advice(adv0[2], Rotation::prev());
                        let f = m.query_fixed(f0, Rotation::cur());
                        Constraints::with_selector(s, vec![a0 + a1 - a2 + f])
                    });
                }
                GateKind::Pow(d) => {
                    assert!((3..=6).contains(&d));
                    let s = meta.selector();
                    gate_sel.push(s);
                    meta.create_gate(name, |m| {
                        let a0 = m.query_advice(adv0[0], Rotation::cur());
                        let a1 = m.query_advice(adv0[1], Rotation::cur());
                        let mut p = a0.clone();
                        for _ in 0..(d - 2) {
                            p = p * a0.clone();
                        }
                        Constraints::with_selector(s, vec![p - a1])
                    });
                }
                GateKind::Additive => {
                    // trash arguments may not contain simple selectors
                    let s = meta.complex_selector();
                    gate_sel.push(s);
                    meta.create_gate(name, |m| {
                        let a0 = m.query_advice(adv0[0], Rotation::cur());
                        let a1 = m.query_advice(adv0[1], Rotation::cur());
                        let a2 = m.query_advice(adv0[2], Rotation::cur());
                        Constraints::with_additive_selector(s, vec![a0 + a1 - a2])
                    });
                }
                GateKind::Complex => {
                    let s = meta.complex_selector();
                    gate_sel.push(s);
                    meta.create_gate(name, |m| {
                        let q = m.query_selector(s);
                        let a0 = m.query_advice(adv0[0], Rotation::cur());
                        let a1 = m.query_advice(adv0[1], Rotation::cur());
                        let a2 = m.query_advice(adv0[2], Rotation::cur());
                        Constraints::without_selector(vec![q * (a0 * a1 - a2)])
                    });
                }
                GateKind::InstRot => {
                    assert!(params.n_plain > 0);
                    let s = meta.selector();
                    gate_sel.push(s);
                    let col = instance[params.n_committed];
                    meta.create_gate(name, |m| {
                        let a0 = m.query_advice(adv0[0], Rotation::cur());
                        let pc = m.query_instance(col, Rotation::cur());
                        let pn = m.query_instance(col, Rotation::next());
                        let pp = m.query_instance(col, Rotation::prev());
                        Constraints::with_selector(
                            s,
                            vec![a0 - pc - pn * F::from(2) - pp * F::from(3)],
                        )
                    });
                }
                GateKind::NextFirst => {
                    let s = meta.selector();
                    gate_sel.push(s);
                    meta.create_gate(name, |m| {
                        let a0 = m.query_advice(adv0[0], Rotation::next());
                        let a1 = m.query_advice(adv0[1], Rotation::cur());
                        Constraints::with_selector(s, vec![a0 - a1])
                    });
                }
                GateKind::Chal => {
                    assert!(params.n_adv1 > 0);
                    let s = meta.selector();
                    gate_sel.push(s);
                    let ch = challenge.unwrap();
                    meta.create_gate(name, |m| {
                        let a0 = m.query_advice(adv0[0], Rotation::cur());
                        let b0 = m.query_advice(adv1[0], Rotation::cur());
                        let c = m.query_challenge(ch);
                        Constraints::with_selector(s, vec![b0 - c * a0])
                    });
                }
            }
        }

        if equality_late && need_eq {
            for c in adv0.iter().chain(adv1.iter()).chain(unblinded.iter()) {
                meta.enable_equality(*c);
            }
            for c in instance.iter() {
                meta.enable_equality(*c);
            }
        }

        let mut lookup_sel = vec![];
        for (li, l) in params.lookups.iter().enumerate() {
            let s = meta.complex_selector();
            lookup_sel.push(s);
            let name = format!("lookup{li}");
            match *l {
                LookupKind::Range => {
                    meta.lookup(name, |m| {
                        let q = m.query_selector(s);
                        let a0 = m.query_advice(adv0[0], Rotation::cur());
                        vec![(q * a0, t0)]
                    });
                }
                LookupKind::Pair => {
                    meta.lookup(name, |m| {
                        let q = m.query_selector(s);
                        let a0 = m.query_advice(adv0[0], Rotation::cur());
                        let a1 = m.query_advice(adv0[1], Rotation::cur());
                        vec![(q.clone() * a0, t0), (q * a1, t1)]
                    });
                }
                LookupKind::AnyInstance => {
                    assert!(params.n_plain > 0);
                    let col = instance[params.n_committed];
                    meta.lookup_any(name, |m| {
                        let q = m.query_selector(s);
                        let a0 = m.query_advice(adv0[0], Rotation::cur());
                        let t = m.query_instance(col, Rotation::cur());
                        vec![(q * a0, t)]
                    });
                }
            }
        }
        let _ = Expression::<F>::Constant(F::ZERO);

        FamConfig { adv0, adv1, unblinded, f0, constants, instance, challenge, gate_sel, lookup_sel, t0, t1, params }
    }

    fn synthesize(&self, cfg: FamConfig, mut layouter: impl Layouter<F>) -> Result<(), Error> {
        let p = &cfg.params;
        let known = self.known;
        let val = |x: F| if known { Value::known(x) } else { Value::unknown() };
        let counter = Cell::new(0usize);
        let prev = Cell::new(F::ZERO);
        let asg = Assigner { counter: &counter, prev: &prev, fault: self.fault, seed: self.seed };
        let mut rng = ChaCha8Rng::seed_from_u64(self.seed);
        let inst = self.instances();
        let tmax = 1u64 << p.table_bits;
        let challenge = cfg.challenge.map(|c| layouter.get_challenge(c));

        // tables: t0 = 0..2^bits (with 0), t1 = t0² + 1, plus the pair (0, 0) in the first row
        layouter.assign_table(
            || "tables",
            |mut t| {
                t.assign_cell(|| "t0", cfg.t0, 0, || Value::known(F::ZERO))?;
                t.assign_cell(|| "t1", cfg.t1, 0, || Value::known(F::ZERO))?;
                for i in 1..tmax {
                    let x = F::from(i);
                    t.assign_cell(|| "t0", cfg.t0, i as usize, || Value::known(x))?;
                    t.assign_cell(|| "t1", cfg.t1, i as usize, || Value::known(x * x + F::ONE))?;
                }
                Ok(())
            },
        )?;

        let n_slots = p.gates.len() + p.lookups.len();
        let mut last_a2: Option<AssignedCell<F, F>> = None;
        for step in 0..p.steps {
            let slot = step % n_slots.max(1);
            let small = F::from(rng.gen_range(1..tmax));
            let r1 = F::random(&mut rng);
            let r2 = F::random(&mut rng);
            let fconst = F::from(step as u64 + 7);
            // A value that must be copied from the previous step's a2 when `copies` is on.
            let carried = last_a2.clone();
            let cell = layouter.assign_region(
                || format!("step{step}"),
                |mut region| {
                    // offset 1 is the "current" row; offsets 0 and 2 serve the rotations.
                    let (x, y, z, is_lookup);
                    if slot < p.gates.len() {
                        is_lookup = false;
                        // InstRot reads the instance column at absolute rows: only meaningful
                        // (non-zero) in the very first region, which starts at row 0.
                        if p.gates[slot] != GateKind::InstRot || step == 0 {
                            cfg.gate_sel[slot].enable(&mut region, 1)?;
                        }
                        match p.gates[slot] {
                            GateKind::InstRot => {
                                let col = &inst[p.n_committed];
                                let at = |i: usize| col.get(i).copied().unwrap_or(F::ZERO);
                                x = at(1) + at(2) * F::from(2) + at(0) * F::from(3);
                                y = r2;
                                z = r1;
                            }
                            GateKind::Mul | GateKind::Complex => {
                                x = r1;
                                y = r2;
                                z = r1 * r2;
                            }
                            GateKind::Additive => {
                                x = r1;
                                y = r2;
                                z = r1 + r2;
                            }
                            GateKind::LinRot => {
                                x = r1;
                                y = r2;
                                z = r1 + r2 + fconst;
                            }
                            GateKind::Pow(d) => {
                                x = r1;
                                y = r1.pow_vartime([(d - 1) as u64]);
                                z = r2;
                            }
                            GateKind::Chal => {
                                x = r1;
                                y = r2;
                                z = r1 - r2;
                            }
                            GateKind::NextFirst => {
                                // a0 sits on the next row (offset 2), a1 on the current row
                                x = r1;
                                y = r1;
                                z = r2;
                            }
                        }
                    } else {
                        is_lookup = true;
                        let li = slot - p.gates.len();
                        cfg.lookup_sel[li].enable(&mut region, 1)?;
                        match p.lookups[li] {
                            LookupKind::Range => {
                                x = small;
                                y = r2;
                                z = r1;
                            }
                            LookupKind::Pair => {
                                x = small;
                                y = small * small + F::ONE;
                                z = r1;
                            }
                            LookupKind::AnyInstance => {
                                let col = &inst[p.n_committed];
                                x = col[step % col.len()];
                                y = r2;
                                z = r1;
                            }
                        }
                    }
                    let _ = is_lookup;
                    region.assign_fixed(|| "f0", cfg.f0, 1, || Value::known(fconst))?;
                    let linrot = slot < p.gates.len() && p.gates[slot] == GateKind::LinRot;
                    let nextfirst = slot < p.gates.len() && p.gates[slot] == GateKind::NextFirst;
                    let a0 = asg.put(&mut region, cfg.adv0[0], if nextfirst { 2 } else { 1 }, val(x))?;
                    let a1 = asg.put(&mut region, cfg.adv0[1], if linrot { 2 } else { 1 }, val(y))?;
                    let a2 = asg.put(&mut region, cfg.adv0[2], if linrot { 0 } else { 1 }, val(z))?;
                    // extra phase-0 columns carry independent values
                    for (j, col) in cfg.adv0.iter().enumerate().skip(3) {
                        asg.put(&mut region, *col, 1, val(r1 + F::from(j as u64)))?;
                    }
                    if let Some(u) = cfg.unblinded {
                        let uc = asg.put(&mut region, u, 1, val(x))?;
                        region.constrain_equal(uc.cell(), a0.cell())?;
                    }
                    if let (Some(ch), false) = (challenge, cfg.adv1.is_empty()) {
                        for (j, col) in cfg.adv1.iter().enumerate() {
                            let v = ch.map(|c| c * x + F::from(j as u64)) * val(F::ONE);
                            asg.put(&mut region, *col, 1, v)?;
                        }
                    }
                    if p.copies {
                        if let Some(c) = &carried {
                            // carry the previous step's a2 into a spare row of column a1
                            let cc = asg.put(&mut region, cfg.adv0[1], 0, c.value().copied())?;
                            region.constrain_equal(cc.cell(), c.cell())?;
                        }
                    }
                    if p.const_copies {
                        region.assign_advice_from_constant(
                            || "const",
                            cfg.adv0[0],
                            0,
                            F::from(step as u64 + 100),
                        )?;
                    }
                    let _ = a1;
                    Ok((a0, a2))
                },
            )?;
            let (a0, a2) = cell;
            last_a2 = Some(a2);
            if p.copies && step % 3 == 1 {
                // a redundant triangle of copies merging cycles of different sizes:
                // c0 == c1; c2 == c1; c2 == c0, then the previous a2 joins the cycle
                let v = F::from(step as u64 + 40);
                let tri = layouter.assign_region(
                    || "triangle",
                    |mut region| {
                        let c0 = asg.put(&mut region, cfg.adv0[0], 0, val(v))?;
                        let c1 = asg.put(&mut region, cfg.adv0[1], 0, val(v))?;
                        let c2 = asg.put(&mut region, cfg.adv0[2], 0, val(v))?;
                        region.constrain_equal(c0.cell(), c1.cell())?;
                        region.constrain_equal(c2.cell(), c1.cell())?;
                        region.constrain_equal(c2.cell(), c0.cell())?;
                        Ok(c2)
                    },
                )?;
                let _ = tri;
            }
            if p.inst_copies && p.n_committed + p.n_plain > 0 {
                // expose a fresh advice cell equal to an instance value, in every instance column
                for (c, col) in cfg.instance.iter().enumerate() {
                    let row = step % inst[c].len();
                    let v = inst[c][row];
                    let ac = layouter.assign_region(
                        || "pi",
                        |mut region| asg.put(&mut region, cfg.adv0[2], 0, val(v)),
                    )?;
                    layouter.constrain_instance(ac.cell(), *col, row)?;
                }
            }
            let _ = a0;
        }
        self.cell_count.store(counter.get(), Ordering::SeqCst);
        Ok(())
    }
}

/// A deterministic sample of family members covering all gate/lookup kinds.
pub fn sample_params(rng: &mut impl Rng) -> FamParams {
    let all_gates = [
        GateKind::Mul,
        GateKind::LinRot,
        GateKind::Pow(3),
        GateKind::Pow(4),
        GateKind::Pow(5),
        GateKind::Pow(6),
        GateKind::Additive,
        GateKind::Complex,
        GateKind::Chal,
        GateKind::NextFirst,
        GateKind::InstRot,
    ];
    let all_lookups = [LookupKind::Range, LookupKind::Pair, LookupKind::AnyInstance];
    let n_gates = rng.gen_range(1..=4);
    let mut gates: Vec<GateKind> = (0..n_gates).map(|_| all_gates[rng.gen_range(0..all_gates.len())]).collect();
    gates.dedup();
    let n_adv1 = if gates.contains(&GateKind::Chal) { rng.gen_range(1..=2) } else { rng.gen_range(0..=1) };
    let n_lookups = rng.gen_range(0..=3);
    let n_plain = rng.gen_range(0..=2);
    let mut lookups: Vec<LookupKind> =
        (0..n_lookups).map(|_| all_lookups[rng.gen_range(0..all_lookups.len())]).collect();
    if n_plain == 0 {
        lookups.retain(|l| *l != LookupKind::AnyInstance);
        gates.retain(|g| *g != GateKind::InstRot);
        if gates.is_empty() {
            gates.push(GateKind::Mul);
        }
    }
    // InstRot and NextFirst are only effective as the first gate
    if let Some(i) = gates.iter().position(|g| *g == GateKind::InstRot || *g == GateKind::NextFirst) {
        gates.swap(0, i);
    }
    FamParams {
        n_adv0: rng.gen_range(3..=5),
        n_adv1,
        unblinded: rng.gen_bool(0.3),
        n_committed: rng.gen_range(0..=2),
        n_plain,
        gates,
        lookups,
        copies: rng.gen_bool(0.7),
        const_copies: rng.gen_bool(0.4),
        inst_copies: rng.gen_bool(0.8),
        steps: rng.gen_range(2..=7),
        table_bits: rng.gen_range(2..=4),
    }
}
