//! A generated family of PLONK circuits over the BLS12-381 scalar field, with satisfying
//! witnesses by construction, used by the checks of C01, C02, C03, C17.
//!
//! A member is described by `FamParams`: phase-0 and phase-1 advice columns, an optional
//! unblinded column, instance columns, a list of gate kinds (degree 3..6, rotations -1..1,
//! simple / complex / additive selectors, a challenge gate), lookups (arity 1 and 2 into fixed
//! tables, "any" lookup into an instance column), copy constraints (advice–advice,
//! advice–constant, advice–instance). `FamCircuit` carries the parameters, a witness seed and an
//! optional fault (the index of one advice assignment whose value is altered).

use std::{
    cell::Cell,
    sync::{
        atomic::{AtomicUsize, Ordering},
        Arc, Mutex,
    },
};

use ff::Field;
use midnight_curves::Fq as F;
use midnight_proofs::{
    circuit::{AssignedCell, Layouter, Region, SimpleFloorPlanner, Value},
    plonk::{
        Advice, Challenge, Circuit, Column, ConstraintSystem, Constraints, Error, Expression,
        FirstPhase, Fixed, Instance, SecondPhase, Selector, TableColumn,
    },
    poly::Rotation,
};
use rand::{Rng, SeedableRng};
use rand_chacha::ChaCha8Rng;

#[derive(Clone, Copy, Debug, PartialEq, Eq, Hash)]
pub enum GateKind {
    /// s · (a0·a1 − a2)
    Mul,
    /// s · (a0 + a1(next) − a2(prev) + f0)
    LinRot,
    /// s · (a0^(d−1) − a1), degree d ∈ 3..=6
    Pow(u8),
    /// additive selector: a0 + a1 − a2 (trash argument)
    Additive,
    /// complex selector cs · (a0·a1 − a2)
    Complex,
    /// phase 1: s · (b0 − c·a0) with c the challenge usable after the first phase
    Chal,
    /// s · (a0 − p(cur) − 2·p(next) − 3·p(prev)) with p the first plain instance column
    InstRot,
    /// s · (a0(next) − a1): when listed first, the first advice query of the constraint system
    /// is a rotated one (the first opening point is then not `x`)
    NextFirst,
    /// (extended family) s · (Σ_{i ≡ g mod SHAPE_GROUPS} shape_i(a0, a1) − a2) with `shape_i` the
    /// entries of `shape_table`: every branch of `evaluation.rs: add_expression` on both operand
    /// positions. Satisfied by construction (a2 := the value of the sum).
    Shapes(u8),
    /// (extended family, NOT honest when `rot > 0`) a gate switched by a plain FIXED column (not a
    /// `Selector`): fsw · (la0 + la1(Rotation(rot))) on two dedicated advice columns; the switch is
    /// set on the absolute row `row` only and la0(row) := 0, nothing else is assigned. With
    /// `row + rot` = first unusable row the gate reads a cell the circuit does not control.
    LastRow { row: u16, rot: u8 },
}

/// Number of `GateKind::Shapes` groups.
pub const SHAPE_GROUPS: u8 = 4;

/// The table of expression shapes behind `GateKind::Shapes`: built with the enum constructors
/// (the operators of `Expression` simplify `0·e`, `1·e`, `e + 0`, and `replace_selectors` rebuilds
/// every gate through the operators, so `Constant(0)` / `Constant(1)` operands are spelled
/// `Scaled(e, 0)`, `Negated(Constant(0))`, `Negated(Constant(−1))`: expressions that are not
/// syntactically a constant 0 / 1 but compile to `ValueSource::Constant(0 / 1)`).
pub fn shape_table(a: &Expression<F>, b: &Expression<F>) -> Vec<(&'static str, Expression<F>)> {
    type E = Expression<F>;
    let bx = |e: &E| Box::new(e.clone());
    let c = |v: i64| -> E {
        if v >= 0 { E::Constant(F::from(v as u64)) } else { E::Constant(-F::from((-v) as u64)) }
    };
    let prod = |x: &E, y: &E| E::Product(bx(x), bx(y));
    let sum = |x: &E, y: &E| E::Sum(bx(x), bx(y));
    let neg = |x: &E| E::Negated(bx(x));
    let scaled = |x: &E, v: u64| E::Scaled(bx(x), F::from(v));
    // value sources Constant(0) / Constant(1) that survive the operators
    let zero_s = scaled(a, 0);
    let zero_n = neg(&c(0));
    let one_n = neg(&c(-1));
    let ab = prod(a, b);
    let a_minus_b = sum(a, &neg(b));
    vec![
        // constants as LEFT factor
        ("prod:c0*e", prod(&zero_s, a)),
        ("prod:c1*e", prod(&one_n, a)),
        ("prod:c2*e", prod(&c(2), a)),
        ("prod:c3*e", prod(&c(3), a)),
        ("prod:cm1*e", prod(&c(-1), a)),
        // constants as RIGHT factor
        ("prod:e*c0", prod(b, &zero_n)),
        ("prod:e*c1", prod(b, &one_n)),
        ("prod:e*c2", prod(b, &c(2))),
        ("prod:e*c3", prod(b, &c(3))),
        ("prod:e*cm1", prod(b, &c(-1))),
        // squares, both operand orders, reuse of an identical calculation
        ("prod:e*e", prod(a, a)),
        ("prod:e*f", prod(a, b)),
        ("prod:f*e", prod(b, a)),
        // sums
        ("sum:e+neg(f)", a_minus_b.clone()),
        ("sum:c0+neg(f)", sum(&zero_s, &neg(b))),
        ("sum:e+neg(c0)", sum(a, &neg(&zero_s))),
        ("sum:e+f", sum(a, b)),
        ("sum:f+e", sum(b, a)),
        ("sum:c0+e", sum(&zero_n, a)),
        ("sum:e+c0", sum(b, &zero_s)),
        ("sum:e+c3", sum(a, &c(3))),
        // negations
        ("neg:e", prod(&neg(a), b)),
        ("neg:c0", prod(&neg(&zero_s), b)),
        ("neg:const", prod(&neg(&c(3)), b)),
        // scaled
        ("scaled:0", scaled(b, 0)),
        ("scaled:1", scaled(b, 1)),
        ("scaled:5", scaled(a, 5)),
        ("scaled:2", scaled(&ab, 2)),
        // nested
        ("nest:(e*c2)*(c2*f)", prod(&prod(a, &c(2)), &prod(&c(2), b))),
        ("nest:(e-f)*(e-f)", prod(&a_minus_b, &a_minus_b)),
        ("nest:(e*f)*c2", prod(&ab, &c(2))),
        ("nest:c2*(e*f)", prod(&c(2), &ab)),
        ("nest:c2*c2", prod(&prod(&c(2), &c(2)), a)),
        ("nest:neg(neg(e))", prod(&neg(&neg(b)), &c(3))),
        ("nest:(e+f)*c2", prod(&sum(a, b), &c(2))),
        ("nest:c2*(e+neg(f))", prod(&c(2), &a_minus_b)),
    ]
}

/// The polynomial `Σ shape_i(a, b)` of group `g` (left-nested sum in table order).
pub fn shapes_sum(g: u8, a: &Expression<F>, b: &Expression<F>) -> Expression<F> {
    let mut acc: Option<Expression<F>> = None;
    for (i, (_, e)) in shape_table(a, b).into_iter().enumerate() {
        if (i as u8) % SHAPE_GROUPS != g % SHAPE_GROUPS {
            continue;
        }
        acc = Some(match acc {
            None => e,
            Some(x) => Expression::Sum(Box::new(x), Box::new(e)),
        });
    }
    acc.expect("non-empty group")
}

/// Value of an expression without queries (leaves are constants).
pub fn eval_closed(e: &Expression<F>) -> F {
    e.evaluate(
        &|c| c,
        &|_| unreachable!(),
        &|_| unreachable!(),
        &|_| unreachable!(),
        &|_| unreachable!(),
        &|_| unreachable!(),
        &|x| -x,
        &|x, y| x + y,
        &|x, y| x * y,
        &|x, f| x * f,
    )
}

#[derive(Clone, Copy, Debug, PartialEq, Eq, Hash)]
pub enum LookupKind {
    /// cs·a0 ∈ t0
    Range,
    /// (cs·a0, cs·a1) ∈ (t0, t1) with t1 = t0² + 1 on the table rows and (0, 0) added
    Pair,
    /// cs·a0 ∈ plain instance column (lookup_any)
    AnyInstance,
    /// (extended family) two-column `lookup_any` whose highest-degree input and highest-degree table
    /// expression sit in DIFFERENT columns: (cs·a0, m) ∈ (mt0, s_tab·mt1) with `m` a dedicated advice
    /// column, `mt0`, `mt1` plain fixed columns and `s_tab` a complex selector. Degrees: inputs
    /// (2, 1), tables (1, 2): `required_degree` = 2 + 2 + 2 = 6.
    MixedDeg,
    /// (extended family) cs·(a0 − 5) + 5 ∈ t2 with t2 = {5, …, 5 + 2^bits − 1} assigned by
    /// `assign_table`: the table has NO zero row and its filler (`fill_from_row` with the default
    /// value = first row) is 5.
    NoZero,
}

/// First value (= filler) of the `LookupKind::NoZero` table.
pub const NOZERO_BASE: u64 = 5;
/// Rows of the `LookupKind::MixedDeg` table: (j + 1, 3j + 2), j < MIXED_ROWS.
pub const MIXED_ROWS: u64 = 4;

#[derive(Clone, Debug, PartialEq, Eq, Hash)]
pub struct FamParams {
    /// phase-0 advice columns (≥ 3)
    pub n_adv0: usize,
    /// phase-1 advice columns (0 or ≥ 1); needed by `GateKind::Chal`
    pub n_adv1: usize,
    /// add one unblinded advice column carrying copies of a0
    pub unblinded: bool,
    /// committed instance columns (come first) and plain instance columns
    pub n_committed: usize,
    pub n_plain: usize,
    pub gates: Vec<GateKind>,
    pub lookups: Vec<LookupKind>,
    /// copy constraints between steps / to constants / to instance cells
    pub copies: bool,
    pub const_copies: bool,
    pub inst_copies: bool,
    /// number of steps (regions) synthesised
    pub steps: usize,
    /// log2 of the lookup table size
    pub table_bits: u32,
}

impl Default for FamParams {
    fn default() -> Self {
        FamParams {
            n_adv0: 3,
            n_adv1: 0,
            unblinded: false,
            n_committed: 0,
            n_plain: 1,
            gates: vec![GateKind::Mul],
            lookups: vec![],
            copies: true,
            const_copies: false,
            inst_copies: true,
            steps: 4,
            table_bits: 3,
        }
    }
}

#[derive(Clone, Debug)]
pub struct FamConfig {
    adv0: Vec<Column<Advice>>,
    adv1: Vec<Column<Advice>>,
    unblinded: Option<Column<Advice>>,
    f0: Column<Fixed>,
    constants: Column<Fixed>,
    instance: Vec<Column<Instance>>,
    challenge: Option<Challenge>,
    gate_sel: Vec<Option<Selector>>,
    lookup_sel: Vec<Selector>,
    t0: TableColumn,
    t1: TableColumn,
    /// extended family (allocated only when a member asks for them)
    t2: Option<TableColumn>,
    mixed: Option<(Column<Advice>, Column<Fixed>, Column<Fixed>, Selector)>,
    last_row: Option<(Column<Fixed>, Column<Advice>, Column<Advice>)>,
    params: FamParams,
}

#[derive(Clone, Copy, Debug, PartialEq, Eq)]
pub enum FaultKind {
    PlusOne,
    Zero,
    Random,
    /// take the value of the previously assigned cell
    Neighbour,
    /// (extended family) a given small value
    Set(u64),
}

#[derive(Clone, Debug)]
pub struct FamCircuit {
    pub params: FamParams,
    pub seed: u64,
    pub known: bool,
    /// (index of the advice assignment in synthesis order, kind)
    pub fault: Option<(usize, FaultKind)>,
    /// number of advice assignments performed by the last synthesis (all phases)
    pub cell_count: Arc<AtomicUsize>,
    /// indices (synthesis order) of the advice assignments that are lookup inputs, with the index
    /// of the lookup, as seen by the last synthesis
    pub lookup_cells: Arc<Mutex<Vec<(usize, usize)>>>,
}

impl FamCircuit {
    pub fn new(params: FamParams, seed: u64) -> Self {
        FamCircuit {
            params,
            seed,
            known: true,
            fault: None,
            cell_count: Arc::new(AtomicUsize::new(0)),
            lookup_cells: Arc::new(Mutex::new(vec![])),
        }
    }

    /// Values of the instance columns (committed first), derived from the seed.
    pub fn instances(&self) -> Vec<Vec<F>> {
        let mut rng = ChaCha8Rng::seed_from_u64(self.seed ^ 0x1257_aa55);
        let n = self.params.n_committed + self.params.n_plain;
        (0..n)
            .map(|c| {
                let len = if c % 2 == 0 { self.params.steps.min(3) + 1 } else { 2 };
                (0..len).map(|_| F::from(rng.gen_range(1u64..(1 << self.params.table_bits)))).collect()
            })
            .collect()
    }

    /// Minimal `k` such that the circuit fits (given the number of blinding rows).
    pub fn min_k(&self, blinding: usize) -> u32 {
        let rows = (self.params.steps * 3 + 2).max((1usize << self.params.table_bits) + 2) + blinding + 1;
        let mut k = 3;
        while (1usize << k) < rows {
            k += 1;
        }
        k
    }
}

struct Assigner<'a> {
    counter: &'a Cell<usize>,
    prev: &'a Cell<F>,
    fault: Option<(usize, FaultKind)>,
    seed: u64,
}

impl Assigner<'_> {
    fn put(
        &self,
        region: &mut Region<'_, F>,
        col: Column<Advice>,
        offset: usize,
        v: Value<F>,
    ) -> Result<AssignedCell<F, F>, Error> {
        let idx = self.counter.get();
        self.counter.set(idx + 1);
        let prev = self.prev.get();
        let v = match self.fault {
            Some((i, kind)) if i == idx => v.map(|x| match kind {
                FaultKind::PlusOne => x + F::ONE,
                FaultKind::Zero => F::ZERO,
                FaultKind::Random => {
                    F::random(ChaCha8Rng::seed_from_u64(self.seed ^ (idx as u64) ^ 0xfa17))
                }
                FaultKind::Neighbour => prev,
                FaultKind::Set(v) => F::from(v),
            }),
            _ => v,
        };
        v.map(|x| self.prev.set(x));
        region.assign_advice(|| "a", col, offset, || v)
    }
}

impl Circuit<F> for FamCircuit {
    type Config = FamConfig;
    type FloorPlanner = SimpleFloorPlanner;
    type Params = FamParams;

    fn without_witnesses(&self) -> Self {
        let mut c = self.clone();
        c.known = false;
        c.fault = None;
        c
    }

    fn params(&self) -> Self::Params {
        self.params.clone()
    }

    fn configure(_meta: &mut ConstraintSystem<F>) -> Self::Config {
        unreachable!("configure_with_params is used")
    }

    fn configure_with_params(meta: &mut ConstraintSystem<F>, params: FamParams) -> FamConfig {
        assert!(params.n_adv0 >= 3);
        let adv0: Vec<_> = (0..params.n_adv0).map(|_| meta.advice_column_in(FirstPhase)).collect();
        let unblinded = params.unblinded.then(|| meta.unblinded_advice_column());
        let challenge = (params.n_adv1 > 0).then(|| meta.challenge_usable_after(FirstPhase));
        let adv1: Vec<_> = (0..params.n_adv1).map(|_| meta.advice_column_in(SecondPhase)).collect();
        let f0 = meta.fixed_column();
        let constants = meta.fixed_column();
        // A member without any copy constraint has an empty permutation argument (no column is
        // equality-enabled, no constants column).
        let need_eq = params.copies || params.const_copies || params.inst_copies || params.unblinded;
        if need_eq {
            meta.enable_constant(constants);
        }
        let instance: Vec<_> =
            (0..params.n_committed + params.n_plain).map(|_| meta.instance_column()).collect();
        // `enable_equality` registers a query at the current rotation: when NextFirst is the
        // first gate it is deferred until after the gates, so that the first advice query of
        // the constraint system is the rotated one.
        let equality_late = params.gates.first() == Some(&GateKind::NextFirst);
        if !equality_late && need_eq {
            for c in adv0.iter().chain(adv1.iter()).chain(unblinded.iter()) {
                meta.enable_equality(*c);
            }
            for c in instance.iter() {
                meta.enable_equality(*c);
            }
        }
        let t0 = meta.lookup_table_column();
        let t1 = meta.lookup_table_column();

        let mut gate_sel = vec![];
        let mut last_row = None;
        for (gi, g) in params.gates.iter().enumerate() {
            let name: &'static str = Box::leak(format!("gate{gi}").into_boxed_str());
            match *g {
                GateKind::Mul => {
                    let s = meta.selector();
                    gate_sel.push(Some(s));
                    meta.create_gate(name, |m| {
                        let a0 = m.query_advice(adv0[0], Rotation::cur());
                        let a1 = m.query_advice(adv0[1], Rotation::cur());
                        let a2 = m.query_advice(adv0[2], Rotation::cur());
                        Constraints::with_selector(s, vec![a0 * a1 - a2])
                    });
                }
                GateKind::LinRot => {
                    let s = meta.selector();
                    gate_sel.push(Some(s));
                    meta.create_gate(name, |m| {
                        let a0 = m.query_advice(adv0[0], Rotation::cur());
                        let a1 = m.query_advice(adv0[1], Rotation::next());
                        let a2 = m.query_advice(adv0[2], Rotation::prev());
                        let f = m.query_fixed(f0, Rotation::cur());
                        Constraints::with_selector(s, vec![a0 + a1 - a2 + f])
                    });
                }
                GateKind::Pow(d) => {
                    assert!((3..=6).contains(&d));
                    let s = meta.selector();
                    gate_sel.push(Some(s));
                    meta.create_gate(name, |m| {
                        let a0 = m.query_advice(adv0[0], Rotation::cur());
                        let a1 = m.query_advice(adv0[1], Rotation::cur());
                        let mut p = a0.clone();
                        for _ in 0..(d - 2) {
                            p = p * a0.clone();
                        }
                        Constraints::with_selector(s, vec![p - a1])
                    });
                }
                GateKind::Additive => {
                    // trash arguments may not contain simple selectors
                    let s = meta.complex_selector();
                    gate_sel.push(Some(s));
                    meta.create_gate(name, |m| {
                        let a0 = m.query_advice(adv0[0], Rotation::cur());
                        let a1 = m.query_advice(adv0[1], Rotation::cur());
                        let a2 = m.query_advice(adv0[2], Rotation::cur());
                        Constraints::with_additive_selector(s, vec![a0 + a1 - a2])
                    });
                }
                GateKind::Complex => {
                    let s = meta.complex_selector();
                    gate_sel.push(Some(s));
                    meta.create_gate(name, |m| {
                        let q = m.query_selector(s);
                        let a0 = m.query_advice(adv0[0], Rotation::cur());
                        let a1 = m.query_advice(adv0[1], Rotation::cur());
                        let a2 = m.query_advice(adv0[2], Rotation::cur());
                        Constraints::without_selector(vec![q * (a0 * a1 - a2)])
                    });
                }
                GateKind::InstRot => {
                    assert!(params.n_plain > 0);
                    let s = meta.selector();
                    gate_sel.push(Some(s));
                    let col = instance[params.n_committed];
                    meta.create_gate(name, |m| {
                        let a0 = m.query_advice(adv0[0], Rotation::cur());
                        let pc = m.query_instance(col, Rotation::cur());
                        let pn = m.query_instance(col, Rotation::next());
                        let pp = m.query_instance(col, Rotation::prev());
                        Constraints::with_selector(
                            s,
                            vec![a0 - pc - pn * F::from(2) - pp * F::from(3)],
                        )
                    });
                }
                GateKind::NextFirst => {
                    let s = meta.selector();
                    gate_sel.push(Some(s));
                    meta.create_gate(name, |m| {
                        let a0 = m.query_advice(adv0[0], Rotation::next());
                        let a1 = m.query_advice(adv0[1], Rotation::cur());
                        Constraints::with_selector(s, vec![a0 - a1])
                    });
                }
                GateKind::Shapes(g) => {
                    let s = meta.selector();
                    gate_sel.push(Some(s));
                    meta.create_gate(name, |m| {
                        let a0 = m.query_advice(adv0[0], Rotation::cur());
                        let a1 = m.query_advice(adv0[1], Rotation::cur());
                        let a2 = m.query_advice(adv0[2], Rotation::cur());
                        let sum = shapes_sum(g, &a0, &a1);
                        Constraints::with_selector(
                            s,
                            vec![Expression::Sum(Box::new(sum), Box::new(Expression::Negated(Box::new(a2))))],
                        )
                    });
                }
                GateKind::LastRow { rot, .. } => {
                    gate_sel.push(None);
                    let fsw = meta.fixed_column();
                    let la0 = meta.advice_column_in(FirstPhase);
                    let la1 = meta.advice_column_in(FirstPhase);
                    assert!(last_row.is_none(), "one LastRow gate per member");
                    last_row = Some((fsw, la0, la1));
                    meta.create_gate(name, |m| {
                        let q = m.query_fixed(fsw, Rotation::cur());
                        let x = m.query_advice(la0, Rotation::cur());
                        let y = m.query_advice(la1, Rotation(rot as i32));
                        Constraints::without_selector(vec![q * (x + y)])
                    });
                }
                GateKind::Chal => {
                    assert!(params.n_adv1 > 0);
                    let s = meta.selector();
                    gate_sel.push(Some(s));
                    let ch = challenge.unwrap();
                    meta.create_gate(name, |m| {
                        let a0 = m.query_advice(adv0[0], Rotation::cur());
                        let b0 = m.query_advice(adv1[0], Rotation::cur());
                        let c = m.query_challenge(ch);
                        Constraints::with_selector(s, vec![b0 - c * a0])
                    });
                }
            }
        }

        if equality_late && need_eq {
            for c in adv0.iter().chain(adv1.iter()).chain(unblinded.iter()) {
                meta.enable_equality(*c);
            }
            for c in instance.iter() {
                meta.enable_equality(*c);
            }
        }

        let mut lookup_sel = vec![];
        let t2 = params.lookups.contains(&LookupKind::NoZero).then(|| meta.lookup_table_column());
        let mixed = params.lookups.contains(&LookupKind::MixedDeg).then(|| {
            (meta.advice_column_in(FirstPhase), meta.fixed_column(), meta.fixed_column(), meta.complex_selector())
        });
        for (li, l) in params.lookups.iter().enumerate() {
            let s = meta.complex_selector();
            lookup_sel.push(s);
            let name = format!("lookup{li}");
            match *l {
                LookupKind::Range => {
                    meta.lookup(name, |m| {
                        let q = m.query_selector(s);
                        let a0 = m.query_advice(adv0[0], Rotation::cur());
                        vec![(q * a0, t0)]
                    });
                }
                LookupKind::Pair => {
                    meta.lookup(name, |m| {
                        let q = m.query_selector(s);
                        let a0 = m.query_advice(adv0[0], Rotation::cur());
                        let a1 = m.query_advice(adv0[1], Rotation::cur());
                        vec![(q.clone() * a0, t0), (q * a1, t1)]
                    });
                }
                LookupKind::AnyInstance => {
                    assert!(params.n_plain > 0);
                    let col = instance[params.n_committed];
                    meta.lookup_any(name, |m| {
                        let q = m.query_selector(s);
                        let a0 = m.query_advice(adv0[0], Rotation::cur());
                        let t = m.query_instance(col, Rotation::cur());
                        vec![(q * a0, t)]
                    });
                }
                LookupKind::MixedDeg => {
                    let (madv, mt0, mt1, s_tab) = mixed.unwrap();
                    meta.lookup_any(name, |m| {
                        let q = m.query_selector(s);
                        let qt = m.query_selector(s_tab);
                        let a0 = m.query_advice(adv0[0], Rotation::cur());
                        let mm = m.query_advice(madv, Rotation::cur());
                        let f0 = m.query_fixed(mt0, Rotation::cur());
                        let f1 = m.query_fixed(mt1, Rotation::cur());
                        vec![(q * a0, f0), (mm, qt * f1)]
                    });
                }
                LookupKind::NoZero => {
                    let t2 = t2.unwrap();
                    meta.lookup(name, |m| {
                        let q = m.query_selector(s);
                        let a0 = m.query_advice(adv0[0], Rotation::cur());
                        let base = Expression::Constant(F::from(NOZERO_BASE));
                        vec![(q * (a0 - base.clone()) + base, t2)]
                    });
                }
            }
        }
        let _ = Expression::<F>::Constant(F::ZERO);

        FamConfig { adv0, adv1, unblinded, f0, constants, instance, challenge, gate_sel, lookup_sel, t0, t1, t2, mixed, last_row, params }
    }

    fn synthesize(&self, cfg: FamConfig, mut layouter: impl Layouter<F>) -> Result<(), Error> {
        let p = &cfg.params;
        let known = self.known;
        let val = |x: F| if known { Value::known(x) } else { Value::unknown() };
        let counter = Cell::new(0usize);
        let prev = Cell::new(F::ZERO);
        let asg = Assigner { counter: &counter, prev: &prev, fault: self.fault, seed: self.seed };
        let mut rng = ChaCha8Rng::seed_from_u64(self.seed);
        let inst = self.instances();
        let tmax = 1u64 << p.table_bits;
        let challenge = cfg.challenge.map(|c| layouter.get_challenge(c));

        // tables: t0 = 0..2^bits (with 0), t1 = t0² + 1, plus the pair (0, 0) in the first row
        layouter.assign_table(
            || "tables",
            |mut t| {
                t.assign_cell(|| "t0", cfg.t0, 0, || Value::known(F::ZERO))?;
                t.assign_cell(|| "t1", cfg.t1, 0, || Value::known(F::ZERO))?;
                for i in 1..tmax {
                    let x = F::from(i);
                    t.assign_cell(|| "t0", cfg.t0, i as usize, || Value::known(x))?;
                    t.assign_cell(|| "t1", cfg.t1, i as usize, || Value::known(x * x + F::ONE))?;
                }
                Ok(())
            },
        )?;

        if let Some(t2) = cfg.t2 {
            // no zero row; the layouter fills the rest of the column with the first value
            layouter.assign_table(
                || "nozero",
                |mut t| {
                    for i in 0..tmax {
                        t.assign_cell(|| "t2", t2, i as usize, || Value::known(F::from(NOZERO_BASE + i)))?;
                    }
                    Ok(())
                },
            )?;
        }
        if let Some((_, mt0, mt1, s_tab)) = cfg.mixed {
            layouter.assign_region(
                || "mixed table",
                |mut region| {
                    for j in 0..MIXED_ROWS {
                        s_tab.enable(&mut region, j as usize)?;
                        region.assign_fixed(|| "mt0", mt0, j as usize, || Value::known(F::from(j + 1)))?;
                        region.assign_fixed(|| "mt1", mt1, j as usize, || Value::known(F::from(3 * j + 2)))?;
                    }
                    Ok(())
                },
            )?;
        }
        if let Some((fsw, la0, _la1)) = cfg.last_row {
            // dedicated columns: the region starts at row 0, offsets are absolute rows
            let row = p
                .gates
                .iter()
                .find_map(|g| if let GateKind::LastRow { row, .. } = g { Some(*row as usize) } else { None })
                .unwrap();
            layouter.assign_region(
                || "last row",
                |mut region| {
                    region.assign_fixed(|| "fsw", fsw, row, || Value::known(F::ONE))?;
                    asg.put(&mut region, la0, row, val(F::ZERO))?;
                    Ok(())
                },
            )?;
        }

        let lookup_cells = self.lookup_cells.clone();
        lookup_cells.lock().unwrap().clear();
        let n_slots = p.gates.len() + p.lookups.len();
        let mut last_a2: Option<AssignedCell<F, F>> = None;
        for step in 0..p.steps {
            let slot = step % n_slots.max(1);
            let small = F::from(rng.gen_range(1..tmax));
            let r1 = F::random(&mut rng);
            let r2 = F::random(&mut rng);
            let fconst = F::from(step as u64 + 7);
            // A value that must be copied from the previous step's a2 when `copies` is on.
            let carried = last_a2.clone();
            let cell = layouter.assign_region(
                || format!("step{step}"),
                |mut region| {
                    // offset 1 is the "current" row; offsets 0 and 2 serve the rotations.
                    let (x, y, z, is_lookup);
                    if slot < p.gates.len() {
                        is_lookup = false;
                        // InstRot reads the instance column at absolute rows: only meaningful
                        // (non-zero) in the very first region, which starts at row 0.
                        if p.gates[slot] != GateKind::InstRot || step == 0 {
                            if let Some(sel) = cfg.gate_sel[slot] {
                                sel.enable(&mut region, 1)?;
                            }
                        }
                        match p.gates[slot] {
                            GateKind::InstRot => {
                                let col = &inst[p.n_committed];
                                let at = |i: usize| col.get(i).copied().unwrap_or(F::ZERO);
                                x = at(1) + at(2) * F::from(2) + at(0) * F::from(3);
                                y = r2;
                                z = r1;
                            }
                            GateKind::Mul | GateKind::Complex => {
                                x = r1;
                                y = r2;
                                z = r1 * r2;
                            }
                            GateKind::Additive => {
                                x = r1;
                                y = r2;
                                z = r1 + r2;
                            }
                            GateKind::LinRot => {
                                x = r1;
                                y = r2;
                                z = r1 + r2 + fconst;
                            }
                            GateKind::Pow(d) => {
                                x = r1;
                                y = r1.pow_vartime([(d - 1) as u64]);
                                z = r2;
                            }
                            GateKind::Chal => {
                                x = r1;
                                y = r2;
                                z = r1 - r2;
                            }
                            GateKind::NextFirst => {
                                // a0 sits on the next row (offset 2), a1 on the current row
                                x = r1;
                                y = r1;
                                z = r2;
                            }
                            GateKind::Shapes(g) => {
                                x = r1;
                                y = r2;
                                z = eval_closed(&shapes_sum(g, &Expression::Constant(r1), &Expression::Constant(r2)));
                            }
                            GateKind::LastRow { .. } => {
                                x = r1;
                                y = r2;
                                z = r1;
                            }
                        }
                    } else {
                        is_lookup = true;
                        let li = slot - p.gates.len();
                        cfg.lookup_sel[li].enable(&mut region, 1)?;
                        match p.lookups[li] {
                            LookupKind::Range => {
                                x = small;
                                y = r2;
                                z = r1;
                            }
                            LookupKind::Pair => {
                                x = small;
                                y = small * small + F::ONE;
                                z = r1;
                            }
                            LookupKind::AnyInstance => {
                                let col = &inst[p.n_committed];
                                x = col[step % col.len()];
                                y = r2;
                                z = r1;
                            }
                            LookupKind::MixedDeg => {
                                x = F::from(step as u64 % MIXED_ROWS + 1);
                                y = r2;
                                z = r1;
                            }
                            LookupKind::NoZero => {
                                x = F::from(NOZERO_BASE + step as u64 % tmax);
                                y = r2;
                                z = r1;
                            }
                        }
                    }
                    if is_lookup {
                        lookup_cells.lock().unwrap().push((counter.get(), slot - p.gates.len()));
                    }
                    region.assign_fixed(|| "f0", cfg.f0, 1, || Value::known(fconst))?;
                    let linrot = slot < p.gates.len() && p.gates[slot] == GateKind::LinRot;
                    let nextfirst = slot < p.gates.len() && p.gates[slot] == GateKind::NextFirst;
                    let a0 = asg.put(&mut region, cfg.adv0[0], if nextfirst { 2 } else { 1 }, val(x))?;
                    let a1 = asg.put(&mut region, cfg.adv0[1], if linrot { 2 } else { 1 }, val(y))?;
                    let a2 = asg.put(&mut region, cfg.adv0[2], if linrot { 0 } else { 1 }, val(z))?;
                    // extra phase-0 columns carry independent values
                    for (j, col) in cfg.adv0.iter().enumerate().skip(3) {
                        asg.put(&mut region, *col, 1, val(r1 + F::from(j as u64)))?;
                    }
                    if let (true, Some((madv, ..))) =
                        (is_lookup && p.lookups[slot - p.gates.len()] == LookupKind::MixedDeg, cfg.mixed)
                    {
                        let j = step as u64 % MIXED_ROWS;
                        asg.put(&mut region, madv, 1, val(F::from(3 * j + 2)))?;
                    }
                    if let Some(u) = cfg.unblinded {
                        let uc = asg.put(&mut region, u, 1, val(x))?;
                        region.constrain_equal(uc.cell(), a0.cell())?;
                    }
                    if let (Some(ch), false) = (challenge, cfg.adv1.is_empty()) {
                        for (j, col) in cfg.adv1.iter().enumerate() {
                            let v = ch.map(|c| c * x + F::from(j as u64)) * val(F::ONE);
                            asg.put(&mut region, *col, 1, v)?;
                        }
                    }
                    if p.copies {
                        if let Some(c) = &carried {
                            // carry the previous step's a2 into a spare row of column a1
                            let cc = asg.put(&mut region, cfg.adv0[1], 0, c.value().copied())?;
                            region.constrain_equal(cc.cell(), c.cell())?;
                        }
                    }
                    if p.const_copies {
                        region.assign_advice_from_constant(
                            || "const",
                            cfg.adv0[0],
                            0,
                            F::from(step as u64 + 100),
                        )?;
                    }
                    let _ = a1;
                    Ok((a0, a2))
                },
            )?;
            let (a0, a2) = cell;
            last_a2 = Some(a2);
            if p.copies && step % 3 == 1 {
                // a redundant triangle of copies merging cycles of different sizes:
                // c0 == c1; c2 == c1; c2 == c0, then the previous a2 joins the cycle
                let v = F::from(step as u64 + 40);
                let tri = layouter.assign_region(
                    || "triangle",
                    |mut region| {
                        let c0 = asg.put(&mut region, cfg.adv0[0], 0, val(v))?;
                        let c1 = asg.put(&mut region, cfg.adv0[1], 0, val(v))?;
                        let c2 = asg.put(&mut region, cfg.adv0[2], 0, val(v))?;
                        region.constrain_equal(c0.cell(), c1.cell())?;
                        region.constrain_equal(c2.cell(), c1.cell())?;
                        region.constrain_equal(c2.cell(), c0.cell())?;
                        Ok(c2)
                    },
                )?;
                let _ = tri;
            }
            if p.inst_copies && p.n_committed + p.n_plain > 0 {
                // expose a fresh advice cell equal to an instance value, in every instance column
                for (c, col) in cfg.instance.iter().enumerate() {
                    let row = step % inst[c].len();
                    let v = inst[c][row];
                    let ac = layouter.assign_region(
                        || "pi",
                        |mut region| asg.put(&mut region, cfg.adv0[2], 0, val(v)),
                    )?;
                    layouter.constrain_instance(ac.cell(), *col, row)?;
                }
            }
            let _ = a0;
        }
        self.cell_count.store(counter.get(), Ordering::SeqCst);
        Ok(())
    }
}

/// A deterministic sample of family members covering all gate/lookup kinds.
pub fn sample_params(rng: &mut impl Rng) -> FamParams {
    let all_gates = [
        GateKind::Mul,
        GateKind::LinRot,
        GateKind::Pow(3),
        GateKind::Pow(4),
        GateKind::Pow(5),
        GateKind::Pow(6),
        GateKind::Additive,
        GateKind::Complex,
        GateKind::Chal,
        GateKind::NextFirst,
        GateKind::InstRot,
    ];
    let all_lookups = [LookupKind::Range, LookupKind::Pair, LookupKind::AnyInstance];
    let n_gates = rng.gen_range(1..=4);
    let mut gates: Vec<GateKind> = (0..n_gates).map(|_| all_gates[rng.gen_range(0..all_gates.len())]).collect();
    gates.dedup();
    let n_adv1 = if gates.contains(&GateKind::Chal) { rng.gen_range(1..=2) } else { rng.gen_range(0..=1) };
    let n_lookups = rng.gen_range(0..=3);
    let n_plain = rng.gen_range(0..=2);
    let mut lookups: Vec<LookupKind> =
        (0..n_lookups).map(|_| all_lookups[rng.gen_range(0..all_lookups.len())]).collect();
    if n_plain == 0 {
        lookups.retain(|l| *l != LookupKind::AnyInstance);
        gates.retain(|g| *g != GateKind::InstRot);
        if gates.is_empty() {
            gates.push(GateKind::Mul);
        }
    }
    // InstRot and NextFirst are only effective as the first gate
    if let Some(i) = gates.iter().position(|g| *g == GateKind::InstRot || *g == GateKind::NextFirst) {
        gates.swap(0, i);
    }
    FamParams {
        n_adv0: rng.gen_range(3..=5),
        n_adv1,
        unblinded: rng.gen_bool(0.3),
        n_committed: rng.gen_range(0..=2),
        n_plain,
        gates,
        lookups,
        copies: rng.gen_bool(0.7),
        const_copies: rng.gen_bool(0.4),
        inst_copies: rng.gen_bool(0.8),
        steps: rng.gen_range(2..=7),
        table_bits: rng.gen_range(2..=4),
    }
}

/// Extended sample (C01 / C02 only): a `sample_params` member with some of the extended kinds
/// added — a `Shapes` group, a `MixedDeg` lookup (on members whose gates stay below degree 6), a
/// `NoZero` lookup. Always honest (no `LastRow` gate).
pub fn sample_params_ext(rng: &mut impl Rng) -> FamParams {
    let mut fp = sample_params(rng);
    if rng.gen_bool(0.6) {
        fp.gates.push(GateKind::Shapes(rng.gen_range(0..SHAPE_GROUPS)));
    }
    if rng.gen_bool(0.4) {
        fp.lookups.push(LookupKind::NoZero);
    }
    if rng.gen_bool(0.4) {
        // keep the lookup the only constraint of degree 6
        fp.gates.retain(|g| !matches!(g, GateKind::Pow(5) | GateKind::Pow(6)));
        if fp.gates.is_empty() {
            fp.gates.push(GateKind::Mul);
        }
        fp.lookups.push(LookupKind::MixedDeg);
    }
    fp.steps = fp.steps.max(fp.gates.len() + fp.lookups.len());
    fp
}
