//! Curve25519: `Curve25519`, `Curve25519Affine`, `Curve25519Subgroup` (wrappers over
//! `curve25519-dalek`'s `EdwardsPoint`).
use curve25519_dalek::edwards::CompressedEdwardsY;
use ff::Field;
use group::{Curve, Group, GroupEncoding};
use midnight_curves::curve25519::{Curve25519, Curve25519Affine, Curve25519Subgroup, Fp, Scalar, CURVE_A, CURVE_D};
use mzkh::Ctx;
use num_bigint::BigUint;
use rand::RngCore;
use serde_json::json;
use subtle::ConstantTimeEq;

use crate::big::{self, Fld, E};
use crate::jj::bu;
use crate::wei::hex_bytes;

fn p() -> BigUint {
    (bu(1) << 255usize) - bu(19)
}
fn l() -> BigUint {
    (bu(1) << 252usize) + BigUint::parse_bytes(b"27742317777372353535851937790883648493", 10).unwrap()
}
fn le32(v: &BigUint) -> [u8; 32] {
    let mut out = [0u8; 32];
    let b = v.to_bytes_le();
    out[..b.len()].copy_from_slice(&b);
    out
}
fn fe(x: &Fp) -> E {
    E { c0: BigUint::from_bytes_le(&x.to_bytes()), c1: None }
}
fn aw(a: &Curve25519Affine) -> (E, E) {
    (fe(a.x()), fe(a.y()))
}
fn pw(p: &Curve25519) -> (E, E) {
    aw(&p.to_affine())
}

struct Env {
    f: Fld,
    a: E,
    d: E,
}

fn emit(ctx: &mut Ctx, e: &Env, kind: &str, line: String, res: &Curve25519, spec: &(E, E)) {
    let got = pw(res);
    ctx.case(&format!("ed-{kind}"), true, &line, &big::tok_pair(&got));
    if got != *spec || !big::e_on_curve(&e.f, &e.a, &e.d, &got) {
        crate::fail(ctx, &format!("C11:{line}"), "Curve25519 operation disagrees with the affine twisted-Edwards law over big integers", json!({"op": line, "impl": big::tok_pair(&got), "law": big::tok_pair(spec)}));
    }
}

pub fn run(ctx: &mut Ctx) {
    let f = Fld::new(p());
    let e = Env { a: fe(&CURVE_A), d: fe(&CURVE_D), f };
    if e.a != e.f.fp(p() - bu(1)) {
        crate::fail(ctx, "C11:ed:a", "CURVE_A is not -1", json!({}));
    }
    let id = (e.f.fp(bu(0)), e.f.fp(bu(1)));
    let mut rng = ctx.rng("ed-operands");
    let g = Curve25519::generator();
    let mut ops: Vec<(&'static str, Curve25519)> = vec![
        ("identity", Curve25519::identity()),
        ("generator", g),
        ("2G", g.double()),
        ("-G", -g),
    ];
    let n_rand = if crate::small(ctx) { 3 * crate::extra(ctx) } else { 10 };
    for _ in 0..n_rand {
        ops.push(("random-full-group", Curve25519::random(&mut rng)));
        ops.push(("random-subgroup", Curve25519Subgroup::random(&mut rng).into()));
    }
    // small-order points: decode the well-known small-order encodings
    for (name, v) in [("order-2 (0,-1)", p() - bu(1)), ("order-4 (y=0)", bu(0)), ("order-4 (y=0,sign)", bu(1) << 255usize)] {
        if let Some(q) = Option::<Curve25519>::from(Curve25519::from_bytes(&le32(&v))) {
            ops.push((if name.starts_with("order-2") { "order-2" } else { "order-4" }, q));
        }
    }
    {
        // an order-8 point: L·Q for a random Q of full order
        for _ in 0..20 {
            let q = Curve25519::random(&mut rng);
            let t = big::e_mul(&e.f, &e.a, &e.d, &l(), &pw(&q));
            let t4 = big::e_mul(&e.f, &e.a, &e.d, &bu(4), &t);
            if t4 != id {
                if let Some(a) = Curve25519Affine::from_xy(Fp::from_bytes(&le32(&t.0.c0)).unwrap(), Fp::from_bytes(&le32(&t.1.c0)).unwrap()) {
                    ops.push(("order-8", a.into()));
                    ops.push(("subgroup+torsion", Curve25519::from(a) + g));
                    break;
                }
            }
        }
    }
    for (c, _) in &ops {
        ctx.count(&format!("ed-operand:{c}"));
    }
    ctx.case("ed-const", true, "ed gen", &big::tok_pair(&pw(&g)));
    ctx.case("ed-const", true, "ed gen:subgroup", &big::tok_pair(&pw(&Curve25519Subgroup::generator().into())));
    if !bool::from(Curve25519::identity().is_identity())
        || Curve25519::default() != Curve25519::identity()
        || Curve25519Affine::default() != Curve25519::identity().to_affine()
        || pw(&Curve25519::identity()) != id
        || Curve25519::from(Curve25519Affine::default()) != Curve25519::identity()
    {
        crate::fail(ctx, "C11:ed:identity", "identity constructors / conversions disagree", json!({}));
    }
    for (_, x) in &ops {
        let x = *x;
        let xa = x.to_affine();
        let xw = aw(&xa);
        let xt = big::tok_pair(&xw);
        emit(ctx, &e, "dbl", format!("ed dbl {xt}"), &x.double(), &big::e_add(&e.f, &e.a, &e.d, &xw, &xw));
        emit(ctx, &e, "neg", format!("ed neg {xt}"), &(-x), &big::e_neg(&e.f, &xw));
        let isid = bool::from(x.is_identity());
        ctx.case("ed-pred", true, &format!("ed isid {xt}"), &format!("{}", isid as u8));
        let tf = x.0.is_torsion_free();
        let law = big::e_mul(&e.f, &e.a, &e.d, &l(), &xw) == id;
        ctx.case("ed-pred", true, &format!("ed tf {xt}"), &format!("{}", tf as u8));
        ctx.count(&format!("ed-torsion-free:{tf}"));
        if tf != law || Curve25519Subgroup::from_edwards(x.0).is_some() != law || isid != (xw == id) {
            crate::fail(ctx, &format!("C11:ed:tf {xt}"), "torsion / identity predicate disagrees with the affine law", json!({}));
        }
        ctx.case("ed-oncurve", true, &format!("ed oncurve {xt}"), "1");
        let fx = Curve25519Affine::from_xy(*xa.x(), *xa.y());
        ctx.case("ed-fromxy", true, &format!("ed fromxy {xt}"), &fx.map_or("none".into(), |q| big::tok_pair(&aw(&q))));
        if fx != Some(xa) || fx.map(|q| Curve25519::from(q) == x) != Some(true) {
            crate::fail(ctx, &format!("C11:ed:fromxy {xt}"), "from_xy(x(), y()) is not the point", json!({}));
        }
        let bad = Curve25519Affine::from_xy(*xa.x(), *xa.y() + Fp::ONE);
        let bt = format!("{}/{}", big::tok(&fe(xa.x())), big::tok(&fe(&(*xa.y() + Fp::ONE))));
        ctx.case("ed-fromxy", true, &format!("ed fromxy {bt}"), &bad.map_or("none".into(), |q| big::tok_pair(&aw(&q))));
        // via from_edwards (recomputes x from the compressed form)
        let re = Curve25519Affine::from_edwards(x.0);
        if re != xa || re.to_edwards() != x.0 {
            crate::fail(ctx, &format!("C11:ed:from_edwards {xt}"), "from_edwards / to_edwards inconsistent", json!({}));
        }
    }
    let mut pairs: Vec<(Curve25519, Curve25519, &'static str)> = vec![];
    let core: Vec<usize> = if crate::small(ctx) { (0..ops.len()).step_by(2).collect() } else { (0..ops.len()).collect() };
    for &i in &core {
        for &j in &core {
            pairs.push((ops[i].1, ops[j].1, "grid"));
        }
    }
    for (_, x) in &ops {
        pairs.push((*x, *x, "P=Q"));
        pairs.push((*x, -*x, "P=-Q"));
        pairs.push((x.double(), *x, "2P,P"));
    }
    for (x, y, class) in &pairs {
        ctx.count(&format!("ed-pair:{class}"));
        let (x, y) = (*x, *y);
        let (xa, ya) = (x.to_affine(), y.to_affine());
        let (xw, yw) = (aw(&xa), aw(&ya));
        let (xt, yt) = (big::tok_pair(&xw), big::tok_pair(&yw));
        let sum = big::e_add(&e.f, &e.a, &e.d, &xw, &yw);
        let diff = big::e_add(&e.f, &e.a, &e.d, &xw, &big::e_neg(&e.f, &yw));
        emit(ctx, &e, "add", format!("ed add:pp {xt} {yt}"), &(x + y), &sum);
        emit(ctx, &e, "add", format!("ed add:p&p {xt} {yt}"), &(x + &y), &sum);
        emit(ctx, &e, "add", format!("ed add:&p&p {xt} {yt}"), &(&x + &y), &sum);
        emit(ctx, &e, "add", format!("ed add:pa {xt} {yt}"), &(x + ya), &sum);
        emit(ctx, &e, "add", format!("ed add:p&a {xt} {yt}"), &(x + &ya), &sum);
        let mut r = x;
        r += y;
        emit(ctx, &e, "add", format!("ed add:p+=p {xt} {yt}"), &r, &sum);
        let mut r = x;
        r += &ya;
        emit(ctx, &e, "add", format!("ed add:p+=&a {xt} {yt}"), &r, &sum);
        emit(ctx, &e, "sub", format!("ed sub:pp {xt} {yt}"), &(x - y), &diff);
        emit(ctx, &e, "sub", format!("ed sub:pa {xt} {yt}"), &(x - ya), &diff);
        let mut r = x;
        r -= &y;
        emit(ctx, &e, "sub", format!("ed sub:p-=&p {xt} {yt}"), &r, &diff);
        let mut r = x;
        r -= ya;
        emit(ctx, &e, "sub", format!("ed sub:p-=a {xt} {yt}"), &r, &diff);
        if let (Some(xs), Some(ys)) = (Curve25519Subgroup::from_edwards(x.0), Curve25519Subgroup::from_edwards(y.0)) {
            emit(ctx, &e, "add", format!("ed add:subgroup {xt} {yt}"), &(xs + ys).into(), &sum);
            emit(ctx, &e, "sub", format!("ed sub:subgroup {xt} {yt}"), &(xs - ys).into(), &diff);
        }
        let law = xw == yw;
        if (x == y) != law || bool::from(x.ct_eq(&y)) != law || (xa == ya) != law || bool::from(xa.ct_eq(&ya)) != law {
            crate::fail(ctx, &format!("C11:ed:eq {xt} {yt}"), "equality differs from equality of the affine values", json!({}));
        }
    }
    // scalars
    let mut scal: Vec<(&'static str, Scalar)> = vec![
        ("zero", Scalar::ZERO),
        ("one", Scalar::ONE),
        ("two", Scalar::ONE + Scalar::ONE),
        ("eight", Scalar::from(8u64)),
        ("l-1", -Scalar::ONE),
        ("l-2", -(Scalar::ONE + Scalar::ONE)),
    ];
    for (name, v) in [("bytes:l", l()), ("bytes:l+1", l() + bu(1)), ("bytes:l-1", l() - bu(1)), ("bytes:2^256-1", (bu(1) << 256usize) - bu(1)), ("bytes:2^255-19", p())] {
        scal.push((name, Scalar::from_bytes_mod_order(le32(&v))));
    }
    let mut srng = ctx.rng("ed-scalars");
    for _ in 0..(if crate::small(ctx) { 2 } else { 8 }) {
        scal.push(("random", Scalar::random(&mut srng)));
    }
    for (_, x) in ops.iter().step_by(if crate::small(ctx) { 2 } else { 1 }) {
        let xw = pw(x);
        let xt = big::tok_pair(&xw);
        for (sname, s) in &scal {
            ctx.count(&format!("ed-scalar:{sname}"));
            let k = BigUint::from_bytes_le(&s.to_bytes());
            let spec = big::e_mul(&e.f, &e.a, &e.d, &k, &xw);
            emit(ctx, &e, "mul", format!("ed mul:p*s {xt} {}", big::hex(&k)), &(*x * *s), &spec);
            emit(ctx, &e, "mul", format!("ed mul:p*&s {xt} {}", big::hex(&k)), &(*x * s), &spec);
            emit(ctx, &e, "mul", format!("ed mul:s*p {xt} {}", big::hex(&k)), &(*s * *x), &spec);
            let mut r = *x;
            r *= s;
            emit(ctx, &e, "mul", format!("ed mul:p*=&s {xt} {}", big::hex(&k)), &r, &spec);
        }
    }
    for (i, len) in (if crate::small(ctx) { vec![0usize, 1, 2, 5] } else { vec![0, 1, 2, 3, 9, 20] }).iter().enumerate() {
        let mut r = ctx.rng(&format!("ed-sum-{i}"));
        let pts: Vec<Curve25519> = (0..*len).map(|_| ops[(r.next_u32() as usize) % ops.len()].1).collect();
        let toks: Vec<String> = pts.iter().map(|q| big::tok_pair(&pw(q))).collect();
        let mut spec = id.clone();
        for q in &pts {
            spec = big::e_add(&e.f, &e.a, &e.d, &spec, &pw(q));
        }
        emit(ctx, &e, "sum", format!("ed sum {}", toks.join(" ")), &pts.iter().sum(), &spec);
        emit(ctx, &e, "sum", format!("ed sum:owned {}", toks.join(" ")), &pts.iter().copied().sum(), &spec);
        let mut out = vec![Curve25519Affine::default(); *len];
        Curve25519::batch_normalize(&pts, &mut out);
        for (j, q) in pts.iter().enumerate() {
            if out[j] != q.to_affine() {
                crate::fail(ctx, &format!("C11:ed:batch_normalize {}", toks[j]), "batch_normalize differs from to_affine", json!({}));
            }
        }
        ctx.count("ed-batch-normalize");
    }
    // codec
    let dec = |ctx: &mut Ctx, class: &str, b: &[u8; 32]| {
        let h = hex_bytes(b);
        let d: Option<Curve25519> = Curve25519::from_bytes(b).into();
        let du: Option<Curve25519> = Curve25519::from_bytes_unchecked(b).into();
        let da = mzkh::catch(|| Option::<Curve25519Affine>::from(Curve25519Affine::from_bytes(b)));
        ctx.count(&format!("ed-dec:{class}:{}", if d.is_some() { "accept" } else { "reject" }));
        let fmt = |q: &Option<Curve25519>| q.map_or("none".to_string(), |q| big::tok_pair(&pw(&q)));
        ctx.case("ed-dec", true, &format!("ed dec {h}"), &fmt(&d));
        ctx.case("ed-dec", true, &format!("ed dec:unchecked {h}"), &fmt(&du));
        match da {
            Ok(da) => ctx.case("ed-dec", true, &format!("ed dec:affine {h}"), &da.map_or("none".to_string(), |q| big::tok_pair(&aw(&q)))),
            Err(msg) => crate::fail_once(ctx, "C11:ed:affine-from_bytes-panics", "Curve25519Affine::from_bytes panics on a byte string", json!({"bytes": h, "panic": msg})),
        }
        if let Some(q) = d {
            if q.to_bytes() != *b {
                crate::fail_once(ctx, "C11:ed:decoder-accepts-noncanonical", "Curve25519::from_bytes (checked decoder) accepts a non-canonical encoding: re-encoding the decoded point gives different bytes", json!({"bytes": h, "class": class, "decoded": big::tok_pair(&pw(&q)), "reencoded": hex_bytes(&q.to_bytes())}));
            }
        }
        let _ = CompressedEdwardsY(*b);
    };
    for (_, x) in &ops {
        let b = x.to_bytes();
        let xt = big::tok_pair(&pw(x));
        ctx.case("ed-enc", true, &format!("ed enc {xt}"), &hex_bytes(&b));
        ctx.case("ed-enc", true, &format!("ed enc:affine {xt}"), &hex_bytes(&x.to_affine().to_bytes()));
        let back: Option<Curve25519> = Curve25519::from_bytes(&b).into();
        if back != Some(*x) {
            crate::fail(ctx, &format!("C11:ed:roundtrip {xt}"), "from_bytes(to_bytes(P)) != P", json!({}));
        }
        dec(ctx, "valid", &b);
    }
    for (_, x) in ops.iter().skip(1).take(if crate::small(ctx) { 2 } else { 6 }) {
        let src = x.to_bytes();
        let bits: Vec<usize> = if crate::small(ctx) { vec![0, 1, 7, 8, 100, 248, 253, 254, 255] } else { (0..256).collect() };
        for bit in bits {
            let mut c = src;
            c[bit / 8] ^= 1 << (bit % 8);
            dec(ctx, "bitflip", &c);
        }
    }
    let two255 = bu(1) << 255usize;
    for (name, v) in [
        ("y=0", bu(0)),
        ("y=1", bu(1)),
        ("y=1,sign (x=0 with sign bit)", two255.clone() + bu(1)),
        ("y=-1", p() - bu(1)),
        ("y=-1,sign", two255.clone() + p() - bu(1)),
        ("y=p (alias of 0)", p()),
        ("y=p+1 (alias of 1)", p() + bu(1)),
        ("y=2^255-1 (alias of 18)", two255.clone() - bu(1)),
        ("y=p+3", p() + bu(3)),
        ("all-ones", (bu(1) << 256usize) - bu(1)),
        ("y=2", bu(2)),
    ] {
        dec(ctx, &format!("special:{name}"), &le32(&v));
    }
    let mut r = ctx.rng("ed-random-bytes");
    for _ in 0..(if crate::small(ctx) { 60 } else { 2000 }) {
        let mut b = [0u8; 32];
        r.fill_bytes(&mut b);
        dec(ctx, "random-bytes", &b);
    }
}
