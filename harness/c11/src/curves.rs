//! Per-curve glue for the generic Weierstrass sweep.
use group::cofactor::CofactorGroup;
use group::prime::PrimeCurveAffine;
use midnight_curves::{bn256, CurveExt, G1Affine, G1Projective, G2Affine, G2Projective};
use num_bigint::BigUint;

use crate::big::Fld;
use crate::wei::W;

fn hexbig(s: &str) -> BigUint {
    BigUint::parse_bytes(s.as_bytes(), 16).unwrap()
}
pub fn bls_p() -> BigUint {
    hexbig("1a0111ea397fe69a4b1ba7b6434bacd764774b84f38512bf6730d2a0f6b0f6241eabfffeb153ffffb9feffffffffaaab")
}
pub fn bls_r() -> BigUint {
    hexbig("73eda753299d7d483339d80809a1d80553bda402fffe5bfeffffffff00000001")
}
pub fn bn_p() -> BigUint {
    hexbig("30644e72e131a029b85045b68181585d97816a916871ca8d3c208c16d87cfd47")
}
pub fn bn_r() -> BigUint {
    hexbig("30644e72e131a029b85045b68181585d2833e84879b9709143e1f593f0000001")
}

pub struct G1;
impl W for G1 {
    type P = G1Projective;
    type A = G1Affine;
    type B = midnight_curves::Fp;
    type S = midnight_curves::Fq;
    const TAG: &'static str = "g1";
    const JAC: bool = true;
    fn fld() -> Fld {
        Fld::new(bls_p())
    }
    fn order() -> BigUint {
        bls_r()
    }
    fn pcoords(p: &Self::P) -> (Self::B, Self::B, Self::B) {
        (p.x(), p.y(), p.z())
    }
    fn pfrom(x: Self::B, y: Self::B, z: Self::B) -> Option<Self::P> {
        G1Projective::new_jacobian(x, y, z).into()
    }
    fn acoords(a: &Self::A) -> (Self::B, Self::B) {
        (a.x(), a.y())
    }
    fn torsion_free(a: &Self::A) -> Option<bool> {
        Some(bool::from(a.is_torsion_free()))
    }
    fn a_plus_p(a: &Self::A, p: &Self::P) -> Self::P {
        a + p
    }
    fn a_minus_p(a: &Self::A, p: &Self::P) -> Self::P {
        a - p
    }
    fn a_neg(a: &Self::A) -> Self::A {
        -a
    }
    fn a_mul(a: &Self::A, s: &Self::S) -> Self::P {
        a * s
    }
    fn small_order_recipe() -> Option<(u32, BigUint)> {
        // cofactor h = 3 · 11² · 10177² · 859267² · 52437899²; (r·h/11)·Q has order 11 or 1
        let h = hexbig("396c8c005555e1568c00aaab0000aaab");
        Some((11, bls_r() * h / BigUint::from(11u32)))
    }
}

pub struct G2;
impl W for G2 {
    type P = G2Projective;
    type A = G2Affine;
    type B = midnight_curves::bls12_381::Fp2;
    type S = midnight_curves::Fq;
    const TAG: &'static str = "g2";
    const JAC: bool = true;
    fn fld() -> Fld {
        Fld::new(bls_p())
    }
    fn order() -> BigUint {
        bls_r()
    }
    fn pcoords(p: &Self::P) -> (Self::B, Self::B, Self::B) {
        (p.x(), p.y(), p.z())
    }
    fn pfrom(x: Self::B, y: Self::B, z: Self::B) -> Option<Self::P> {
        G2Projective::new_jacobian(x, y, z).into()
    }
    fn acoords(a: &Self::A) -> (Self::B, Self::B) {
        (a.x(), a.y())
    }
    fn torsion_free(a: &Self::A) -> Option<bool> {
        Some(bool::from(a.is_torsion_free()))
    }
    fn a_plus_p(a: &Self::A, p: &Self::P) -> Self::P {
        a + p
    }
    fn a_minus_p(a: &Self::A, p: &Self::P) -> Self::P {
        a - p
    }
    fn a_neg(a: &Self::A) -> Self::A {
        -a
    }
    fn a_mul(a: &Self::A, s: &Self::S) -> Self::P {
        a * s
    }
    fn small_order_recipe() -> Option<(u32, BigUint)> {
        // h2 = 13² · 23² · 2713 · 11953 · 262069 · (large prime); (r·h2/13)·Q has order 13 or 1
        let h = hexbig("5d543a95414e7f1091d50792876a202cd91de4547085abaa68a205b2e5a7ddfa628f1cb4d9e82ef21537e293a6691ae1616ec6e786f0c70cf1c38e31c7238e5");
        Some((13, bls_r() * h / BigUint::from(13u32)))
    }
}

pub struct Bn1;
impl W for Bn1 {
    type P = bn256::G1;
    type A = bn256::G1Affine;
    type B = bn256::Fq;
    type S = bn256::Fr;
    const TAG: &'static str = "bn1";
    const JAC: bool = false;
    fn fld() -> Fld {
        Fld::new(bn_p())
    }
    fn order() -> BigUint {
        bn_r()
    }
    fn pcoords(p: &Self::P) -> (Self::B, Self::B, Self::B) {
        (p.x, p.y, p.z)
    }
    fn pfrom(x: Self::B, y: Self::B, z: Self::B) -> Option<Self::P> {
        Some(bn256::G1 { x, y, z })
    }
    fn acoords(a: &Self::A) -> (Self::B, Self::B) {
        (a.x, a.y)
    }
    fn torsion_free(a: &Self::A) -> Option<bool> {
        Some(bool::from(a.to_curve().is_torsion_free()))
    }
    fn a_plus_p(a: &Self::A, p: &Self::P) -> Self::P {
        a + p
    }
    fn a_minus_p(a: &Self::A, p: &Self::P) -> Self::P {
        a - p
    }
    fn a_neg(a: &Self::A) -> Self::A {
        -a
    }
    fn a_mul(a: &Self::A, s: &Self::S) -> Self::P {
        a * s
    }
    fn small_order_recipe() -> Option<(u32, BigUint)> {
        None
    }
}

pub struct Bn2;
impl W for Bn2 {
    type P = bn256::G2;
    type A = bn256::G2Affine;
    type B = bn256::Fq2;
    type S = bn256::Fr;
    const TAG: &'static str = "bn2";
    const JAC: bool = false;
    fn fld() -> Fld {
        Fld::new(bn_p())
    }
    fn order() -> BigUint {
        bn_r()
    }
    fn pcoords(p: &Self::P) -> (Self::B, Self::B, Self::B) {
        (p.x, p.y, p.z)
    }
    fn pfrom(x: Self::B, y: Self::B, z: Self::B) -> Option<Self::P> {
        Some(bn256::G2 { x, y, z })
    }
    fn acoords(a: &Self::A) -> (Self::B, Self::B) {
        (a.x, a.y)
    }
    fn torsion_free(_a: &Self::A) -> Option<bool> {
        // `CofactorGroup::is_torsion_free` of bn256::G2 is evaluated in the BN-specific part
        None
    }
    fn a_plus_p(a: &Self::A, p: &Self::P) -> Self::P {
        a + p
    }
    fn a_minus_p(a: &Self::A, p: &Self::P) -> Self::P {
        a - p
    }
    fn a_neg(a: &Self::A) -> Self::A {
        -a
    }
    fn a_mul(a: &Self::A, s: &Self::S) -> Self::P {
        a * s
    }
    fn small_order_recipe() -> Option<(u32, BigUint)> {
        None
    }
}
