//! Cells of the coverage table (`cover.rs`) that the per-curve sweeps did not drive:
//! shared-inversion batch routines with `Z = 0` entries, `batch_from_bytes` on mixed batches,
//! Niels identities, `from_raw_unchecked`, flag / sign / infinity sweeps of every byte codec,
//! `+p` aliases of coordinates, `SerdeObject` raw bytes, serde (`serde_impl.rs`), encoded sizes,
//! `hash_to_curve` / `random` landing in the prime-order subgroup.
use ff::Field;
use group::{cofactor::CofactorGroup, prime::PrimeCurveAffine, Curve, Group, GroupEncoding, UncompressedEncoding};
use midnight_curves::serde::SerdeObject;
use midnight_curves::{
    bn256, CurveAffine, CurveExt, ExtendedNielsPoint, Fq as Base, G1Affine, G1Projective, G2Affine,
    G2Projective, JubjubAffine, JubjubAffineNiels, JubjubExtended, JubjubSubgroup,
};
use mzkh::Ctx;
use num_bigint::BigUint;
use rand::RngCore;
use serde_json::json;

use crate::big;
use crate::jj::{aff_tok, b2big, ext_tok};
use crate::wei::{a_tok, a_wp, decode_all, hex_bytes, Env, FieldTok, Operand, W};

fn bt(b: &Base) -> String {
    big::hex(&b2big(b))
}

/// Jubjub: batch routines with `Z = 0` entries, mixed `batch_from_bytes`, constants, raw constructors.
pub fn jj_extra(ctx: &mut Ctx) {
    let ops = crate::jj::operands(ctx, 2);
    ctx.case("jj-const", true, "jj niels_ident_a", &JubjubAffineNiels::identity().verif_raw().iter().map(bt).collect::<Vec<_>>().join("/"));
    ctx.case("jj-const", true, "jj niels_ident_e", &ExtendedNielsPoint::identity().verif_raw().iter().map(bt).collect::<Vec<_>>().join("/"));
    // from_raw_unchecked: no check, same fields
    for o in ops.iter().take(6) {
        let pa = JubjubAffine::from(o.p);
        let r = JubjubAffine::from_raw_unchecked(pa.get_u(), pa.get_v());
        ctx.case("jj-of-affine", true, &format!("jj of_affine:from_raw_unchecked {}", aff_tok(&pa)), &ext_tok(&r.to_extended()));
        let s: JubjubExtended = JubjubSubgroup::from_raw_unchecked(pa.get_u(), pa.get_v()).into();
        ctx.case("jj-of-affine", true, &format!("jj of_affine:subgroup-from_raw_unchecked {}", aff_tok(&pa)), &ext_tok(&s));
        if r != pa {
            crate::fail(ctx, &format!("C11:jj:from_raw_unchecked {}", aff_tok(&pa)), "from_raw_unchecked(get_u, get_v) is not the point", json!({}));
        }
    }
    // random(): on the curve; the subgroup type's random() is torsion free
    {
        let mut rng = ctx.rng("jj-random");
        for _ in 0..4 {
            let s = JubjubSubgroup::random(&mut rng);
            let e: JubjubExtended = s.into();
            let ok = bool::from(e.is_torsion_free()) && !bool::from(e.is_identity());
            ctx.count(&format!("jj-random-subgroup-prime-order:{ok}"));
            if !ok {
                crate::fail(ctx, "C11:jj:random-subgroup", "JubjubSubgroup::random returns a point outside the prime-order subgroup (or the identity)", json!({"p": ext_tok(&e)}));
            }
        }
    }
    // Sum of the subgroup newtype = Sum of the extended points
    {
        let subs: Vec<JubjubSubgroup> = ops.iter().filter_map(|o| Option::<JubjubSubgroup>::from(o.p.into_subgroup())).collect();
        let s1: JubjubExtended = subs.iter().sum::<JubjubSubgroup>().into();
        let s2: JubjubExtended = subs.iter().map(|s| JubjubExtended::from(*s)).sum();
        ctx.count_n("jj-sum-subgroup-len", subs.len() as u64);
        if s1.verif_raw() != s2.verif_raw() {
            crate::fail(ctx, "C11:jj:sum-subgroup", "Sum for JubjubSubgroup differs from Sum for JubjubExtended", json!({}));
        }
    }
    // batch_normalize with Z = 0 entries (never produced by the API, reachable through raw memory /
    // unchecked deserialisation; the batched inversion skips them)
    let z0 = |i: u64| JubjubExtended::verif_from_raw([Base::from(i + 2), Base::from(i + 5), Base::ZERO, Base::from(7u64), Base::from(9u64)]);
    let good: Vec<JubjubExtended> = ops.iter().filter(|o| o.class != "identity").map(|o| o.p).collect();
    let g = |i: usize| good[i % good.len()];
    let lists: Vec<(&str, Vec<JubjubExtended>)> = vec![
        ("z0-only", vec![z0(0)]),
        ("z0-first", vec![z0(1), g(0), g(1)]),
        ("z0-last", vec![g(2), g(3), z0(2)]),
        ("z0-middle", vec![g(4), z0(3), g(5)]),
        ("z0-all", vec![z0(4), z0(5), z0(6)]),
        ("z0-consecutive", vec![g(6), z0(7), z0(8), g(7), g(8), z0(9)]),
        ("no-z0", vec![g(9), g(10), g(11), g(12)]),
        ("identity-mixed", vec![JubjubExtended::identity(), z0(10), JubjubExtended::identity(), g(13)]),
    ];
    for (class, pts) in &lists {
        ctx.count(&format!("jj-batch:{class}"));
        let toks: Vec<String> = pts.iter().map(ext_tok).collect();
        let mut out = vec![JubjubAffine::identity(); pts.len()];
        match mzkh::catch(|| {
            JubjubExtended::batch_normalize(pts, &mut out);
            out.clone()
        }) {
            Err(msg) => crate::fail_once(ctx, "C11:jj:batch_normalize-panics-z0", "JubjubExtended::batch_normalize panics on a slice with a Z = 0 entry", json!({"points": toks, "panic": msg})),
            Ok(out) => {
                ctx.case("jj-batch-normalize", true, &format!("jj bn:{class} {}", toks.join(" ")), &out.iter().map(aff_tok).collect::<Vec<_>>().join(" "));
                for (i, p) in pts.iter().enumerate() {
                    let z_zero = bool::from(p.verif_raw()[2].is_zero());
                    let want = if z_zero { JubjubAffine::from_raw_unchecked(Base::ZERO, Base::ZERO) } else { JubjubAffine::from(p) };
                    if out[i] != want {
                        crate::fail(ctx, &format!("C11:jj:bn-z0 {} [{i}]", toks.join(" ")), "batch_normalize: an entry next to a Z = 0 entry is not to_affine of its input", json!({"index": i, "got": aff_tok(&out[i]), "want": aff_tok(&want)}));
                    }
                }
            }
        }
        let mut copy = pts.clone();
        match mzkh::catch(move || {
            let _ = midnight_curves::batch_normalize(&mut copy).count();
            copy
        }) {
            Err(msg) => crate::fail_once(ctx, "C11:jj:batch_normalize-free-fn-panics-z0", "jubjub::batch_normalize panics on a slice with a Z = 0 entry", json!({"points": toks, "panic": msg})),
            Ok(copy) => ctx.case("jj-batch-normalize", true, &format!("jj bn_inplace:{class} {}", toks.join(" ")), &copy.iter().map(ext_tok).collect::<Vec<_>>().join(" ")),
        }
    }
    // batch_from_bytes on mixed batches: rejected `v` (denominator slot = 0), non-squares, ZIP 216
    {
        let q = BigUint::parse_bytes(b"73eda753299d7d483339d80809a1d80553bda402fffe5bfeffffffff00000001", 16).unwrap();
        let le32 = |v: &BigUint| {
            let mut b = [0u8; 32];
            let le = v.to_bytes_le();
            b[..le.len()].copy_from_slice(&le);
            b
        };
        let two255 = BigUint::from(1u32) << 255usize;
        let valid: Vec<[u8; 32]> = ops.iter().map(|o| JubjubAffine::from(o.p).to_bytes()).collect();
        let bad_v = le32(&q);
        let bad_v2 = le32(&((BigUint::from(1u32) << 255usize) - BigUint::from(1u32)));
        let zip = le32(&(two255.clone() + BigUint::from(1u32)));
        let zip2 = le32(&(two255 + q.clone() - BigUint::from(1u32)));
        let mut rng = ctx.rng("jj-dec-batch");
        let mut rnd = || {
            let mut b = [0u8; 32];
            rng.fill_bytes(&mut b);
            b[31] &= 0x3f;
            b
        };
        let v = |i: usize| valid[i % valid.len()];
        let batches: Vec<(&str, Vec<[u8; 32]>)> = vec![
            ("empty", vec![]),
            ("single-valid", vec![v(1)]),
            ("single-rejected-v", vec![bad_v]),
            ("rejected-first", vec![bad_v, v(2), v(3)]),
            ("rejected-last", vec![v(4), v(5), bad_v2]),
            ("rejected-middle", vec![v(6), bad_v, bad_v2, v(7)]),
            ("all-rejected", vec![bad_v, bad_v2, bad_v]),
            ("zip216", vec![v(0), zip, v(8), zip2, v(9)]),
            ("random", vec![rnd(), v(10), rnd(), rnd(), v(11), rnd()]),
            ("random2", vec![rnd(), rnd(), rnd(), rnd(), bad_v, rnd(), rnd(), zip]),
        ];
        for (class, items) in &batches {
            ctx.count(&format!("jj-dec-batch:{class}"));
            let res = JubjubAffine::batch_from_bytes(items.iter().copied());
            let fmt = |p: Option<JubjubAffine>| p.map_or("none".to_string(), |p| aff_tok(&p));
            let line = format!("jj dec_batch:{class} {}", items.iter().map(|b| hex_bytes(b)).collect::<Vec<_>>().join(" "));
            let line = line.trim_end().to_string();
            let got: Vec<Option<JubjubAffine>> = res.iter().map(|r| Option::<JubjubAffine>::from(*r)).collect();
            if !items.is_empty() {
                ctx.case("jj-dec-batch", true, &line, &got.iter().map(|p| fmt(*p)).collect::<Vec<_>>().join(" "));
            }
            for (i, b) in items.iter().enumerate() {
                let single: Option<JubjubAffine> = JubjubAffine::from_bytes(*b).into();
                if got.get(i).copied() != Some(single) {
                    crate::fail(ctx, &format!("C11:jj:batch_from_bytes {} [{i}]", line), "JubjubAffine::batch_from_bytes disagrees with from_bytes on one item of a batch", json!({"batch": line, "index": i, "bytes": hex_bytes(b), "batch_result": fmt(got.get(i).copied().flatten()), "single_result": fmt(single)}));
                }
            }
            if got.len() != items.len() {
                crate::fail(ctx, &format!("C11:jj:batch_from_bytes-len {}", line), "batch_from_bytes returns a different number of results", json!({}));
            }
        }
    }
}

/// Generic byte-codec cells: sign flip, infinity flag with a non-zero body at every position,
/// `+p` aliases of every coordinate slot, sizes, `hash_to_curve`, `random`.
pub fn codec_extra<C: W>(ctx: &mut Ctx, e: &Env, ops: &[Operand<C>])
where
    <C::A as UncompressedEncoding>::Uncompressed: AsRef<[u8]> + AsMut<[u8]>,
{
    let t = C::TAG;
    let clen = <C::A as GroupEncoding>::Repr::default().as_ref().len();
    let ulen = <C::A as UncompressedEncoding>::Uncompressed::default().as_ref().len();
    ctx.case(&format!("{t}-const"), true, &format!("{t} sizes"), &format!("{clen} {ulen}"));
    // (1) sign flip: the other sign bit decodes to -P, never to P
    let (sign_pos, sign_mask) = if C::JAC { (0usize, 0x20u8) } else { (clen - 1, 0x80u8) };
    for o in ops {
        let pa = o.p.to_affine();
        if bool::from(pa.is_identity()) {
            continue;
        }
        let x_zero = a_wp::<C>(&pa).map_or(false, |(x, _)| e.f.is_zero(&x));
        if x_zero && C::JAC {
            continue;
        }
        let mut c = pa.to_bytes();
        c.as_mut()[sign_pos] ^= sign_mask;
        let du: Option<C::A> = C::A::from_bytes_unchecked(&c).into();
        decode_all::<C>(ctx, e, "signflip", c.as_ref());
        if du != Some(C::a_neg(&pa)) {
            crate::fail(ctx, &format!("C11:{t}:signflip {}", a_tok::<C>(&pa)), "flipping the sign flag of a valid compressed encoding does not decode to the negated point", json!({"point": a_tok::<C>(&pa), "bytes": hex_bytes(c.as_ref()), "decoded": du.map(|q| a_tok::<C>(&q))}));
        }
    }
    // (2) infinity flag + non-zero body, every byte position
    let id_c = C::A::identity().to_bytes();
    let id_u = C::A::identity().to_uncompressed();
    let step = if crate::small(ctx) { 1 } else { 1 };
    for (src, which) in [(id_c.as_ref().to_vec(), "c"), (id_u.as_ref().to_vec(), "u")] {
        let vals: &[u8] = if crate::small(ctx) { &[0x01] } else { &[0x01, 0x10, 0x80] };
        for pos in (0..src.len()).step_by(step) {
            for &v in vals {
                let mut b = src.clone();
                if b[pos] & v != 0 {
                    continue; // would clear a flag bit instead of adding a body bit
                }
                b[pos] |= v;
                // skip patterns that merely set another *flag* bit together with nothing else
                decode_all::<C>(ctx, e, &format!("infinity+body:{which}"), &b);
                let mut repr = <C::A as GroupEncoding>::Repr::default();
                let mut urepr = <C::A as UncompressedEncoding>::Uncompressed::default();
                let acc = if which == "c" {
                    repr.as_mut().copy_from_slice(&b);
                    bool::from(C::A::from_bytes(&repr).is_some()) || bool::from(C::A::from_bytes_unchecked(&repr).is_some()) || bool::from(C::P::from_bytes(&repr).is_some())
                } else {
                    urepr.as_mut().copy_from_slice(&b);
                    bool::from(C::A::from_uncompressed(&urepr).is_some()) || bool::from(C::A::from_uncompressed_unchecked(&urepr).is_some())
                };
                // The BN254 uncompressed form has no infinity flag: the identity is (0, 0), any
                // other string is a pair of coordinates (decided by the on-curve check).
                if acc && !(which == "u" && !C::JAC) {
                    crate::fail(ctx, &format!("C11:{t}:infinity-with-body {}", hex_bytes(&b)), "a decoder accepts the infinity flag together with a non-zero body", json!({"bytes": hex_bytes(&b), "pos": pos}));
                }
            }
        }
    }
    // (3) +p aliases: every coordinate slot of valid encodings, when the sum still fits the slot
    let fe_len = if C::JAC { 48 } else { 32 };
    let p = e.f.p.clone();
    for o in ops.iter().filter(|o| o.class == "generator" || o.class == "random-subgroup" || o.class.starts_with("2G")).take(3) {
        let pa = o.p.to_affine();
        for (src, which) in [(pa.to_bytes().as_ref().to_vec(), "c"), (pa.to_uncompressed().as_ref().to_vec(), "u")] {
            for k in 0..(src.len() / fe_len) {
                let chunk = &src[k * fe_len..(k + 1) * fe_len];
                // flags live in the top bits of the first (blst) / last (BN compressed) byte
                let v = if C::JAC { BigUint::from_bytes_be(chunk) } else { BigUint::from_bytes_le(chunk) };
                let w = v + &p;
                let bytes = if C::JAC { w.to_bytes_be() } else { w.to_bytes_le() };
                if bytes.len() > fe_len {
                    continue;
                }
                let mut b = src.clone();
                if C::JAC {
                    b[(k + 1) * fe_len - bytes.len()..(k + 1) * fe_len].copy_from_slice(&bytes);
                } else {
                    b[k * fe_len..k * fe_len + bytes.len()].copy_from_slice(&bytes);
                }
                ctx.count(&format!("{t}-alias:{which}:slot{k}"));
                decode_all::<C>(ctx, e, &format!("alias+p:{which}"), &b);
                // oracle: an alias is never accepted as the SAME point by a checked decoder
                let mut repr = <C::A as GroupEncoding>::Repr::default();
                let mut urepr = <C::A as UncompressedEncoding>::Uncompressed::default();
                let d: Option<C::A> = if which == "c" {
                    repr.as_mut().copy_from_slice(&b);
                    C::A::from_bytes(&repr).into()
                } else {
                    urepr.as_mut().copy_from_slice(&b);
                    C::A::from_uncompressed(&urepr).into()
                };
                if d == Some(pa) {
                    crate::fail(ctx, &format!("C11:{t}:alias {}", hex_bytes(&b)), "a checked decoder accepts a coordinate ≥ p as an alias of a valid encoding", json!({"bytes": hex_bytes(&b), "slot": k}));
                }
            }
        }
    }
    // (4) hash_to_curve (CurveExt) and random(): on the curve, in the prime-order subgroup, deterministic
    // (`<G2Projective as CurveExt>::hash_to_curve` is `unimplemented!()` in g2.rs: counted, not a
    // statement of the property; the inherent `hash_to_curve(msg, dst, aug)` is driven in `g2_serde`)
    if mzkh::catch(|| { let _ = C::P::hash_to_curve("C11-verif-domain"); }).is_err() {
        ctx.count(&format!("{t}-hash_to_curve:unimplemented-panics"));
    } else {
        let h1 = C::P::hash_to_curve("C11-verif-domain");
        let h2 = C::P::hash_to_curve("C11-verif-domain2");
        let msgs: [&[u8]; 4] = [b"", b"a", b"abc", &[0u8; 200]];
        let mut seen: Vec<C::P> = vec![];
        for m in msgs {
            let (a, b, c) = (h1(m), h1(m), h2(m));
            let aa = a.to_affine();
            let ok = a == b && a != c && bool::from(a.is_on_curve()) && !bool::from(a.is_identity()) && C::torsion_free(&aa).unwrap_or(true) && !seen.contains(&a);
            seen.push(a);
            ctx.count(&format!("{t}-hash_to_curve-ok:{ok}"));
            if !ok {
                crate::fail(ctx, &format!("C11:{t}:hash_to_curve {}", hex_bytes(m)), "CurveExt::hash_to_curve: not deterministic / not domain separated / off the curve / outside the prime-order subgroup / collision", json!({"msg": hex_bytes(m), "point": a_tok::<C>(&aa)}));
            }
        }
    }
    {
        let mut rng = ctx.rng(&format!("{t}-random"));
        for _ in 0..3 {
            let r = C::P::random(&mut rng);
            let ok = bool::from(r.is_on_curve()) && C::torsion_free(&r.to_affine()).unwrap_or(true);
            ctx.count(&format!("{t}-random-in-subgroup:{ok}"));
            if !ok {
                crate::fail(ctx, &format!("C11:{t}:random"), "Group::random returns a point off the curve or outside the prime-order subgroup", json!({"point": a_tok::<C>(&r.to_affine())}));
            }
        }
    }
}

fn json_bytes<T: serde::Serialize>(v: &T) -> Option<Vec<u8>> {
    match serde_json::to_value(v).ok()? {
        serde_json::Value::Array(a) => a.iter().map(|x| x.as_u64().map(|b| b as u8)).collect(),
        _ => None,
    }
}

macro_rules! bls_serde {
    ($fname:ident, $tag:literal, $aff:ty, $proj:ty, $curve:ty) => {
        /// BLS12-381: `SerdeObject` (raw bytes = uncompressed form), serde (`serde_impl.rs`: tuple of
        /// the compressed bytes), the size functions, `hash_to_curve(msg, dst, aug)`.
        pub fn $fname(ctx: &mut Ctx) {
            type C = $curve;
            let t = $tag;
            ctx.case(&format!("{t}-const"), true, &format!("{t} sizes:fn"), &format!("{} {}", <$aff>::compressed_size(), <$aff>::uncompressed_size()));
            let ops = crate::wei::operands::<C>(ctx, 2);
            let mut ubytes: Vec<(String, Vec<u8>)> = vec![];
            let mut cbytes: Vec<(String, Vec<u8>)> = vec![];
            for o in &ops {
                let pa = o.p.to_affine();
                let pt = a_tok::<C>(&pa);
                let raw = pa.to_raw_bytes();
                ctx.case(&format!("{t}-enc"), true, &format!("{t} encu:to_raw_bytes {pt}"), &hex_bytes(&raw));
                let mut w = vec![];
                pa.write_raw(&mut w).unwrap();
                ctx.case(&format!("{t}-enc"), true, &format!("{t} encu:write_raw {pt}"), &hex_bytes(&w));
                ubytes.push((o.class.to_string(), raw));
                if let Some(j) = json_bytes(&pa) {
                    ctx.case(&format!("{t}-enc"), true, &format!("{t} enc:serde {pt}"), &hex_bytes(&j));
                    cbytes.push((o.class.to_string(), j));
                } else {
                    crate::fail(ctx, &format!("C11:{t}:serde-serialize {pt}"), "serde serialisation of an affine point is not a byte tuple", json!({}));
                }
                if let Some(j) = json_bytes(&o.p) {
                    ctx.case(&format!("{t}-enc"), true, &format!("{t} enc:serde-projective {pt}"), &hex_bytes(&j));
                }
            }
            // corruptions: single bits (flags, body), compressed form, truncated
            let mut more_u: Vec<(String, Vec<u8>)> = vec![];
            for (_, b) in ubytes.iter().skip(1).take(3) {
                for bit in [0usize, 1, 2, 7, 8 * b.len() / 2, 8 * b.len() - 1] {
                    let mut c = b.clone();
                    c[bit / 8] ^= 0x80 >> (bit % 8);
                    more_u.push(("bitflip".into(), c));
                }
            }
            let mut more_c: Vec<(String, Vec<u8>)> = vec![];
            for (_, b) in cbytes.iter().skip(1).take(3) {
                for bit in [0usize, 1, 2, 7, 8 * b.len() - 1] {
                    let mut c = b.clone();
                    c[bit / 8] ^= 0x80 >> (bit % 8);
                    more_c.push(("bitflip".into(), c));
                }
            }
            for (class, b) in ubytes.iter().chain(more_u.iter()) {
                let h = hex_bytes(b);
                let d: Option<$aff> = <$aff>::from_raw_bytes(b);
                let r: Option<$aff> = <$aff>::read_raw(&mut &b[..]).ok();
                ctx.count(&format!("{t}-raw:{}:{}", if class == "bitflip" { "bitflip" } else { "valid" }, if d.is_some() { "accept" } else { "reject" }));
                ctx.case(&format!("{t}-decu"), true, &format!("{t} decu:from_raw_bytes {h}"), &d.map_or("none".into(), |q| a_tok::<C>(&q)));
                ctx.case(&format!("{t}-decu"), true, &format!("{t} decu:read_raw {h}"), &r.map_or("none".into(), |q| a_tok::<C>(&q)));
                if let Some(q) = d {
                    let u = mzkh::catch(|| <$aff>::from_raw_bytes_unchecked(b));
                    let ru = mzkh::catch(|| <$aff>::read_raw_unchecked(&mut &b[..]));
                    if u != Ok(q) || ru != Ok(q) || q.to_raw_bytes() != *b {
                        crate::fail(ctx, &format!("C11:{t}:raw-bytes {h}"), "SerdeObject raw-byte readers disagree or the accepted string is not canonical", json!({"bytes": h}));
                    }
                }
            }
            for (class, b) in cbytes.iter().chain(more_c.iter()) {
                let h = hex_bytes(b);
                let arr = serde_json::Value::Array(b.iter().map(|x| json!(x)).collect());
                let d: Option<$aff> = serde_json::from_value::<$aff>(arr.clone()).ok();
                let dp: Option<$proj> = serde_json::from_value::<$proj>(arr).ok();
                ctx.count(&format!("{t}-serde:{}:{}", if class == "bitflip" { "bitflip" } else { "valid" }, if d.is_some() { "accept" } else { "reject" }));
                ctx.case(&format!("{t}-dec"), true, &format!("{t} dec:serde {h}"), &d.map_or("none".into(), |q| a_tok::<C>(&q)));
                ctx.case(&format!("{t}-dec"), true, &format!("{t} dec:serde-projective {h}"), &dp.map_or("none".into(), |q| a_tok::<C>(&q.to_affine())));
            }
            // wrong tuple length is an error, not a panic
            {
                let short = serde_json::Value::Array((0..5).map(|x| json!(x)).collect());
                let r = mzkh::catch(|| serde_json::from_value::<$aff>(short).is_ok());
                if r != Ok(false) {
                    crate::fail(ctx, &format!("C11:{t}:serde-short"), "serde deserialisation of a short tuple is accepted or panics", json!({"result": format!("{r:?}")}));
                }
            }
            // hash_to_curve(msg, dst, aug): deterministic, dst- and aug-separated, in the subgroup
            let msgs: [&[u8]; 3] = [b"", b"abc", &[7u8; 130]];
            for m in msgs {
                let a = <$proj>::hash_to_curve(m, b"C11-DST", b"");
                let ok = a == <$proj>::hash_to_curve(m, b"C11-DST", b"")
                    && a != <$proj>::hash_to_curve(m, b"C11-DST2", b"")
                    && a != <$proj>::hash_to_curve(m, b"C11-DST", b"x")
                    && bool::from(a.is_on_curve())
                    && bool::from(a.to_affine().is_torsion_free());
                ctx.count(&format!("{t}-hash_to_curve3-ok:{ok}"));
                if !ok {
                    crate::fail(ctx, &format!("C11:{t}:hash_to_curve3 {}", hex_bytes(m)), "hash_to_curve(msg, dst, aug): not deterministic / not separated / outside the subgroup", json!({}));
                }
            }
        }
    };
}
bls_serde!(g1_serde, "g1", G1Affine, G1Projective, crate::curves::G1);
bls_serde!(g2_serde, "g2", G2Affine, G2Projective, crate::curves::G2);

macro_rules! bn_raw {
    ($fname:ident, $tag:literal, $proj:ty, $aff:ty, $base:ty, $curve:ty) => {
        /// BN254 (`derive/curve.rs`): `SerdeObject` raw bytes (internal Montgomery limbs): round trips;
        /// BOTH checked readers (`from_raw_bytes`, `read_raw`) accept exactly the coordinate pairs /
        /// triples that satisfy the curve equation (model lines `oncurve_xy:<reader>`,
        /// `oncurve_raw:<reader>` = `Bn.affIsOnCurve` / `Bn.isOnCurve`). Regression of
        /// `C11:bn:read_raw-accepts-offcurve` (fixed in 569715f: `read_raw` skipped the check).
        pub fn $fname(ctx: &mut Ctx) {
            type C = $curve;
            type A = $aff;
            type P = $proj;
            let t = $tag;
            let mut rng = ctx.rng(&format!("{t}-raw-serde"));
            let g = <$aff>::generator();
            let mut affs: Vec<(&str, $aff)> = vec![
                ("valid", g),
                ("valid", g.to_curve().double().to_affine()),
                ("valid", <$aff>::identity()),
                ("valid", <$proj>::random(&mut rng).to_affine()),
                ("off-curve", A { x: g.x, y: g.y + <$base>::ONE }),
                ("off-curve", A { x: g.x + <$base>::ONE, y: g.y }),
                ("off-curve", A { x: <$base>::ZERO, y: <$base>::ONE }),
                ("off-curve", A { x: <$base>::ONE, y: <$base>::ZERO }),
            ];
            for _ in 0..3 {
                affs.push(("off-curve", A { x: <$base>::random(&mut rng), y: <$base>::random(&mut rng) }));
            }
            for (class, p) in &affs {
                let raw = p.to_raw_bytes();
                let a = <$aff>::from_raw_bytes(&raw);
                let b = <$aff>::read_raw(&mut &raw[..]).ok();
                let xy = format!("{}/{}", big::tok(&p.x.to_e()), big::tok(&p.y.to_e()));
                ctx.count(&format!("{t}-raw-affine:{class}:from_raw_bytes={}:read_raw={}", a.is_some(), b.is_some()));
                ctx.case(&format!("{t}-raw-serde"), true, &format!("{t} oncurve_xy:from_raw_bytes {xy}"), &format!("{}", a.is_some() as u8));
                ctx.case(&format!("{t}-raw-serde"), true, &format!("{t} oncurve_xy:read_raw {xy}"), &format!("{}", b.is_some() as u8));
                let on = bool::from(p.is_on_curve());
                if a.is_some() != on || (a.is_some() && a != Some(*p)) {
                    crate::fail(ctx, &format!("C11:{t}:from_raw_bytes {xy}"), "from_raw_bytes does not accept exactly the points on the curve", json!({"bytes": hex_bytes(&raw)}));
                }
                if b.is_some() != on || (b.is_some() && b != Some(*p)) {
                    crate::fail_once(
                        ctx,
                        "C11:bn:read_raw-accepts-offcurve",
                        "SerdeObject::read_raw (the checked reader) of the derive/curve.rs types accepts a point that is not on the curve, while from_raw_bytes rejects the same bytes",
                        json!({"type": stringify!($aff), "bytes": hex_bytes(&raw), "point": xy, "from_raw_bytes": a.is_some(), "read_raw": b.is_some()}),
                    );
                }
                if on && (<$aff>::from_raw_bytes_unchecked(&raw) != *p || <$aff>::read_raw_unchecked(&mut &raw[..]) != *p) {
                    crate::fail(ctx, &format!("C11:{t}:raw-unchecked {xy}"), "unchecked raw readers do not return the stored point", json!({}));
                }
            }
            let gp = g.to_curve().double();
            let mut projs: Vec<(&str, $proj)> = vec![
                ("valid", g.to_curve()),
                ("valid", gp),
                ("valid", <$proj>::identity()),
                ("valid", <$proj>::random(&mut rng).double()),
                ("off-curve", P { x: gp.x, y: gp.y + <$base>::ONE, z: gp.z }),
                ("off-curve", P { x: g.x, y: g.y + <$base>::ONE, z: <$base>::ONE }),
                ("z=0", P { x: <$base>::random(&mut rng), y: <$base>::random(&mut rng), z: <$base>::ZERO }),
            ];
            for _ in 0..3 {
                projs.push(("off-curve", P { x: <$base>::random(&mut rng), y: <$base>::random(&mut rng), z: <$base>::random(&mut rng) }));
            }
            for (class, p) in &projs {
                let raw = p.to_raw_bytes();
                let a = <$proj>::from_raw_bytes(&raw);
                let b = <$proj>::read_raw(&mut &raw[..]).ok();
                let pt = crate::wei::raw_tok::<C>(p);
                ctx.count(&format!("{t}-raw-projective:{class}:from_raw_bytes={}:read_raw={}", a.is_some(), b.is_some()));
                ctx.case(&format!("{t}-raw-serde"), true, &format!("{t} oncurve_raw:from_raw_bytes {pt}"), &format!("{}", a.is_some() as u8));
                ctx.case(&format!("{t}-raw-serde"), true, &format!("{t} oncurve_raw:read_raw {pt}"), &format!("{}", b.is_some() as u8));
                let on = bool::from(p.is_on_curve());
                let same = |q: &Option<$proj>| q.map_or(false, |q| (q.x, q.y, q.z) == (p.x, p.y, p.z));
                if a.is_some() != on || (on && !same(&a)) {
                    crate::fail(ctx, &format!("C11:{t}:from_raw_bytes-projective {pt}"), "from_raw_bytes does not accept exactly the triples on the curve", json!({"bytes": hex_bytes(&raw)}));
                }
                if b.is_some() != on || (on && !same(&b)) {
                    crate::fail_once(
                        ctx,
                        "C11:bn:read_raw-accepts-offcurve",
                        "SerdeObject::read_raw (the checked reader) of the derive/curve.rs types accepts a point that is not on the curve, while from_raw_bytes rejects the same bytes",
                        json!({"type": stringify!($proj), "bytes": hex_bytes(&raw), "point": pt, "from_raw_bytes": a.is_some(), "read_raw": b.is_some()}),
                    );
                }
            }
        }
    };
}
bn_raw!(bn1_raw_serde, "bn1", bn256::G1, bn256::G1Affine, bn256::Fq, crate::curves::Bn1);
bn_raw!(bn2_raw_serde, "bn2", bn256::G2, bn256::G2Affine, bn256::Fq2, crate::curves::Bn2);
