//! Harness-side reference: prime fields and their quadratic extension over `num-bigint`,
//! the affine chord-and-tangent law and the affine twisted-Edwards law. Used for the direct
//! oracle of the property ("agrees with the affine group law evaluated over big integers");
//! the Lean model computes the same law independently.
use num_bigint::BigUint;
use num_traits::{One, Zero};

/// Element of `Fp` (`c1 = None`) or of `Fp[u]/(u²+1)` (`c1 = Some`), always reduced.
#[derive(Clone, Debug, PartialEq, Eq)]
pub struct E {
    pub c0: BigUint,
    pub c1: Option<BigUint>,
}

#[derive(Clone, Debug)]
pub struct Fld {
    pub p: BigUint,
}

fn inv_mod(a: &BigUint, p: &BigUint) -> BigUint {
    if a.is_zero() {
        return BigUint::zero();
    }
    a.modpow(&(p - 2u32), p)
}

impl Fld {
    pub fn new(p: BigUint) -> Self {
        Fld { p }
    }
    pub fn fp(&self, v: BigUint) -> E {
        E { c0: v % &self.p, c1: None }
    }
    pub fn small(&self, like: &E, v: u32) -> E {
        E { c0: BigUint::from(v) % &self.p, c1: like.c1.as_ref().map(|_| BigUint::zero()) }
    }
    fn sub_b(&self, a: &BigUint, b: &BigUint) -> BigUint {
        (a + &self.p - b) % &self.p
    }
    pub fn add(&self, a: &E, b: &E) -> E {
        E {
            c0: (&a.c0 + &b.c0) % &self.p,
            c1: a.c1.as_ref().map(|x| (x + b.c1.as_ref().unwrap()) % &self.p),
        }
    }
    pub fn sub(&self, a: &E, b: &E) -> E {
        E {
            c0: self.sub_b(&a.c0, &b.c0),
            c1: a.c1.as_ref().map(|x| self.sub_b(x, b.c1.as_ref().unwrap())),
        }
    }
    pub fn neg(&self, a: &E) -> E {
        let z = BigUint::zero();
        E { c0: self.sub_b(&z, &a.c0), c1: a.c1.as_ref().map(|x| self.sub_b(&z, x)) }
    }
    pub fn mul(&self, a: &E, b: &E) -> E {
        match (&a.c1, &b.c1) {
            (None, None) => E { c0: (&a.c0 * &b.c0) % &self.p, c1: None },
            (Some(a1), Some(b1)) => E {
                c0: self.sub_b(&((&a.c0 * &b.c0) % &self.p), &((a1 * b1) % &self.p)),
                c1: Some((&a.c0 * b1 + a1 * &b.c0) % &self.p),
            },
            _ => panic!("mixed field elements"),
        }
    }
    pub fn inv(&self, a: &E) -> E {
        match &a.c1 {
            None => E { c0: inv_mod(&a.c0, &self.p), c1: None },
            Some(a1) => {
                let n = inv_mod(&((&a.c0 * &a.c0 + a1 * a1) % &self.p), &self.p);
                E {
                    c0: (&a.c0 * &n) % &self.p,
                    c1: Some(self.sub_b(&BigUint::zero(), &((a1 * &n) % &self.p))),
                }
            }
        }
    }
    pub fn is_zero(&self, a: &E) -> bool {
        a.c0.is_zero() && a.c1.as_ref().map_or(true, |x| x.is_zero())
    }
}

/// Affine Weierstrass point, `None` = infinity.
pub type WP = Option<(E, E)>;

pub fn w_on_curve(f: &Fld, a: &E, b: &E, p: &WP) -> bool {
    match p {
        None => true,
        Some((x, y)) => {
            let rhs = f.add(&f.add(&f.mul(&f.mul(x, x), x), &f.mul(a, x)), b);
            f.mul(y, y) == rhs
        }
    }
}

pub fn w_neg(f: &Fld, p: &WP) -> WP {
    p.as_ref().map(|(x, y)| (x.clone(), f.neg(y)))
}

pub fn w_add(f: &Fld, a: &E, p: &WP, q: &WP) -> WP {
    let (x1, y1) = match p {
        None => return q.clone(),
        Some(v) => v,
    };
    let (x2, y2) = match q {
        None => return p.clone(),
        Some(v) => v,
    };
    let l = if x1 == x2 {
        if f.is_zero(&f.add(y1, y2)) {
            return None;
        }
        let xx = f.mul(x1, x1);
        let num = f.add(&f.add(&f.add(&xx, &xx), &xx), a);
        f.mul(&num, &f.inv(&f.add(y1, y1)))
    } else {
        f.mul(&f.sub(y2, y1), &f.inv(&f.sub(x2, x1)))
    };
    let x3 = f.sub(&f.sub(&f.mul(&l, &l), x1), x2);
    let y3 = f.sub(&f.mul(&l, &f.sub(x1, &x3)), y1);
    Some((x3, y3))
}

pub fn w_mul(f: &Fld, a: &E, k: &BigUint, p: &WP) -> WP {
    let mut acc: WP = None;
    let mut base = p.clone();
    for i in 0..k.bits() {
        if k.bit(i) {
            acc = w_add(f, a, &acc, &base);
        }
        base = w_add(f, a, &base, &base);
    }
    acc
}

/// Affine twisted-Edwards law `a x² + y² = 1 + d x² y²`.
pub fn e_on_curve(f: &Fld, a: &E, d: &E, p: &(E, E)) -> bool {
    let xx = f.mul(&p.0, &p.0);
    let yy = f.mul(&p.1, &p.1);
    let one = f.small(&p.0, 1);
    f.add(&f.mul(a, &xx), &yy) == f.add(&one, &f.mul(d, &f.mul(&xx, &yy)))
}

pub fn e_add(f: &Fld, a: &E, d: &E, p: &(E, E), q: &(E, E)) -> (E, E) {
    let one = f.small(&p.0, 1);
    let k = f.mul(d, &f.mul(&f.mul(&p.0, &q.0), &f.mul(&p.1, &q.1)));
    let xn = f.add(&f.mul(&p.0, &q.1), &f.mul(&p.1, &q.0));
    let yn = f.sub(&f.mul(&p.1, &q.1), &f.mul(a, &f.mul(&p.0, &q.0)));
    (
        f.mul(&xn, &f.inv(&f.add(&one, &k))),
        f.mul(&yn, &f.inv(&f.sub(&one, &k))),
    )
}

pub fn e_neg(f: &Fld, p: &(E, E)) -> (E, E) {
    (f.neg(&p.0), p.1.clone())
}

pub fn e_mul(f: &Fld, a: &E, d: &E, k: &BigUint, p: &(E, E)) -> (E, E) {
    let mut acc = (f.small(&p.0, 0), f.small(&p.0, 1));
    let mut base = p.clone();
    for i in 0..k.bits() {
        if k.bit(i) {
            acc = e_add(f, a, d, &acc, &base);
        }
        base = e_add(f, a, d, &base, &base);
    }
    acc
}

pub fn hex(b: &BigUint) -> String {
    format!("0x{}", b.to_str_radix(16))
}

pub fn tok(e: &E) -> String {
    match &e.c1 {
        None => hex(&e.c0),
        Some(c1) => format!("{}~{}", hex(&e.c0), hex(c1)),
    }
}

pub fn tok_w(p: &WP) -> String {
    match p {
        None => "inf".to_string(),
        Some((x, y)) => format!("{}/{}", tok(x), tok(y)),
    }
}

pub fn tok_pair(p: &(E, E)) -> String {
    format!("{}/{}", tok(&p.0), tok(&p.1))
}

pub fn one() -> BigUint {
    BigUint::one()
}
