//! Structural correspondence for the pure-Rust homogeneous-coordinate types of
//! `derive/curve.rs` (BN254 G1/G2): the raw `(X, Y, Z)` produced by every formula, on valid
//! points in several representations and on arbitrary (off-curve) coordinate triples.
use ff::Field;
use group::{cofactor::CofactorGroup, prime::PrimeCurveAffine, Curve, Group};
use midnight_curves::{bn256, CurveAffine, CurveExt};
use mzkh::Ctx;
use rand::RngCore;
use serde_json::json;

use crate::big;
use crate::wei::{a_tok, a_wp, operands, raw_tok, scalars, FieldTok, ScalarTok, W};

fn opt_raw<C: W>(p: Option<C::P>) -> String {
    p.map_or("none".into(), |p| raw_tok::<C>(&p))
}

pub fn run<C: W>(ctx: &mut Ctx) {
    let t = C::TAG;
    let n_rand = if crate::small(ctx) { 2 } else { 6 };
    let ops = operands::<C>(ctx, n_rand);
    let mut raws: Vec<(C::P, &'static str)> = ops.iter().map(|o| (o.p, "valid")).collect();
    let mut rng = ctx.rng(&format!("{t}-raw"));
    let n_garbage = if crate::small(ctx) { 4 } else { 20 };
    for i in 0..n_garbage {
        let (x, y) = (C::B::random(&mut rng), C::B::random(&mut rng));
        let z = match i % 4 {
            0 => C::B::ZERO,
            1 => C::B::ONE,
            _ => C::B::random(&mut rng),
        };
        raws.push((C::pfrom(x, y, z).unwrap(), "arbitrary-coordinates"));
    }
    for (p, class) in &raws {
        ctx.count(&format!("{t}-raw-operand:{class}"));
        let pt = raw_tok::<C>(p);
        ctx.case(&format!("{t}-raw-dbl"), true, &format!("{t} dblraw {pt}"), &raw_tok::<C>(&p.double()));
        ctx.case(&format!("{t}-raw-neg"), true, &format!("{t} negraw {pt}"), &raw_tok::<C>(&(-*p)));
        ctx.case(&format!("{t}-raw-endo"), true, &format!("{t} endoraw {pt}"), &raw_tok::<C>(&p.endo()));
        ctx.case(&format!("{t}-raw-oncurve"), true, &format!("{t} oncurve_raw {pt}"), &format!("{}", bool::from(p.is_on_curve()) as u8));
        ctx.case(&format!("{t}-raw-toaffine"), true, &format!("{t} toaffine_raw {pt}"), &a_tok::<C>(&p.to_affine()));
        let (x, y, z) = C::pcoords(p);
        let nj: Option<C::P> = C::P::new_jacobian(x, y, z).into();
        ctx.case(&format!("{t}-raw-newjac"), true, &format!("{t} newjac_raw {pt}"), &opt_raw::<C>(nj));
        let pa = p.to_affine();
        ctx.case(&format!("{t}-raw-tocurve"), true, &format!("{t} tocurve {}", a_tok::<C>(&pa)), &raw_tok::<C>(&pa.to_curve()));
        let (ax, ay) = C::acoords(&pa);
        ctx.case(&format!("{t}-raw-oncurve"), true, &format!("{t} oncurve_xy {}/{}", big::tok(&ax.to_e()), big::tok(&ay.to_e())), &format!("{}", bool::from(pa.is_on_curve()) as u8));
        ctx.case(&format!("{t}-raw-oncurve"), true, &format!("{t} oncurve_xy {}/{}", big::tok(&x.to_e()), big::tok(&y.to_e())), &format!("{}", bool::from(C::A::from_xy(x, y).is_some()) as u8));
    }
    let idx: Vec<usize> = if crate::small(ctx) { (0..raws.len()).step_by(2).collect() } else { (0..raws.len()).collect() };
    for &i in &idx {
        for &j in &idx {
            let (p, q) = (raws[i].0, raws[j].0);
            let (pt, qt) = (raw_tok::<C>(&p), raw_tok::<C>(&q));
            ctx.case(&format!("{t}-raw-add"), true, &format!("{t} addraw {pt} {qt}"), &raw_tok::<C>(&(p + q)));
            if raws[j].1 == "valid" {
                let qa = q.to_affine();
                ctx.case(&format!("{t}-raw-mixed"), true, &format!("{t} mixedraw {pt} {}", a_tok::<C>(&qa)), &raw_tok::<C>(&(p + qa)));
            }
        }
        let p = raws[i].0;
        ctx.case(&format!("{t}-raw-add"), true, &format!("{t} addraw:P=Q {0} {0}", raw_tok::<C>(&p)), &raw_tok::<C>(&(p + p)));
        ctx.case(&format!("{t}-raw-add"), true, &format!("{t} addraw:P=-Q {} {}", raw_tok::<C>(&p), raw_tok::<C>(&(-p))), &raw_tok::<C>(&(p + (-p))));
    }
    // raw results of the scalar-multiplication loops
    let scal = scalars::<C>(ctx, if crate::small(ctx) { 1 } else { 4 });
    for (p, class) in raws.iter().step_by(if crate::small(ctx) { 4 } else { 2 }) {
        for (sname, s) in &scal {
            ctx.count(&format!("{t}-raw-scalar:{sname}"));
            let k = big::hex(&s.to_big());
            ctx.case(&format!("{t}-raw-mul"), true, &format!("{t} mulraw {} {k}", raw_tok::<C>(p)), &raw_tok::<C>(&(*p * *s)));
            if *class == "valid" {
                let pa = p.to_affine();
                ctx.case(&format!("{t}-raw-mul"), true, &format!("{t} mulraw_a {} {k}", a_tok::<C>(&pa)), &raw_tok::<C>(&C::a_mul(&pa, s)));
            }
        }
    }
    let _ = rng.next_u32();
    // Curve::batch_normalize and Sum on raw triples: identities / arbitrary Z = 0 triples at every
    // position (the two passes skip them), all lengths 0..=7 in the quick tier
    let n = raws.len();
    let max_len = if crate::small(ctx) { 7 } else { 24 };
    for len in 0..=max_len {
        for variant in 0..(if len == 0 { 1 } else { 3 }) {
            let pts: Vec<C::P> = (0..len).map(|i| raws[(i * 7 + len * 3 + variant * 5) % n].0).collect();
            let toks: Vec<String> = pts.iter().map(raw_tok::<C>).collect();
            let nz = pts.iter().filter(|p| bool::from(p.is_identity())).count();
            ctx.count(&format!("{t}-batch:len{len}:identities{}", nz.min(3)));
            let mut out = vec![C::A::identity(); len];
            match mzkh::catch(|| {
                C::P::batch_normalize(&pts, &mut out);
                out.clone()
            }) {
                Err(msg) => crate::fail_once(ctx, &format!("C11:{t}:batch_normalize-panics-len{len}"), "Curve::batch_normalize panics", json!({"len": len, "panic": msg, "points": toks})),
                Ok(out) => {
                    if len > 0 {
                        ctx.case(&format!("{t}-raw-batch-normalize"), true, &format!("{t} bnorm_raw {}", toks.join(" ")), &out.iter().map(a_tok::<C>).collect::<Vec<_>>().join(" "));
                    }
                    for (i, p) in pts.iter().enumerate() {
                        if out[i] != p.to_affine() {
                            crate::fail(ctx, &format!("C11:{t}:batch_normalize-raw {} [{i}]", toks.join(" ")), "batch_normalize differs from to_affine on one entry of a slice", json!({"index": i, "len": len}));
                        }
                    }
                }
            }
            if len > 0 {
                let s: C::P = pts.iter().sum();
                ctx.case(&format!("{t}-raw-sum"), true, &format!("{t} sumraw {}", toks.join(" ")), &raw_tok::<C>(&s));
                let s2: C::P = pts.iter().copied().sum();
                if C::pcoords(&s) != C::pcoords(&s2) {
                    crate::fail(ctx, &format!("C11:{t}:sum-owned {}", toks.join(" ")), "Sum over references and over values differ", json!({}));
                }
            }
        }
    }
}

/// BN254 G2 only: the `CofactorGroup` methods.
pub fn run_g2_cofactor(ctx: &mut Ctx) {
    use crate::curves::Bn2;
    let ops = operands::<Bn2>(ctx, if crate::small(ctx) { 2 } else { 6 });
    let f = Bn2::fld();
    let zero = f.small(&bn256::G2::b().to_e(), 0);
    for o in &ops {
        let p = o.p;
        let pw = a_wp::<Bn2>(&p.to_affine());
        let pt = big::tok_w(&pw);
        let tf = bool::from(p.is_torsion_free());
        let law = big::w_mul(&f, &zero, &Bn2::order(), &pw).is_none();
        ctx.case("bn2-torsion", true, &format!("bn2 tf {pt}"), &format!("{}", tf as u8));
        ctx.count(&format!("bn2-torsion-free:{tf}"));
        if tf != law {
            crate::fail(ctx, &format!("C11:bn2:tf {pt}"), "is_torsion_free disagrees with r·P by the affine law", json!({"point": pt}));
        }
        let c = p.clear_cofactor();
        let cw = a_wp::<Bn2>(&c.to_affine());
        ctx.case("bn2-clear-cofactor", true, &format!("bn2 tf:clear_cofactor {}", big::tok_w(&cw)), &format!("{}", bool::from(c.is_torsion_free()) as u8));
        if big::w_mul(&f, &zero, &Bn2::order(), &cw).is_some() {
            crate::fail(ctx, &format!("C11:bn2:clear_cofactor {pt}"), "clear_cofactor returns a point outside the prime-order subgroup", json!({"point": pt}));
        }
    }
}
