//! Jubjub: `JubjubExtended`, `JubjubAffine`, `JubjubSubgroup`, Niels forms, 32-byte codec.
//! Raw coordinates come from the `verif-hooks` accessors so that the model is compared on the
//! exact `(U, V, Z, T1, T2)` the Rust formulas produce, not only on the affine value.
use ff::Field;
use group::{
    cofactor::{CofactorCurveAffine, CofactorGroup},
    Curve, Group, GroupEncoding,
};
use midnight_curves::{
    Fq as Base, Fr, JubjubAffine, JubjubExtended, JubjubSubgroup, EDWARDS_D,
};
use mzkh::Ctx;
use num_bigint::BigUint;
use rand::RngCore;
use serde_json::json;

use crate::big::{self, Fld, E};

pub fn b2big(b: &Base) -> BigUint {
    BigUint::from_bytes_le(&b.to_bytes_le())
}
pub fn big2b(v: &BigUint) -> Base {
    let mut bytes = [0u8; 32];
    let le = v.to_bytes_le();
    bytes[..le.len()].copy_from_slice(&le);
    Base::from_bytes_le(&bytes).unwrap()
}
fn bt(b: &Base) -> String {
    big::hex(&b2big(b))
}
pub fn ext_tok(p: &JubjubExtended) -> String {
    p.verif_raw().iter().map(bt).collect::<Vec<_>>().join("/")
}
pub fn aff_tok(p: &JubjubAffine) -> String {
    format!("{}/{}", bt(&p.get_u()), bt(&p.get_v()))
}
fn aff_e(f: &Fld, p: &JubjubAffine) -> (E, E) {
    (f.fp(b2big(&p.get_u())), f.fp(b2big(&p.get_v())))
}
pub fn bu(x: u32) -> BigUint {
    BigUint::from(x)
}
fn hex_bytes(b: &[u8]) -> String {
    b.iter().map(|x| format!("{x:02x}")).collect()
}

pub fn jj_r() -> BigUint {
    BigUint::parse_bytes(b"0e7db4ea6533afa906673b0101343b00a6682093ccc81082d0970e5ed6f72cb7", 16).unwrap()
}
fn le32(v: &BigUint) -> [u8; 32] {
    let mut bytes = [0u8; 32];
    let le = v.to_bytes_le();
    bytes[..le.len()].copy_from_slice(&le);
    bytes
}

struct Env {
    f: Fld,
    a: E,
    d: E,
}

impl Env {
    fn new() -> Env {
        let q = BigUint::parse_bytes(
            b"73eda753299d7d483339d80809a1d80553bda402fffe5bfeffffffff00000001",
            16,
        )
        .unwrap();
        let f = Fld::new(q.clone());
        let a = f.fp(q.clone() - bu(1));
        let d = f.fp(b2big(&EDWARDS_D));
        Env { f, a, d }
    }
    fn law(&self, p: &(E, E), q: &(E, E)) -> (E, E) {
        big::e_add(&self.f, &self.a, &self.d, p, q)
    }
}

/// Structural sanity of a raw extended point: `Z ≠ 0`, on the curve, `T1·T2·Z = U·V`.
fn ext_wellformed(env: &Env, p: &JubjubExtended) -> bool {
    let r = p.verif_raw();
    if bool::from(r[2].is_zero()) {
        return false;
    }
    let a = JubjubAffine::from(p);
    big::e_on_curve(&env.f, &env.a, &env.d, &aff_e(&env.f, &a)) && r[3] * r[4] * r[2] == r[0] * r[1]
}

/// Emit one binary/unary operation: raw result + affine value; oracle = affine law.
fn emit(ctx: &mut Ctx, env: &Env, kind: &str, line: String, res: &JubjubExtended, spec: &(E, E), nontrivial: bool) {
    let aff = JubjubAffine::from(res);
    ctx.case(kind, nontrivial, &line, &format!("{} {}", ext_tok(res), aff_tok(&aff)));
    if aff_e(&env.f, &aff) != *spec || !ext_wellformed(env, res) {
        crate::fail(ctx, 
            &format!("C11:jj:{}", line),
            "Jubjub operation disagrees with the affine twisted-Edwards law over big integers (or yields a malformed extended point)",
            json!({"op": line, "impl_raw": ext_tok(res), "impl_affine": aff_tok(&aff), "law": big::tok_pair(spec)}),
        );
    }
}

fn variant_eq(ctx: &mut Ctx, line: &str, a: &JubjubExtended, b: &JubjubExtended) {
    if a.verif_raw() != b.verif_raw() {
        crate::fail(ctx, 
            &format!("C11:jj:variant:{}", line),
            "two forms of the same Jubjub operation (operator overload / in-place / newtype) give different results",
            json!({"op": line, "a": ext_tok(a), "b": ext_tok(b)}),
        );
    }
}

pub struct Operand {
    pub class: &'static str,
    pub p: JubjubExtended,
}

pub fn operands(ctx: &Ctx, n_rand: usize) -> Vec<Operand> {
    let mut rng = ctx.rng("jj-operands");
    let mut v = vec![];
    let id = JubjubExtended::identity();
    let g = JubjubExtended::generator();
    v.push(Operand { class: "identity", p: id });
    v.push(Operand { class: "generator", p: g });
    let sg: JubjubExtended = JubjubSubgroup::generator().into();
    v.push(Operand { class: "subgroup-generator", p: sg });
    // 8-torsion: r·P for random P until the order is 8
    let rbytes = le32(&jj_r());
    let t8 = loop {
        let p = JubjubExtended::random(&mut rng);
        let t = p.to_niels().multiply_bits(&rbytes);
        if !bool::from(t.double().double().is_identity()) {
            break t;
        }
    };
    let mut t = t8;
    for k in 1..8 {
        let class = match k {
            4 => "order-2",
            2 | 6 => "order-4",
            _ => "order-8",
        };
        v.push(Operand { class, p: t });
        // canonical Z = 1 form of the same small-order point
        v.push(Operand { class, p: JubjubAffine::from(t).into() });
        t += t8;
    }
    for i in 0..n_rand {
        let p = JubjubExtended::random(&mut rng);
        v.push(Operand { class: "random-full-group", p });
        let s = p.clear_cofactor();
        v.push(Operand { class: "random-subgroup", p: s.into() });
        if i % 2 == 0 {
            // a subgroup point plus a small-order point: on the curve, outside the subgroup
            v.push(Operand { class: "subgroup+torsion", p: JubjubExtended::from(s) + t8 });
        }
    }
    // other representations of existing points: scaled coordinates, T split differently
    let base: Vec<JubjubExtended> = vec![id, g, sg, v[v.len() - 1].p, v[v.len() - 2].p];
    for p in base {
        let l = Base::random(&mut rng);
        for lam in [l, -Base::ONE] {
            let r = p.verif_raw();
            v.push(Operand {
                class: "rescaled",
                p: JubjubExtended::verif_from_raw([r[0] * lam, r[1] * lam, r[2] * lam, r[3] * lam, r[4]]),
            });
            v.push(Operand {
                class: "rescaled",
                p: JubjubExtended::verif_from_raw([r[0] * lam, r[1] * lam, r[2] * lam, r[3], r[4] * lam]),
            });
        }
    }
    v
}

pub fn scalars(ctx: &Ctx, n_rand: usize) -> Vec<(&'static str, Fr)> {
    let mut rng = ctx.rng("jj-scalars");
    let mut v = vec![
        ("zero", Fr::ZERO),
        ("one", Fr::ONE),
        ("two", Fr::from(2u64)),
        ("eight", Fr::from(8u64)),
        ("r-1", -Fr::ONE),
        ("r-2", -Fr::from(2u64)),
        ("(r-1)/2", (-Fr::ONE) * Fr::from(2u64).invert().unwrap()),
    ];
    // r-adjacent via bytes: wide reduction of r, r+1, 2r-1, 2^256-1, 2^512-1
    let r = jj_r();
    for (name, val) in [
        ("wide:r", r.clone()),
        ("wide:r+1", r.clone() + bu(1)),
        ("wide:2r-1", r.clone() * bu(2) - bu(1)),
        ("wide:2^256-1", (bu(1) << 256usize) - bu(1)),
        ("wide:2^512-1", (bu(1) << 512usize) - bu(1)),
    ] {
        let mut wide = [0u8; 64];
        let le = val.to_bytes_le();
        wide[..le.len()].copy_from_slice(&le);
        v.push((name, Fr::from_bytes_wide(&wide)));
    }
    for _ in 0..n_rand {
        v.push(("random", Fr::random(&mut rng)));
    }
    v
}

fn fr_big(s: &Fr) -> BigUint {
    BigUint::from_bytes_le(&s.to_bytes())
}

pub fn run(ctx: &mut Ctx) {
    let env = Env::new();
    let (n_rand, n_pairs_rand, n_scal) = if crate::small(ctx) { (3 * crate::extra(ctx), 40 * crate::extra(ctx), 3) } else { (10, 600, 12) };
    let ops = operands(ctx, n_rand);
    for o in &ops {
        ctx.count(&format!("jj-operand:{}", o.class));
    }

    // constants and constructors
    ctx.case("jj-const", true, "jj gen", &aff_tok(&JubjubAffine::generator()));
    ctx.case("jj-const", false, "jj ident", &ext_tok(&JubjubExtended::identity()));
    ctx.case(
        "jj-const",
        false,
        "jj ident:default",
        &ext_tok(&JubjubExtended::default()),
    );
    if JubjubAffine::identity() != JubjubAffine::default()
        || !bool::from(JubjubAffine::identity().is_identity())
        || JubjubSubgroup::identity() != JubjubSubgroup::default()
    {
        crate::fail(ctx, "C11:jj:identity", "Jubjub identity constructors disagree", json!({}));
    }
    {
        // JubjubSubgroup::generator = generator.clear_cofactor
        let sg: JubjubExtended = JubjubSubgroup::generator().into();
        let g = JubjubExtended::generator();
        let ga = aff_e(&env.f, &JubjubAffine::from(g));
        let spec = big::e_mul(&env.f, &env.a, &env.d, &BigUint::from(8u32), &ga);
        emit(ctx, &env, "jj-cof", format!("jj cof:subgroup-generator {}", ext_tok(&g)), &sg, &spec, true);
    }

    // unary operations on every operand
    for o in &ops {
        let p = o.p;
        let pa = JubjubAffine::from(p);
        let pe = aff_e(&env.f, &pa);
        let pt = ext_tok(&p);
        let nt = o.class != "identity";
        emit(ctx, &env, "jj-dbl", format!("jj dbl {pt}"), &p.double(), &env.law(&pe, &pe), nt);
        variant_eq(ctx, "dbl:group", &p.double(), &<JubjubExtended as Group>::double(&p));
        emit(ctx, &env, "jj-neg", format!("jj neg {pt}"), &(-p), &big::e_neg(&env.f, &pe), nt);
        ctx.case("jj-neg", nt, &format!("jj neg_a {}", aff_tok(&pa)), &aff_tok(&(-pa)));
        let spec8 = big::e_mul(&env.f, &env.a, &env.d, &BigUint::from(8u32), &pe);
        emit(ctx, &env, "jj-cof", format!("jj cof {pt}"), &p.mul_by_cofactor(), &spec8, nt);
        variant_eq(ctx, "cof:clear_cofactor", &p.mul_by_cofactor(), &p.clear_cofactor().into());
        variant_eq(ctx, "cof:affine", &JubjubExtended::from(pa).mul_by_cofactor(), &pa.mul_by_cofactor());
        ctx.case("jj-aff", nt, &format!("jj aff {pt}"), &aff_tok(&pa));
        ctx.case("jj-aff", nt, &format!("jj aff:to_affine {pt}"), &aff_tok(&p.to_affine()));
        ctx.case("jj-of-affine", nt, &format!("jj of_affine {}", aff_tok(&pa)), &ext_tok(&JubjubExtended::from(pa)));
        ctx.case("jj-of-affine", nt, &format!("jj of_affine:to_extended {}", aff_tok(&pa)), &ext_tok(&pa.to_extended()));
        ctx.case("jj-of-affine", nt, &format!("jj of_affine:to_curve {}", aff_tok(&pa)), &ext_tok(&pa.to_curve()));
        let n = p.to_niels().verif_raw();
        ctx.case("jj-niels", nt, &format!("jj niels_e {pt}"), &n.iter().map(bt).collect::<Vec<_>>().join("/"));
        let n = pa.to_niels().verif_raw();
        ctx.case("jj-niels", nt, &format!("jj niels_a {}", aff_tok(&pa)), &n.iter().map(bt).collect::<Vec<_>>().join("/"));
        // predicates
        let is_id = bool::from(p.is_identity());
        ctx.case("jj-pred", nt, &format!("jj isid {pt}"), &format!("{}", is_id as u8));
        if is_id != bool::from(pa.is_identity()) || is_id != (pe == (env.f.fp(0u32.into()), env.f.fp(1u32.into()))) {
            crate::fail(ctx, &format!("C11:jj:isid {pt}"), "is_identity disagrees with the affine value", json!({"p": pt}));
        }
        let small = bool::from(p.is_small_order());
        ctx.case("jj-pred", nt, &format!("jj small {pt}"), &format!("{}", small as u8));
        let tf = bool::from(p.is_torsion_free());
        let tf_law = big::e_mul(&env.f, &env.a, &env.d, &jj_r(), &pe) == (env.f.fp(0u32.into()), env.f.fp(1u32.into()));
        ctx.case("jj-pred", nt, &format!("jj tf {pt}"), &format!("{} {}", tf as u8, tf_law as u8));
        ctx.count(&format!("jj-torsion-free:{}", tf));
        let small_law = spec8 == (env.f.fp(0u32.into()), env.f.fp(1u32.into()));
        if tf != tf_law
            || small != small_law
            || tf != bool::from(pa.is_torsion_free())
            || tf != bool::from(<JubjubExtended as CofactorGroup>::is_torsion_free(&p))
            || small != bool::from(pa.is_small_order())
            || bool::from(p.into_subgroup().is_some()) != tf
        {
            crate::fail(ctx, &format!("C11:jj:tf {pt}"), "torsion / small-order predicate disagrees with r·P (8·P) by the affine law", json!({"p": pt, "tf": tf, "tf_law": tf_law, "small": small, "small_law": small_law}));
        }
        let prime = bool::from(p.is_prime_order());
        ctx.case("jj-pred", nt, &format!("jj prime {pt}"), &format!("{}", prime as u8));
        if prime != bool::from(pa.is_prime_order()) {
            crate::fail(ctx, &format!("C11:jj:prime {pt}"), "is_prime_order differs between affine and extended", json!({"p": pt}));
        }
    }

    // binary operations: all pairs of a core set, P=Q, P=-Q for all, plus random pairs
    let mut pairs: Vec<(usize, usize, &'static str)> = vec![];
    let core: Vec<usize> = (0..ops.len()).filter(|i| {
        let c = ops[*i].class;
        !crate::small(ctx) || c != "rescaled" || i % 3 == 0
    }).collect();
    let core: Vec<usize> = if crate::small(ctx) { core.into_iter().step_by(2).collect() } else { core };
    for &i in &core {
        for &j in &core {
            pairs.push((i, j, "grid"));
        }
    }
    let mut extra_ops: Vec<Operand> = vec![];
    for o in &ops {
        // the same point in a different representation, and its negation
        extra_ops.push(Operand { class: "P=Q other repr", p: JubjubAffine::from(o.p).into() });
        extra_ops.push(Operand { class: "P=-Q", p: -o.p });
        extra_ops.push(Operand { class: "P=2Q", p: o.p.double() });
    }
    let mut rng = ctx.rng("jj-pairs");
    let all: Vec<&Operand> = ops.iter().chain(extra_ops.iter()).collect();
    let mut pair_list: Vec<(JubjubExtended, JubjubExtended, String)> = vec![];
    for (i, j, tag) in pairs {
        pair_list.push((ops[i].p, ops[j].p, format!("{}:{}x{}", tag, ops[i].class, ops[j].class)));
    }
    for (k, o) in ops.iter().enumerate() {
        pair_list.push((o.p, o.p, "P=Q".into()));
        for e in 0..3 {
            pair_list.push((o.p, extra_ops[3 * k + e].p, extra_ops[3 * k + e].class.into()));
            pair_list.push((extra_ops[3 * k + e].p, o.p, extra_ops[3 * k + e].class.into()));
        }
    }
    for _ in 0..n_pairs_rand {
        let i = (rng.next_u32() as usize) % all.len();
        let j = (rng.next_u32() as usize) % all.len();
        pair_list.push((all[i].p, all[j].p, "random-pair".into()));
    }
    for (p, q, class) in &pair_list {
        ctx.count(&format!("jj-pair:{}", class.split(':').next().unwrap()));
        let (p, q) = (*p, *q);
        let (pa, qa) = (JubjubAffine::from(p), JubjubAffine::from(q));
        let (pe, qe) = (aff_e(&env.f, &pa), aff_e(&env.f, &qa));
        let (pt, qt) = (ext_tok(&p), ext_tok(&q));
        let sum = env.law(&pe, &qe);
        let diff = env.law(&pe, &big::e_neg(&env.f, &qe));
        let r = p + q;
        emit(ctx, &env, "jj-add", format!("jj add_ee {pt} {qt}"), &r, &sum, true);
        variant_eq(ctx, "add_ee:&", &r, &(&p + &q));
        let mut t = p;
        t += q;
        variant_eq(ctx, "add_ee:+=", &r, &t);
        let mut t = p;
        t += &q;
        variant_eq(ctx, "add_ee:+=&", &r, &t);
        variant_eq(ctx, "add_ee:niels", &r, &(p + q.to_niels()));
        let r = p - q;
        emit(ctx, &env, "jj-sub", format!("jj sub_ee {pt} {qt}"), &r, &diff, true);
        let mut t = p;
        t -= q;
        variant_eq(ctx, "sub_ee:-=", &r, &t);
        variant_eq(ctx, "sub_ee:niels", &r, &(p - q.to_niels()));
        // mixed
        let r = p + qa;
        emit(ctx, &env, "jj-add", format!("jj add_ea {pt} {}", aff_tok(&qa)), &r, &sum, true);
        variant_eq(ctx, "add_ea:niels", &r, &(p + qa.to_niels()));
        let mut t = p;
        t += qa;
        variant_eq(ctx, "add_ea:+=", &r, &t);
        let r = p - qa;
        emit(ctx, &env, "jj-sub", format!("jj sub_ea {pt} {}", aff_tok(&qa)), &r, &diff, true);
        variant_eq(ctx, "sub_ea:niels", &r, &(p - qa.to_niels()));
        emit(ctx, &env, "jj-add", format!("jj add_aa {} {}", aff_tok(&pa), aff_tok(&qa)), &(pa + qa), &sum, true);
        emit(ctx, &env, "jj-sub", format!("jj sub_aa {} {}", aff_tok(&pa), aff_tok(&qa)), &(pa - qa), &diff, true);
        // equality
        let eq = p == q;
        let eq_aff = pe == qe;
        ctx.case("jj-eq", true, &format!("jj eq {pt} {qt}"), &format!("{} {}", eq as u8, eq_aff as u8));
        if eq != eq_aff || eq != bool::from(subtle::ConstantTimeEq::ct_eq(&p, &q)) || (pa == qa) != eq_aff {
            crate::fail(ctx, &format!("C11:jj:eq {pt} {qt}"), "equality of extended points differs from equality of their affine values", json!({"p": pt, "q": qt}));
        }
        // subgroup newtype
        if let (Some(ps), Some(qs)) = (Option::<JubjubSubgroup>::from(p.into_subgroup()), Option::<JubjubSubgroup>::from(q.into_subgroup())) {
            variant_eq(ctx, "add_ee:subgroup", &(p + q), &(ps + qs).into());
            variant_eq(ctx, "sub_ee:subgroup", &(p - q), &(ps - qs).into());
            variant_eq(ctx, "add_ee:ext+subgroup", &(p + q), &(p + qs));
            variant_eq(ctx, "sub_ee:ext-subgroup", &(p - q), &(p - qs));
            variant_eq(ctx, "neg:subgroup", &(-p), &(-ps).into());
            variant_eq(ctx, "dbl:subgroup", &p.double(), &ps.double().into());
            ctx.count("jj-subgroup-variants");
        }
    }

    // scalar multiplication
    let scal = scalars(ctx, n_scal);
    let mul_ops: Vec<&Operand> = if crate::small(ctx) { ops.iter().step_by(3).collect() } else { ops.iter().collect() };
    for o in &mul_ops {
        let p = o.p;
        let pa = JubjubAffine::from(p);
        let pe = aff_e(&env.f, &pa);
        for (sname, s) in &scal {
            ctx.count(&format!("jj-scalar:{}", sname.split(':').next().unwrap()));
            let k = fr_big(s);
            let spec = big::e_mul(&env.f, &env.a, &env.d, &k, &pe);
            let r = p * s;
            emit(ctx, &env, "jj-mul", format!("jj mul_e {} {}", ext_tok(&p), big::hex(&k)), &r, &spec, true);
            variant_eq(ctx, "mul_e:&", &r, &(&p * s));
            let mut t = p;
            t *= s;
            variant_eq(ctx, "mul_e:*=", &r, &t);
            variant_eq(ctx, "mul_e:niels", &r, &(p.to_niels() * s));
            variant_eq(ctx, "mul_e:multiply_bits", &r, &p.to_niels().multiply_bits(&s.to_bytes()));
            if let Some(ps) = Option::<JubjubSubgroup>::from(p.into_subgroup()) {
                variant_eq(ctx, "mul_e:subgroup", &r, &(ps * s).into());
            }
            let r = pa * s;
            emit(ctx, &env, "jj-mul", format!("jj mul_a {} {}", aff_tok(&pa), big::hex(&k)), &r, &spec, true);
            variant_eq(ctx, "mul_a:niels", &r, &(pa.to_niels() * s));
        }
        // raw bit patterns (top four bits ignored by the code)
        let r = jj_r();
        let mut pats: Vec<(&str, BigUint)> = vec![
            ("bits:r", r.clone()),
            ("bits:r+1", r.clone() + bu(1)),
            ("bits:2^252-1", (bu(1) << 252usize) - bu(1)),
            ("bits:2^252", bu(1) << 252usize),
            ("bits:2^256-1", (bu(1) << 256usize) - bu(1)),
        ];
        let mut rb = [0u8; 32];
        ctx.rng(&format!("jj-bits-{}", ext_tok(&p))).fill_bytes(&mut rb);
        pats.push(("bits:random256", BigUint::from_bytes_le(&rb)));
        for (name, k) in pats {
            ctx.count(&format!("jj-scalar:{}", name));
            let bytes = le32(&k);
            let kk = k.clone() % (bu(1) << 252usize);
            let spec = big::e_mul(&env.f, &env.a, &env.d, &kk, &pe);
            emit(ctx, &env, "jj-mul", format!("jj mul_e:multiply_bits {} {}", ext_tok(&p), big::hex(&k)), &p.to_niels().multiply_bits(&bytes), &spec, true);
            emit(ctx, &env, "jj-mul", format!("jj mul_a:multiply_bits {} {}", aff_tok(&pa), big::hex(&k)), &pa.to_niels().multiply_bits(&bytes), &spec, true);
        }
    }

    // sums and batch normalisation
    let lens: Vec<usize> = if crate::small(ctx) { vec![0, 1, 2, 5] } else { vec![0, 1, 2, 3, 7, 16, 33] };
    for (n, len) in lens.iter().enumerate() {
        let mut rng = ctx.rng(&format!("jj-sum-{n}"));
        let pts: Vec<JubjubExtended> = (0..*len).map(|_| all[(rng.next_u32() as usize) % all.len()].p).collect();
        let toks: Vec<String> = pts.iter().map(ext_tok).collect();
        let s: JubjubExtended = pts.iter().sum();
        let mut spec = (env.f.fp(0u32.into()), env.f.fp(1u32.into()));
        for p in &pts {
            spec = env.law(&spec, &aff_e(&env.f, &JubjubAffine::from(p)));
        }
        emit(ctx, &env, "jj-sum", format!("jj sum {}", toks.join(" ")), &s, &spec, *len > 1);
        let s2: JubjubExtended = pts.iter().copied().sum();
        variant_eq(ctx, "sum:owned", &s, &s2);
        let mut out = vec![JubjubAffine::identity(); *len];
        JubjubExtended::batch_normalize(&pts, &mut out);
        ctx.case("jj-batch-normalize", *len > 1, &format!("jj bn {}", toks.join(" ")), &out.iter().map(aff_tok).collect::<Vec<_>>().join(" "));
        let mut copy = pts.clone();
        let out2: Vec<JubjubAffine> = midnight_curves::batch_normalize(&mut copy).collect();
        ctx.case("jj-batch-normalize", *len > 1, &format!("jj bn:free-fn {}", toks.join(" ")), &out2.iter().map(aff_tok).collect::<Vec<_>>().join(" "));
        for (i, p) in pts.iter().enumerate() {
            if out[i] != JubjubAffine::from(p) || out2[i] != out[i] || copy[i] != *p || copy[i].verif_raw()[2] != Base::ONE {
                crate::fail(ctx, &format!("C11:jj:bn {}", toks.join(" ")), "batch_normalize differs from to_affine", json!({"index": i}));
            }
        }
    }

    codec(ctx, &env, &ops);
}

fn decode_all(ctx: &mut Ctx, env: &Env, class: &str, b: [u8; 32]) {
    let h = hex_bytes(&b);
    let fmt = |p: Option<JubjubAffine>| p.map_or("none".to_string(), |p| aff_tok(&p));
    let d: Option<JubjubAffine> = JubjubAffine::from_bytes(b).into();
    ctx.count(&format!("jj-dec:{}:{}", class, if d.is_some() { "accept" } else { "reject" }));
    ctx.case("jj-dec", true, &format!("jj dec {h}"), &fmt(d));
    let d2: Option<JubjubAffine> = <JubjubAffine as GroupEncoding>::from_bytes(&b).into();
    let d3: Option<JubjubAffine> = <JubjubAffine as GroupEncoding>::from_bytes_unchecked(&b).into();
    let d4: Option<JubjubExtended> = <JubjubExtended as GroupEncoding>::from_bytes(&b).into();
    let d5: Option<JubjubExtended> = <JubjubExtended as GroupEncoding>::from_bytes_unchecked(&b).into();
    let d6: Option<JubjubAffine> = JubjubAffine::batch_from_bytes([b].into_iter())[0].into();
    let d7: Option<JubjubSubgroup> = <JubjubSubgroup as GroupEncoding>::from_bytes_unchecked(&b).into();
    let same = d2 == d && d3 == d && d6 == d
        && d4.map(|p| p.verif_raw()) == d.map(|p| JubjubExtended::from(p).verif_raw())
        && d5.map(|p| p.verif_raw()) == d4.map(|p| p.verif_raw())
        && d7.map(|p| JubjubExtended::from(p).verif_raw()) == d4.map(|p| p.verif_raw());
    if !same {
        crate::fail(ctx, &format!("C11:jj:dec-variants {h}"), "the Jubjub decoders (affine / extended / batch / unchecked) disagree on one byte string", json!({"bytes": h}));
    }
    let pre: Option<JubjubAffine> = JubjubAffine::from_bytes_pre_zip216_compatibility(b).into();
    ctx.case("jj-dec", true, &format!("jj dec_pre216 {h}"), &fmt(pre));
    let sub: Option<JubjubSubgroup> = <JubjubSubgroup as GroupEncoding>::from_bytes(&b).into();
    ctx.case("jj-dec", true, &format!("jj dec_sub {h}"), &fmt(sub.map(|s| JubjubAffine::from(JubjubExtended::from(s)))));
    // the property: accepted => on curve, canonical (re-encoding gives the input); subgroup decoder => torsion free
    if let Some(p) = d {
        let pe = aff_e(&env.f, &p);
        if !big::e_on_curve(&env.f, &env.a, &env.d, &pe) || p.to_bytes() != b {
            crate::fail(ctx, &format!("C11:jj:dec {h}"), "JubjubAffine::from_bytes accepts an off-curve or non-canonical encoding", json!({"bytes": h, "decoded": aff_tok(&p), "reencoded": hex_bytes(&p.to_bytes())}));
        }
    }
    if let Some(s) = sub {
        let p = JubjubAffine::from(JubjubExtended::from(s));
        let pe = aff_e(&env.f, &p);
        let id = (env.f.fp(0u32.into()), env.f.fp(1u32.into()));
        if big::e_mul(&env.f, &env.a, &env.d, &jj_r(), &pe) != id || d.is_none() {
            crate::fail(ctx, &format!("C11:jj:dec_sub {h}"), "JubjubSubgroup::from_bytes accepts a point outside the prime-order subgroup", json!({"bytes": h}));
        }
    }
}

fn codec(ctx: &mut Ctx, env: &Env, ops: &[Operand]) {
    // encoders and round trips
    for o in ops {
        let p = o.p;
        let pa = JubjubAffine::from(p);
        let b = pa.to_bytes();
        ctx.case("jj-enc", true, &format!("jj enc {}", aff_tok(&pa)), &hex_bytes(&b));
        if <JubjubAffine as GroupEncoding>::to_bytes(&pa) != b || <JubjubExtended as GroupEncoding>::to_bytes(&p) != b {
            crate::fail(ctx, &format!("C11:jj:enc-variants {}", aff_tok(&pa)), "Jubjub encoders disagree", json!({}));
        }
        let back: Option<JubjubAffine> = JubjubAffine::from_bytes(b).into();
        if back != Some(pa) {
            crate::fail(ctx, &format!("C11:jj:roundtrip {}", aff_tok(&pa)), "from_bytes(to_bytes(P)) != P for a point on the curve", json!({"p": aff_tok(&pa), "bytes": hex_bytes(&b)}));
        }
        decode_all(ctx, env, &format!("valid:{}", o.class), b);
    }
    // corruptions of valid encodings
    let bits: Vec<usize> = if crate::small(ctx) { vec![0, 1, 7, 8, 100, 248, 252, 253, 254, 255] } else { (0..256).collect() };
    let n_src = if crate::small(ctx) { 3 } else { 8 };
    for o in ops.iter().filter(|o| o.class.starts_with("random") || o.class == "generator").take(n_src) {
        let b = JubjubAffine::from(o.p).to_bytes();
        for &bit in &bits {
            let mut c = b;
            c[bit / 8] ^= 1 << (bit % 8);
            decode_all(ctx, env, "bitflip", c);
        }
    }
    // non-canonical / boundary encodings
    let q = env.f.p.clone();
    let two255 = bu(1) << 255usize;
    let mut special: Vec<(&str, BigUint)> = vec![
        ("v=0", 0u32.into()),
        ("v=1", 1u32.into()),
        ("v=1,sign (ZIP216)", two255.clone() + bu(1)),
        ("v=-1", q.clone() - bu(1)),
        ("v=-1,sign (ZIP216)", two255.clone() + q.clone() - bu(1)),
        ("v=q", q.clone()),
        ("v=q+1", q.clone() + bu(1)),
        ("v=q,sign", two255.clone() + q.clone()),
        ("v=2^255-1", two255.clone() - bu(1)),
        ("all-ones", (bu(1) << 256usize) - bu(1)),
        ("v=q-2", q.clone() - bu(2)),
        ("v=2", 2u32.into()),
        ("v=0,sign", two255.clone()),
    ];
    // v + q when it still fits in 255 bits: alias of a valid encoding
    let g = BigUint::from_bytes_le(&JubjubAffine::generator().to_bytes());
    special.push(("gen+q (alias)", g + q.clone()));
    for (name, v) in special {
        decode_all(ctx, env, &format!("special:{name}"), le32(&v));
    }
    let n = if crate::small(ctx) { 60 } else { 2000 };
    let mut rng = ctx.rng("jj-random-bytes");
    for _ in 0..n {
        let mut b = [0u8; 32];
        rng.fill_bytes(&mut b);
        decode_all(ctx, env, "random-bytes", b);
        b[31] &= 0x7f;
        b[31] |= 0x70; // dense around the modulus
        decode_all(ctx, env, "random-bytes-high", b);
    }
}
