//! Correspondence harness of property C11 (stub).
use mzkh::Ctx;

fn main() {
    let ctx = Ctx::from_args("C11");
    ctx.finish();
}
