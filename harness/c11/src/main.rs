//! Correspondence harness of property C11 (curve types implement the group law; encodings are
//! canonical and checked). Runs the real `midnight-curves` types on structured operand classes,
//! prints canonical answers for the Lean model `mzk-c11`, and checks the property directly
//! against an affine group law over `num-bigint` (module `big`).
mod big;
mod bn;
mod cover;
mod curves;
mod ed;
mod extra;
mod jj;
mod secp;
mod wei;

use mzkh::Ctx;

thread_local! {
    static REPORTED: std::cell::RefCell<std::collections::HashSet<String>> = Default::default();
}

/// Small parameter set: the quick tier, and the failing-input search (which reruns the same
/// operand classes with more random operands, see `extra`).
pub fn small(ctx: &Ctx) -> bool {
    ctx.quick() || ctx.search()
}

/// Multiplier for the number of random operands / pairs.
pub fn extra(ctx: &Ctx) -> usize {
    if ctx.search() {
        3
    } else {
        1
    }
}

thread_local! {
    static PER_KIND: std::cell::RefCell<std::collections::HashMap<String, usize>> = Default::default();
}

/// `oracle_fail` with at most three witnesses per kind of failure (the rest is only counted):
/// one broken formula fails on hundreds of operand pairs, three replays are enough.
pub fn fail(ctx: &mut Ctx, key: &str, what: &str, detail: serde_json::Value) {
    let n = PER_KIND.with(|m| {
        let mut m = m.borrow_mut();
        let e = m.entry(what.to_string()).or_insert(0);
        *e += 1;
        *e
    });
    if n <= 3 {
        ctx.oracle_fail(key, what, detail);
    } else {
        ctx.count(&format!("more-failures:{what}"));
    }
}

/// `oracle_fail`, once per key (defect classes have one stable key; the first witness is kept).
pub fn fail_once(ctx: &mut Ctx, key: &str, what: &str, detail: serde_json::Value) {
    let fresh = REPORTED.with(|r| r.borrow_mut().insert(key.to_string()));
    if fresh {
        ctx.oracle_fail(key, what, detail);
    } else {
        ctx.count(&format!("repeat:{key}"));
    }
}

fn main() {
    let mut ctx = Ctx::from_args("C11");
    if std::env::var("C11_DEBUG").is_ok() {
        std::panic::set_hook(Box::new(|i| eprintln!("panic: {i}")));
    }
    let only = std::env::var("C11_ONLY").unwrap_or_default();
    let want = |s: &str| only.is_empty() || only.split(',').any(|x| x == s);
    cover::emit(&mut ctx);
    if want("jj") {
        jj::run(&mut ctx);
        extra::jj_extra(&mut ctx);
    }
    if want("g1") {
        wei::run::<curves::G1>(&mut ctx);
        extra::g1_serde(&mut ctx);
    }
    if want("g2") {
        wei::run::<curves::G2>(&mut ctx);
        extra::g2_serde(&mut ctx);
    }
    if want("bn1") {
        wei::run::<curves::Bn1>(&mut ctx);
        bn::run::<curves::Bn1>(&mut ctx);
        extra::bn1_raw_serde(&mut ctx);
    }
    if want("bn2") {
        wei::run::<curves::Bn2>(&mut ctx);
        bn::run::<curves::Bn2>(&mut ctx);
        bn::run_g2_cofactor(&mut ctx);
        extra::bn2_raw_serde(&mut ctx);
    }
    if want("k256") {
        secp::run(&mut ctx);
    }
    if want("ed") {
        ed::run(&mut ctx);
    }
    ctx.finish();
}
