//! scratch: D4 sanity
use ff::Field;
use group::{Curve, Group};
use midnight_curves::{CurveExt, G1Projective, G2Projective};
use subtle::ConstantTimeEq;
fn main() {
    let p = G1Projective::generator().double();
    let (x, y, z) = p.jacobian_coordinates();
    let q = G1Projective::new_jacobian(x, y, z);
    println!("g1 roundtrip {:?}", bool::from(q.is_some()) && q.unwrap() == p);
    let n: G1Projective = p.to_affine().into();
    println!("g1 cteq {:?} eq {:?}", bool::from(p.ct_eq(&n)), p == n);
    println!("g1 cteq-neg {:?}", bool::from(p.ct_eq(&(-n))));
    let zi = z.invert().unwrap();
    println!("g1 affine-x {:?}", x * zi.square() == p.to_affine().x());
    let p = G2Projective::generator().double();
    let (x, y, z) = p.jacobian_coordinates();
    let q = G2Projective::new_jacobian(x, y, z);
    println!("g2 roundtrip {:?}", bool::from(q.is_some()) && q.unwrap() == p);
    let n: G2Projective = p.to_affine().into();
    println!("g2 cteq {:?} eq {:?}", bool::from(p.ct_eq(&n)), p == n);
    let id = G1Projective::identity();
    let (x, y, z) = id.jacobian_coordinates();
    println!("id roundtrip {:?}", G1Projective::new_jacobian(x, y, z).unwrap() == id);
}
