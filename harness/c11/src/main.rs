//! Correspondence harness of property C11 (curve types implement the group law; encodings are
//! canonical and checked). Runs the real `midnight-curves` types on structured operand classes,
//! prints canonical answers for the Lean model `mzk-c11`, and checks the property directly
//! against an affine group law over `num-bigint` (module `big`).
mod big;
mod jj;

use mzkh::Ctx;

fn main() {
    let mut ctx = Ctx::from_args("C11");
    jj::run(&mut ctx);
    ctx.finish();
}
