//! secp256k1: `K256` / `K256Affine` (wrappers over the `k256` crate).
use ff::{Field, PrimeField};
use group::{Curve, Group, GroupEncoding};
use k256::elliptic_curve::ops::Reduce;
use midnight_curves::k256::{Fp, Fq, K256Affine, K256};
use mzkh::Ctx;
use num_bigint::BigUint;
use rand::RngCore;
use serde_json::json;
use subtle::ConstantTimeEq;

use crate::big::{self, Fld, E, WP};
use crate::jj::bu;
use crate::wei::hex_bytes;

fn p() -> BigUint {
    (bu(1) << 256usize) - (bu(1) << 32usize) - bu(977)
}
fn n() -> BigUint {
    BigUint::parse_bytes(b"fffffffffffffffffffffffffffffffebaaedce6af48a03bbfd25e8cd0364141", 16).unwrap()
}
fn be32(v: &BigUint) -> [u8; 32] {
    let mut out = [0u8; 32];
    let b = v.to_bytes_be();
    out[32 - b.len()..].copy_from_slice(&b);
    out
}
fn fp_e(x: &Fp) -> E {
    E { c0: BigUint::from_bytes_be(&x.to_bytes()), c1: None }
}
fn fq_big(s: &Fq) -> BigUint {
    BigUint::from_bytes_be(&s.to_repr())
}
/// Affine value; `None` = identity. `y()` of the identity panics (reported separately), so the
/// identity is recognised first.
fn a_wp(a: &K256Affine) -> WP {
    if *a == K256Affine::identity() {
        None
    } else {
        Some((fp_e(&a.x()), fp_e(&a.y())))
    }
}
fn p_wp(p: &K256) -> WP {
    a_wp(&p.to_affine())
}

fn emit(ctx: &mut Ctx, f: &Fld, kind: &str, line: String, res: &K256, spec: &WP) {
    let got = p_wp(res);
    ctx.case(&format!("k256-{kind}"), true, &line, &big::tok_w(&got));
    let zero = f.fp(bu(0));
    if got != *spec || !big::w_on_curve(f, &zero, &f.fp(bu(7)), &got) {
        crate::fail(ctx, &format!("C11:{line}"), "secp256k1 operation disagrees with the affine chord-and-tangent law over big integers", json!({"op": line, "impl": big::tok_w(&got), "law": big::tok_w(spec)}));
    }
}

pub fn run(ctx: &mut Ctx) {
    let f = Fld::new(p());
    let a = f.fp(bu(0));
    let mut rng = ctx.rng("k256-operands");
    let g = K256::generator();
    let mut ops: Vec<(&'static str, K256)> = vec![
        ("identity", K256::identity()),
        ("generator", g),
        ("2G (z≠1)", g.double()),
        ("-G", -g),
        ("3G", g.double() + g),
    ];
    let n_rand = if crate::small(ctx) { 3 * crate::extra(ctx) } else { 10 };
    for _ in 0..n_rand {
        ops.push(("random", K256::random(&mut rng)));
    }
    for (c, _) in &ops {
        ctx.count(&format!("k256-operand:{c}"));
    }
    ctx.case("k256-const", true, "k256 gen", &big::tok_w(&p_wp(&g)));
    ctx.case("k256-const", true, "k256 gen:affine", &big::tok_w(&a_wp(&K256Affine::generator())));
    if K256::default() != K256::identity()
        || K256Affine::default() != K256Affine::identity()
        || !bool::from(K256::identity().is_identity())
        || K256::identity().to_affine() != K256Affine::identity()
        || K256::from(K256Affine::identity()) != K256::identity()
    {
        crate::fail(ctx, "C11:k256:identity", "identity constructors / conversions disagree", json!({}));
    }
    // accessors on the identity: the property asks constructors and accessors to be consistent
    let xi = mzkh::catch(|| K256Affine::identity().x());
    let yi = mzkh::catch(|| K256Affine::identity().y());
    ctx.count(&format!("k256-identity-x:{}", if xi.is_ok() { "value" } else { "panic" }));
    ctx.count(&format!("k256-identity-y:{}", if yi.is_ok() { "value" } else { "panic" }));
    if xi.is_err() || yi.is_err() {
        crate::fail_once(ctx, "C11:k256:identity-coordinate-accessor-panics", "K256Affine::identity().y() (or .x()) panics while the other accessor returns a value", json!({"x": xi.is_ok(), "y": yi.is_ok(), "panic": yi.err()}));
    }
    // zeta constants: ζ³ = 1, ζ ≠ 1, and (ζ·x, y) = λ·(x, y)
    {
        let bz = K256::base_zeta();
        let sz = K256::scalar_zeta();
        let ga = g.to_affine();
        let e = K256Affine::from_xy(ga.x() * bz, ga.y());
        let ok = bz * bz * bz == Fp::ONE && bz != Fp::ONE && sz * sz * sz == Fq::ONE && sz != Fq::ONE && e.map(|e| K256::from(e) == g * sz).unwrap_or(false);
        ctx.count(&format!("k256-zeta-consistent:{ok}"));
        if !ok {
            crate::fail(ctx, "C11:k256:zeta", "base_zeta / scalar_zeta do not define the GLV endomorphism", json!({}));
        }
    }
    for (class, pnt) in &ops {
        let pnt = *pnt;
        let pa = pnt.to_affine();
        let pw = a_wp(&pa);
        let pt = big::tok_w(&pw);
        emit(ctx, &f, "dbl", format!("k256 dbl {pt}"), &pnt.double(), &big::w_add(&f, &a, &pw, &pw));
        emit(ctx, &f, "neg", format!("k256 neg {pt}"), &(-pnt), &big::w_neg(&f, &pw));
        emit(ctx, &f, "neg", format!("k256 neg:& {pt}"), &(-&pnt), &big::w_neg(&f, &pw));
        ctx.case("k256-oncurve", true, &format!("k256 oncurve {pt}"), "1");
        if *class != "identity" {
            let (x, y) = (pa.x(), pa.y());
            let xy = format!("{}/{}", big::tok(&fp_e(&x)), big::tok(&fp_e(&y)));
            let fx = K256Affine::from_xy(x, y);
            ctx.case("k256-fromxy", true, &format!("k256 fromxy {xy}"), &fx.map_or("none".into(), |q| big::tok_w(&a_wp(&q))));
            if fx != Some(pa) {
                crate::fail(ctx, &format!("C11:k256:fromxy {xy}"), "from_xy(x(), y()) is not the point", json!({}));
            }
            let bad = K256Affine::from_xy(x, y + Fp::ONE);
            let xy = format!("{}/{}", big::tok(&fp_e(&x)), big::tok(&fp_e(&(y + Fp::ONE))));
            ctx.case("k256-fromxy", true, &format!("k256 fromxy {xy}"), &bad.map_or("none".into(), |q| big::tok_w(&a_wp(&q))));
            if bad.is_some() {
                crate::fail(ctx, &format!("C11:k256:fromxy {xy}"), "from_xy accepts a point off the curve", json!({}));
            }
        }
    }
    {
        let z = K256Affine::from_xy(Fp::ZERO, Fp::ZERO);
        ctx.case("k256-fromxy", false, "k256 fromxy:zero 0x0/0x1", &z.map_or("none".into(), |q| big::tok_w(&a_wp(&q))));
    }
    // binary
    let mut pairs: Vec<(K256, K256, &'static str)> = vec![];
    for (_, x) in &ops {
        for (_, y) in &ops {
            pairs.push((*x, *y, "grid"));
        }
        pairs.push((*x, *x, "P=Q"));
        pairs.push((*x, x.to_affine().into(), "P=Q other repr"));
        pairs.push((*x, -*x, "P=-Q"));
        pairs.push((x.double(), -x.double(), "P=-Q"));
    }
    for (x, y, class) in &pairs {
        ctx.count(&format!("k256-pair:{class}"));
        let (x, y) = (*x, *y);
        let (xa, ya) = (x.to_affine(), y.to_affine());
        let (xw, yw) = (a_wp(&xa), a_wp(&ya));
        let (xt, yt) = (big::tok_w(&xw), big::tok_w(&yw));
        let sum = big::w_add(&f, &a, &xw, &yw);
        let diff = big::w_add(&f, &a, &xw, &big::w_neg(&f, &yw));
        emit(ctx, &f, "add", format!("k256 add:pp {xt} {yt}"), &(x + y), &sum);
        emit(ctx, &f, "add", format!("k256 add:p&p {xt} {yt}"), &(x + &y), &sum);
        emit(ctx, &f, "add", format!("k256 add:pa {xt} {yt}"), &(x + ya), &sum);
        emit(ctx, &f, "add", format!("k256 add:p&a {xt} {yt}"), &(x + &ya), &sum);
        let mut r = x;
        r += y;
        emit(ctx, &f, "add", format!("k256 add:p+=p {xt} {yt}"), &r, &sum);
        let mut r = x;
        r += &ya;
        emit(ctx, &f, "add", format!("k256 add:p+=&a {xt} {yt}"), &r, &sum);
        emit(ctx, &f, "sub", format!("k256 sub:pp {xt} {yt}"), &(x - y), &diff);
        emit(ctx, &f, "sub", format!("k256 sub:pa {xt} {yt}"), &(x - ya), &diff);
        let mut r = x;
        r -= &y;
        emit(ctx, &f, "sub", format!("k256 sub:p-=&p {xt} {yt}"), &r, &diff);
        let mut r = x;
        r -= ya;
        emit(ctx, &f, "sub", format!("k256 sub:p-=a {xt} {yt}"), &r, &diff);
        let law = xw == yw;
        if (x == y) != law || bool::from(x.ct_eq(&y)) != law || (xa == ya) != law || bool::from(xa.ct_eq(&ya)) != law {
            crate::fail(ctx, &format!("C11:k256:eq {xt} {yt}"), "equality differs from equality of the affine values", json!({}));
        }
        ctx.count(&format!("k256-eq:{law}"));
    }
    // scalars
    let mut scal: Vec<(&'static str, Fq)> = vec![
        ("zero", Fq::ZERO),
        ("one", Fq::ONE),
        ("two", Fq::ONE + Fq::ONE),
        ("n-1", -Fq::ONE),
        ("n-2", -(Fq::ONE + Fq::ONE)),
        ("(n-1)/2", (-Fq::ONE) * (Fq::ONE + Fq::ONE).invert().unwrap()),
    ];
    for (name, v) in [("bytes:n", n()), ("bytes:n+1", n() + bu(1)), ("bytes:n-1", n() - bu(1)), ("bytes:2^256-1", (bu(1) << 256usize) - bu(1))] {
        let fb = k256::FieldBytes::from(be32(&v));
        scal.push((name, <Fq as Reduce<k256::U256>>::reduce_bytes(&fb)));
    }
    let mut srng = ctx.rng("k256-scalars");
    for _ in 0..(if crate::small(ctx) { 2 } else { 8 }) {
        scal.push(("random", Fq::random(&mut srng)));
    }
    for (_, x) in ops.iter().step_by(if crate::small(ctx) { 2 } else { 1 }) {
        let xw = p_wp(x);
        let xt = big::tok_w(&xw);
        for (sname, s) in &scal {
            ctx.count(&format!("k256-scalar:{sname}"));
            let k = fq_big(s);
            let spec = big::w_mul(&f, &a, &k, &xw);
            emit(ctx, &f, "mul", format!("k256 mul:p*s {xt} {}", big::hex(&k)), &(*x * *s), &spec);
            emit(ctx, &f, "mul", format!("k256 mul:p*&s {xt} {}", big::hex(&k)), &(*x * s), &spec);
            emit(ctx, &f, "mul", format!("k256 mul:s*p {xt} {}", big::hex(&k)), &(*s * *x), &spec);
            let mut r = *x;
            r *= s;
            emit(ctx, &f, "mul", format!("k256 mul:p*=&s {xt} {}", big::hex(&k)), &r, &spec);
        }
    }
    // sums, batch normalisation
    for (i, len) in (if crate::small(ctx) { vec![0usize, 1, 2, 5] } else { vec![0, 1, 2, 3, 9, 20] }).iter().enumerate() {
        let mut r = ctx.rng(&format!("k256-sum-{i}"));
        let pts: Vec<K256> = (0..*len).map(|_| ops[(r.next_u32() as usize) % ops.len()].1).collect();
        let toks: Vec<String> = pts.iter().map(|q| big::tok_w(&p_wp(q))).collect();
        let mut spec: WP = None;
        for q in &pts {
            spec = big::w_add(&f, &a, &spec, &p_wp(q));
        }
        emit(ctx, &f, "sum", format!("k256 sum {}", toks.join(" ")), &pts.iter().sum(), &spec);
        emit(ctx, &f, "sum", format!("k256 sum:owned {}", toks.join(" ")), &pts.iter().copied().sum(), &spec);
        let mut out = vec![K256Affine::identity(); *len];
        match mzkh::catch(|| K256::batch_normalize(&pts, &mut out)) {
            Err(msg) => crate::fail_once(ctx, &format!("C11:k256:batch_normalize-panics-len{len}"), "Curve::batch_normalize panics", json!({"len": len, "panic": msg})),
            Ok(()) => {
                for (j, q) in pts.iter().enumerate() {
                    ctx.case("k256-batch-normalize", true, &format!("k256 add:batch_normalize[{j}/{len}] {} inf", toks[j]), &big::tok_w(&a_wp(&out[j])));
                    if out[j] != q.to_affine() {
                        crate::fail(ctx, &format!("C11:k256:batch_normalize {}", toks[j]), "batch_normalize differs from to_affine", json!({}));
                    }
                }
            }
        }
    }
    // codec (SEC1 compressed, 33 bytes)
    let dec = |ctx: &mut Ctx, class: &str, b: &[u8; 33]| {
        let h = hex_bytes(b);
        let repr = <K256 as GroupEncoding>::Repr::from(*b);
        let d: Option<K256Affine> = K256Affine::from_bytes(&repr).into();
        let du: Option<K256Affine> = K256Affine::from_bytes_unchecked(&repr).into();
        let dp: Option<K256> = K256::from_bytes(&repr).into();
        let dpu: Option<K256> = K256::from_bytes_unchecked(&repr).into();
        ctx.count(&format!("k256-dec:{class}:{}", if d.is_some() { "accept" } else { "reject" }));
        let fmt = |q: &Option<K256Affine>| q.map_or("none".to_string(), |q| big::tok_w(&a_wp(&q)));
        ctx.case("k256-dec", true, &format!("k256 dec {h}"), &fmt(&d));
        ctx.case("k256-dec", true, &format!("k256 dec_unchecked {h}"), &fmt(&du));
        ctx.case("k256-dec", true, &format!("k256 dec:projective {h}"), &fmt(&dp.map(|q| q.to_affine())));
        ctx.case("k256-dec", true, &format!("k256 dec_unchecked:projective {h}"), &fmt(&dpu.map(|q| q.to_affine())));
        if let Some(q) = d {
            let fld = Fld::new(p());
            let on = big::w_on_curve(&fld, &fld.fp(bu(0)), &fld.fp(bu(7)), &a_wp(&q));
            if !on {
                crate::fail(ctx, &format!("C11:k256:dec {h}"), "SEC1 decoder accepts an off-curve point", json!({"bytes": h}));
            }
            if q.to_bytes().as_ref() != &b[..] {
                let key = if b[0] == 5 { "C11:k256:decoder-accepts-compact-tag-05".to_string() } else { format!("C11:k256:dec-noncanonical {h}") };
                crate::fail_once(ctx, &key, "K256/K256Affine::from_bytes accepts a non-canonical encoding (tag 0x05 'compact' form): re-encoding the decoded point gives different bytes", json!({"bytes": h, "reencoded": hex_bytes(q.to_bytes().as_ref())}));
            }
        }
    };
    let mut valid: Vec<[u8; 33]> = vec![];
    for (_, x) in &ops {
        let xa = x.to_affine();
        let b: [u8; 33] = xa.to_bytes().into();
        let xt = big::tok_w(&a_wp(&xa));
        ctx.case("k256-enc", true, &format!("k256 enc {xt}"), &hex_bytes(&b));
        let b2: [u8; 33] = x.to_bytes().into();
        ctx.case("k256-enc", true, &format!("k256 enc:projective {xt}"), &hex_bytes(&b2));
        let back: Option<K256Affine> = K256Affine::from_bytes(&xa.to_bytes()).into();
        if back != Some(xa) {
            crate::fail(ctx, &format!("C11:k256:roundtrip {xt}"), "from_bytes(to_bytes(P)) != P", json!({}));
        }
        dec(ctx, "valid", &b);
        valid.push(b);
    }
    for src in valid.iter().skip(1).take(if crate::small(ctx) { 2 } else { 6 }) {
        let bits: Vec<usize> = if crate::small(ctx) { vec![0, 1, 5, 6, 7, 8, 9, 100, 262, 263] } else { (0..264).collect() };
        for bit in bits {
            let mut c = *src;
            c[bit / 8] ^= 0x80 >> (bit % 8);
            dec(ctx, "bitflip", &c);
        }
    }
    for tag in [0u8, 1, 2, 3, 4, 5, 6, 7, 0x80, 0xff] {
        for (name, v) in [("x=0", bu(0)), ("x=1", bu(1)), ("x=p-1", p() - bu(1)), ("x=p", p()), ("x=p+1", p() + bu(1)), ("x=2^256-1", (bu(1) << 256usize) - bu(1))] {
            let mut b = [0u8; 33];
            b[0] = tag;
            b[1..].copy_from_slice(&be32(&v));
            dec(ctx, &format!("tag{tag:02x}:{name}"), &b);
        }
    }
    let mut r = ctx.rng("k256-random-bytes");
    for _ in 0..(if crate::small(ctx) { 40 } else { 1500 }) {
        let mut b = [0u8; 33];
        r.fill_bytes(&mut b);
        dec(ctx, "random-bytes", &b);
        b[0] = 2 + (b[0] & 1);
        dec(ctx, "random-bytes-plausible", &b);
    }
}
