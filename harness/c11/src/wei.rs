//! Short-Weierstrass curve types behind the `CurveExt` / `CurveAffine` traits of the repo:
//! BLS12-381 G1/G2 (blst wrappers) and BN254 G1/G2 (`new_curve_impl!`, pure Rust).
//! One generic sweep; per-curve glue in `impl W for …`.
use std::fmt::Debug;

use ff::{Field, FromUniformBytes, PrimeField};
use group::{prime::PrimeCurveAffine, Curve, Group, GroupEncoding, UncompressedEncoding};
use midnight_curves::{CurveAffine, CurveExt};
use mzkh::Ctx;
use num_bigint::BigUint;
use rand::RngCore;
use serde_json::json;
use subtle::ConstantTimeEq;

use crate::big::{self, Fld, E, WP};
use crate::jj::bu;

pub fn hex_bytes(b: &[u8]) -> String {
    b.iter().map(|x| format!("{x:02x}")).collect()
}
fn le_fixed<const N: usize>(v: &BigUint) -> [u8; N] {
    let mut bytes = [0u8; N];
    let le = v.to_bytes_le();
    bytes[..le.len()].copy_from_slice(&le);
    bytes
}

pub trait FieldTok: Field {
    fn to_e(&self) -> E;
    fn from_e(e: &E) -> Self;
}
impl FieldTok for midnight_curves::Fp {
    fn to_e(&self) -> E {
        E { c0: BigUint::from_bytes_le(&self.to_bytes_le()), c1: None }
    }
    fn from_e(e: &E) -> Self {
        Self::from_bytes_le(&le_fixed::<48>(&e.c0)).unwrap()
    }
}
impl FieldTok for midnight_curves::bls12_381::Fp2 {
    fn to_e(&self) -> E {
        E { c0: self.c0().to_e().c0, c1: Some(self.c1().to_e().c0) }
    }
    fn from_e(e: &E) -> Self {
        let c0 = midnight_curves::Fp::from_e(&E { c0: e.c0.clone(), c1: None });
        let c1 = midnight_curves::Fp::from_e(&E { c0: e.c1.clone().unwrap(), c1: None });
        Self::new(c0, c1)
    }
}
impl FieldTok for midnight_curves::bn256::Fq {
    fn to_e(&self) -> E {
        E { c0: BigUint::from_bytes_le(&self.to_bytes()), c1: None }
    }
    fn from_e(e: &E) -> Self {
        Self::from_bytes(&le_fixed::<32>(&e.c0)).unwrap()
    }
}
impl FieldTok for midnight_curves::bn256::Fq2 {
    fn to_e(&self) -> E {
        let b = self.to_bytes();
        E { c0: BigUint::from_bytes_le(&b[..32]), c1: Some(BigUint::from_bytes_le(&b[32..])) }
    }
    fn from_e(e: &E) -> Self {
        use midnight_curves::bn256::Fq;
        Self::new(
            Fq::from_e(&E { c0: e.c0.clone(), c1: None }),
            Fq::from_e(&E { c0: e.c1.clone().unwrap(), c1: None }),
        )
    }
}

pub trait ScalarTok: PrimeField + FromUniformBytes<64> {
    fn to_big(&self) -> BigUint;
}
impl ScalarTok for midnight_curves::Fq {
    fn to_big(&self) -> BigUint {
        BigUint::from_bytes_le(&self.to_bytes_le())
    }
}
impl ScalarTok for midnight_curves::bn256::Fr {
    fn to_big(&self) -> BigUint {
        BigUint::from_bytes_le(&self.to_bytes())
    }
}

pub trait W: 'static {
    type P: CurveExt<AffineExt = Self::A, Base = Self::B, ScalarExt = Self::S>
        + GroupEncoding
        + Debug;
    type A: CurveAffine<CurveExt = Self::P, Base = Self::B, ScalarExt = Self::S>
        + GroupEncoding<Repr = <Self::P as GroupEncoding>::Repr>
        + UncompressedEncoding
        + Debug;
    type B: FieldTok + ff::WithSmallOrderMulGroup<3>;
    type S: ScalarTok;
    const TAG: &'static str;
    /// The projective type holds Jacobian coordinates (blst) rather than homogeneous ones.
    const JAC: bool;
    fn fld() -> Fld;
    /// Order of the prime-order subgroup.
    fn order() -> BigUint;
    /// Raw projective coordinates.
    fn pcoords(p: &Self::P) -> (Self::B, Self::B, Self::B);
    /// Projective point from raw coordinates in the type's own coordinate system, when the
    /// public API allows it (`None` = refused).
    fn pfrom(x: Self::B, y: Self::B, z: Self::B) -> Option<Self::P>;
    /// Raw affine coordinates (the identity is `(0, 0)` for every type here).
    fn acoords(a: &Self::A) -> (Self::B, Self::B);
    fn torsion_free(a: &Self::A) -> Option<bool>;
    fn a_plus_p(a: &Self::A, p: &Self::P) -> Self::P;
    fn a_minus_p(a: &Self::A, p: &Self::P) -> Self::P;
    fn a_neg(a: &Self::A) -> Self::A;
    fn a_mul(a: &Self::A, s: &Self::S) -> Self::P;
    /// A prime `l` and the cofactor-multiple `k` such that `k·Q` has order `l` or 1.
    fn small_order_recipe() -> Option<(u32, BigUint)>;
}

pub fn a_wp<C: W>(a: &C::A) -> WP {
    if bool::from(a.is_identity()) {
        None
    } else {
        let (x, y) = C::acoords(a);
        Some((x.to_e(), y.to_e()))
    }
}
pub fn a_tok<C: W>(a: &C::A) -> String {
    big::tok_w(&a_wp::<C>(a))
}
pub fn p_tok<C: W>(p: &C::P) -> String {
    a_tok::<C>(&p.to_affine())
}
pub fn raw_tok<C: W>(p: &C::P) -> String {
    let (x, y, z) = C::pcoords(p);
    format!("{}/{}/{}", big::tok(&x.to_e()), big::tok(&y.to_e()), big::tok(&z.to_e()))
}
fn wp_to_a<C: W>(p: &WP) -> Option<C::A> {
    match p {
        None => Some(C::A::identity()),
        Some((x, y)) => C::A::from_xy(C::B::from_e(x), C::B::from_e(y)).into(),
    }
}

pub struct Env {
    pub f: Fld,
    pub a: E,
    pub b: E,
}

fn env<C: W>() -> Env {
    let f = C::fld();
    let b = C::P::b().to_e();
    let a = f.small(&b, 0);
    Env { f, a, b }
}

/// Emit `line => affine token of res`; oracle = bigint affine law value `spec`.
fn emit<C: W>(ctx: &mut Ctx, kind: &str, line: String, res: &C::P, spec: &WP) {
    let got = a_wp::<C>(&res.to_affine());
    ctx.case(&format!("{}-{}", C::TAG, kind), true, &line, &big::tok_w(&got));
    if got != *spec || !bool::from(res.is_on_curve()) && spec.is_some() {
        crate::fail(ctx, 
            &format!("C11:{}", line),
            "curve operation disagrees with the affine chord-and-tangent law over big integers",
            json!({"op": line, "impl": big::tok_w(&got), "law": big::tok_w(spec), "raw": raw_tok::<C>(res)}),
        );
    }
}

pub struct Operand<C: W> {
    pub class: &'static str,
    pub p: C::P,
}

fn find_on_curve<C: W>(rng: &mut impl RngCore, small: bool, n: u32) -> C::A {
    // x = n, n+1, … (small) or random, with x³ + b a square
    let mut k = n;
    loop {
        let x = if small {
            k += 1;
            let mut acc = C::B::ZERO;
            for _ in 0..k {
                acc += C::B::ONE;
            }
            acc
        } else {
            C::B::random(&mut *rng)
        };
        let y2 = x.square() * x + C::P::b();
        if let Some(y) = Option::<C::B>::from(y2.sqrt()) {
            if let Some(a) = Option::<C::A>::from(C::A::from_xy(x, y)) {
                return a;
            }
        }
    }
}

pub fn operands<C: W>(ctx: &Ctx, n_rand: usize) -> Vec<Operand<C>> {
    let e = env::<C>();
    let mut rng = ctx.rng(&format!("{}-operands", C::TAG));
    let mut v: Vec<Operand<C>> = vec![];
    let g = C::P::generator();
    v.push(Operand { class: "identity", p: C::P::identity() });
    v.push(Operand { class: "generator", p: g });
    v.push(Operand { class: "2G (z≠1)", p: g.double() });
    v.push(Operand { class: "-G", p: -g });
    v.push(Operand { class: "3G (z≠1)", p: g.double() + g });
    for _ in 0..n_rand {
        v.push(Operand { class: "random-subgroup", p: C::P::random(&mut rng) });
    }
    // other projective representations of the same points
    for i in [1usize, 2, 5] {
        let (x, y, z) = C::pcoords(&v[i].p);
        let l = C::B::random(&mut rng);
        let q = if C::JAC {
            C::pfrom(x * l.square(), y * l.square() * l, z * l)
        } else {
            C::pfrom(x * l, y * l, z * l)
        };
        if let Some(q) = q {
            v.push(Operand { class: "rescaled", p: q });
        }
    }
    // identity in another representation
    {
        let l = C::B::random(&mut rng);
        if let Some(q) = if C::JAC { C::pfrom(l.square(), l.square() * l, C::B::ZERO) } else { C::pfrom(C::B::ZERO, l, C::B::ZERO) } {
            v.push(Operand { class: "identity (other repr)", p: q });
        }
    }
    // points on the curve outside the prime-order subgroup (cofactor curves only)
    if C::small_order_recipe().is_some() || C::TAG == "bn2" {
        for i in 0..(1 + n_rand / 2) {
            let a = find_on_curve::<C>(&mut rng, i == 0, 0);
            if C::torsion_free(&a) != Some(true) {
                v.push(Operand { class: "on-curve, outside subgroup", p: a.to_curve() });
            }
        }
    }
    if let Some((l, k)) = C::small_order_recipe() {
        // x = 0: points of order 3 on y² = x³ + b
        if let Some(y) = Option::<C::B>::from(C::P::b().sqrt()) {
            if let Some(a) = Option::<C::A>::from(C::A::from_xy(C::B::ZERO, y)) {
                v.push(Operand { class: "order-3 (x=0)", p: a.to_curve() });
                v.push(Operand { class: "order-3 (x=0)", p: (-a.to_curve()).double().double() });
            }
        }
        // order l: k·Q for on-curve Q, computed with the bigint law, re-entered through from_xy
        for _ in 0..50 {
            let q = find_on_curve::<C>(&mut rng, false, 0);
            let t = big::w_mul(&e.f, &e.a, &k, &a_wp::<C>(&q));
            if t.is_some() {
                let a = wp_to_a::<C>(&t).expect("small-order point is on the curve");
                v.push(Operand { class: "small-order", p: a.to_curve() });
                v.push(Operand { class: "small-order", p: a.to_curve().double() });
                ctx_note(l);
                break;
            }
        }
    }
    v
}
fn ctx_note(_l: u32) {}

pub fn scalars<C: W>(ctx: &Ctx, n_rand: usize) -> Vec<(&'static str, C::S)> {
    let mut rng = ctx.rng(&format!("{}-scalars", C::TAG));
    let two = C::S::ONE + C::S::ONE;
    let mut v = vec![
        ("zero", C::S::ZERO),
        ("one", C::S::ONE),
        ("two", two),
        ("r-1", -C::S::ONE),
        ("r-2", -two),
        ("(r-1)/2", (-C::S::ONE) * two.invert().unwrap()),
    ];
    let r = C::order();
    for (name, val) in [
        ("wide:r", r.clone()),
        ("wide:r+1", r.clone() + bu(1)),
        ("wide:r-1", r.clone() - bu(1)),
        ("wide:2^256-1", (bu(1) << 256usize) - bu(1)),
        ("wide:2^512-1", (bu(1) << 512usize) - bu(1)),
    ] {
        let wide = le_fixed::<64>(&val);
        v.push((name, C::S::from_uniform_bytes(&wide)));
    }
    for _ in 0..n_rand {
        v.push(("random", C::S::random(&mut rng)));
    }
    v
}

pub fn run<C: W>(ctx: &mut Ctx)
where
    <C::A as UncompressedEncoding>::Uncompressed: AsRef<[u8]> + AsMut<[u8]>,
{
    let e = env::<C>();
    let t = C::TAG;
    let (n_rand, n_pairs_rand, n_scal) = if crate::small(ctx) { (3 * crate::extra(ctx), 20 * crate::extra(ctx), 2) } else { (8, 300, 8) };
    let ops = operands::<C>(ctx, n_rand);
    for o in &ops {
        ctx.count(&format!("{t}-operand:{}", o.class));
    }
    // constants
    ctx.case(&format!("{t}-const"), true, &format!("{t} gen"), &p_tok::<C>(&C::P::generator()));
    ctx.case(&format!("{t}-const"), true, &format!("{t} gen:affine"), &a_tok::<C>(&C::A::generator()));
    ctx.case(&format!("{t}-const"), true, &format!("{t} b"), &big::tok(&C::P::b().to_e()));
    ctx.case(&format!("{t}-const"), true, &format!("{t} b:affine"), &big::tok(&C::A::b().to_e()));
    if !bool::from(C::P::a().is_zero()) || !bool::from(C::A::a().is_zero()) {
        crate::fail(ctx, &format!("C11:{t}:a"), "curve constant a is not 0", json!({}));
    }
    if !bool::from(C::P::identity().is_identity())
        || !bool::from(C::A::identity().is_identity())
        || !bool::from(C::P::default().is_identity())
        || !bool::from(C::A::default().is_identity())
        || !bool::from(C::P::identity().to_affine().is_identity())
        || !bool::from(C::A::identity().to_curve().is_identity())
    {
        crate::fail(ctx, &format!("C11:{t}:identity"), "identity constructors / conversions disagree", json!({}));
    }

    // unary
    for o in &ops {
        let p = o.p;
        let pa = p.to_affine();
        let pw = a_wp::<C>(&pa);
        let pt = big::tok_w(&pw);
        let raw = raw_tok::<C>(&p);
        ctx.case(&format!("{t}-norm"), true, &format!("{t} norm {raw}"), &pt);
        ctx.case(&format!("{t}-norm"), true, &format!("{t} norm:into {raw}"), &a_tok::<C>(&C::A::from(p)));
        ctx.case(&format!("{t}-isid"), true, &format!("{t} isid {raw}"), &format!("{}", bool::from(p.is_identity()) as u8));
        emit::<C>(ctx, "dbl", format!("{t} dbl {pt}"), &p.double(), &big::w_add(&e.f, &e.a, &pw, &pw));
        emit::<C>(ctx, "neg", format!("{t} neg {pt}"), &(-p), &big::w_neg(&e.f, &pw));
        emit::<C>(ctx, "neg", format!("{t} neg:affine {pt}"), &C::a_neg(&pa).to_curve(), &big::w_neg(&e.f, &pw));
        emit::<C>(ctx, "norm", format!("{t} neg:to_curve {}", big::tok_w(&big::w_neg(&e.f, &pw))), &pa.to_curve(), &pw);
        // coordinate accessors / constructors
        let (jx, jy, jz) = p.jacobian_coordinates();
        let jt = format!("{}/{}/{}", big::tok(&jx.to_e()), big::tok(&jy.to_e()), big::tok(&jz.to_e()));
        ctx.case(&format!("{t}-jacobian"), true, &format!("{t} jaccoords {raw}"), &format!("{jt} {pt}"));
        let back: Option<C::P> = C::P::new_jacobian(jx, jy, jz).into();
        ctx.case(&format!("{t}-jacobian"), true, &format!("{t} newjac {jt}"), &back.map_or("none".into(), |q| p_tok::<C>(&q)));
        // the property directly (regression of D4): X/Z², Y/Z³ is the affine point; the round trip is the identity
        let jac_aff: WP = if bool::from(jz.is_zero()) {
            None
        } else {
            let zi = jz.invert().unwrap();
            Some(((jx * zi.square()).to_e(), (jy * zi.square() * zi).to_e()))
        };
        if jac_aff != pw || back.map(|q| q == p) != Some(true) {
            crate::fail(ctx, 
                &format!("C11:{t}:jacobian {pt}"),
                "jacobian_coordinates / new_jacobian are not consistent with Jacobian coordinates (X/Z², Y/Z³) of the point",
                json!({"point": pt, "raw": raw, "jacobian_coordinates": jt}),
            );
        }
        // ct_eq(P, normalised P) (regression of D4)
        let n: C::P = pa.to_curve();
        let (ce, pe) = (bool::from(p.ct_eq(&n)), p == n);
        ctx.case(&format!("{t}-eq"), true, &format!("{t} eqraw {raw} {}", raw_tok::<C>(&n)), &format!("{} {}", ce as u8, pe as u8));
        if !ce || !pe {
            crate::fail(ctx, &format!("C11:{t}:eq-normalised {pt}"), "a point is not equal (ct_eq / ==) to its own normalisation", json!({"raw": raw}));
        }
        // affine view
        let on = bool::from(pa.is_on_curve());
        ctx.case(&format!("{t}-oncurve"), true, &format!("{t} oncurve {pt}"), &format!("{}", on as u8));
        if !on || !bool::from(p.is_on_curve()) || !big::w_on_curve(&e.f, &e.a, &e.b, &pw) {
            crate::fail(ctx, &format!("C11:{t}:oncurve {pt}"), "a point produced by the API is not on the curve", json!({"raw": raw}));
        }
        let (x, y) = C::acoords(&pa);
        let xy = format!("{}/{}", big::tok(&x.to_e()), big::tok(&y.to_e()));
        let fx: Option<C::A> = C::A::from_xy(x, y).into();
        ctx.case(&format!("{t}-fromxy"), true, &format!("{t} fromxy {xy}"), &fx.map_or("none".into(), |a| a_tok::<C>(&a)));
        let co: Option<midnight_curves::Coordinates<C::A>> = pa.coordinates().into();
        let co_ok = match co {
            Some(c) => *c.x() == x && *c.y() == y,
            None => false,
        };
        if fx != Some(pa) || !co_ok {
            crate::fail(ctx, &format!("C11:{t}:coordinates {pt}"), "from_xy / coordinates are not mutually consistent", json!({"point": pt}));
        }
        emit::<C>(ctx, "endo", format!("{t} endo {pt}"), &p.endo(), &pw.as_ref().map(|(x, y)| (e.f.mul(x, &<C::B as ff::WithSmallOrderMulGroup<3>>::ZETA.to_e()), y.clone())));
        if p.endo().endo().endo() != p {
            crate::fail(ctx, &format!("C11:{t}:endo {pt}"), "endo³ is not the identity map", json!({}));
        }
        if let Some(tf) = C::torsion_free(&pa) {
            let law = big::w_mul(&e.f, &e.a, &C::order(), &pw).is_none();
            ctx.case(&format!("{t}-torsion"), true, &format!("{t} tf {pt}"), &format!("{}", tf as u8));
            ctx.count(&format!("{t}-torsion-free:{tf}"));
            if tf != law {
                crate::fail(ctx, &format!("C11:{t}:tf {pt}"), "is_torsion_free disagrees with r·P by the affine law", json!({"point": pt}));
            }
        }
    }
    // off-curve coordinates through the checked constructors
    {
        let mut rng = ctx.rng(&format!("{t}-offcurve"));
        for i in 0..(if crate::small(ctx) { 6 } else { 40 }) {
            let (x, mut y) = (C::B::random(&mut rng), C::B::random(&mut rng));
            if i % 2 == 0 {
                // y² = x³ + b + 1 : nearly on the curve
                let g = C::acoords(&ops[1].p.to_affine());
                y = g.1 + C::B::ONE;
                let _ = x;
                let fx: Option<C::A> = C::A::from_xy(g.0, y).into();
                let xy = format!("{}/{}", big::tok(&g.0.to_e()), big::tok(&y.to_e()));
                ctx.case(&format!("{t}-fromxy"), true, &format!("{t} fromxy {xy}"), &fx.map_or("none".into(), |a| a_tok::<C>(&a)));
                if fx.is_some() {
                    crate::fail(ctx, &format!("C11:{t}:fromxy {xy}"), "from_xy accepts a point off the curve", json!({}));
                }
                continue;
            }
            let xy = format!("{}/{}", big::tok(&x.to_e()), big::tok(&y.to_e()));
            let fx: Option<C::A> = C::A::from_xy(x, y).into();
            ctx.case(&format!("{t}-fromxy"), true, &format!("{t} fromxy {xy}"), &fx.map_or("none".into(), |a| a_tok::<C>(&a)));
            let z = C::B::random(&mut rng);
            let nj: Option<C::P> = C::P::new_jacobian(x, y, z).into();
            let jt = format!("{}/{}/{}", big::tok(&x.to_e()), big::tok(&y.to_e()), big::tok(&z.to_e()));
            ctx.case(&format!("{t}-jacobian"), true, &format!("{t} newjac {jt}"), &nj.map_or("none".into(), |q| p_tok::<C>(&q)));
            if fx.is_some() || nj.is_some() {
                crate::fail(ctx, &format!("C11:{t}:offcurve {xy}"), "a checked coordinate constructor accepts random coordinates", json!({}));
            }
        }
        let z0: Option<C::A> = C::A::from_xy(C::B::ZERO, C::B::ZERO).into();
        ctx.case(&format!("{t}-fromxy"), false, &format!("{t} fromxy 0x0/0x0").replace("0x0/0x0", &format!("{}/{}", big::tok(&C::B::ZERO.to_e()), big::tok(&C::B::ZERO.to_e()))), &z0.map_or("none".into(), |a| a_tok::<C>(&a)));
    }

    // binary
    let mut pair_list: Vec<(C::P, C::P, String)> = vec![];
    let core: Vec<usize> = if crate::small(ctx) { (0..ops.len()).step_by(2).collect() } else { (0..ops.len()).collect() };
    for &i in &core {
        for &j in &core {
            pair_list.push((ops[i].p, ops[j].p, format!("grid:{}x{}", ops[i].class, ops[j].class)));
        }
    }
    for o in &ops {
        pair_list.push((o.p, o.p, "P=Q".into()));
        pair_list.push((o.p, o.p.to_affine().to_curve(), "P=Q other repr".into()));
        pair_list.push((o.p.to_affine().to_curve(), o.p, "P=Q other repr".into()));
        pair_list.push((o.p, -o.p, "P=-Q".into()));
        pair_list.push((-o.p.double(), o.p.double(), "P=-Q".into()));
        pair_list.push((o.p, o.p.double(), "P,2P".into()));
    }
    let mut rng = ctx.rng(&format!("{t}-pairs"));
    for _ in 0..n_pairs_rand {
        let i = (rng.next_u32() as usize) % ops.len();
        let j = (rng.next_u32() as usize) % ops.len();
        pair_list.push((ops[i].p + ops[j].p, ops[j].p.double(), "random-pair".into()));
    }
    for (p, q, class) in &pair_list {
        ctx.count(&format!("{t}-pair:{}", class.split(':').next().unwrap()));
        let (p, q) = (*p, *q);
        let (pa, qa) = (p.to_affine(), q.to_affine());
        let (pw, qw) = (a_wp::<C>(&pa), a_wp::<C>(&qa));
        let (pt, qt) = (big::tok_w(&pw), big::tok_w(&qw));
        let sum = big::w_add(&e.f, &e.a, &pw, &qw);
        let diff = big::w_add(&e.f, &e.a, &pw, &big::w_neg(&e.f, &qw));
        emit::<C>(ctx, "add", format!("{t} add:pp {pt} {qt}"), &(p + q), &sum);
        emit::<C>(ctx, "add", format!("{t} add:p&p {pt} {qt}"), &(p + &q), &sum);
        emit::<C>(ctx, "add", format!("{t} add:pa {pt} {qt}"), &(p + qa), &sum);
        emit::<C>(ctx, "add", format!("{t} add:p&a {pt} {qt}"), &(p + &qa), &sum);
        emit::<C>(ctx, "add", format!("{t} add:ap {pt} {qt}"), &C::a_plus_p(&pa, &q), &sum);
        emit::<C>(ctx, "add", format!("{t} add:aa {pt} {qt}"), &(pa + qa), &sum);
        let mut r = p;
        r += q;
        emit::<C>(ctx, "add", format!("{t} add:p+=p {pt} {qt}"), &r, &sum);
        let mut r = p;
        r += &qa;
        emit::<C>(ctx, "add", format!("{t} add:p+=a {pt} {qt}"), &r, &sum);
        emit::<C>(ctx, "sub", format!("{t} sub:pp {pt} {qt}"), &(p - q), &diff);
        emit::<C>(ctx, "sub", format!("{t} sub:pa {pt} {qt}"), &(p - qa), &diff);
        emit::<C>(ctx, "sub", format!("{t} sub:ap {pt} {qt}"), &C::a_minus_p(&pa, &q), &diff);
        emit::<C>(ctx, "sub", format!("{t} sub:aa {pt} {qt}"), &(pa - qa), &diff);
        let mut r = p;
        r -= q;
        emit::<C>(ctx, "sub", format!("{t} sub:p-=p {pt} {qt}"), &r, &diff);
        let mut r = p;
        r -= qa;
        emit::<C>(ctx, "sub", format!("{t} sub:p-=a {pt} {qt}"), &r, &diff);
        // equality on raw representations
        let (ce, pe) = (bool::from(p.ct_eq(&q)), p == q);
        ctx.case(&format!("{t}-eq"), true, &format!("{t} eqraw {} {}", raw_tok::<C>(&p), raw_tok::<C>(&q)), &format!("{} {}", ce as u8, pe as u8));
        let law = pw == qw;
        if ce != law || pe != law || bool::from(pa.ct_eq(&qa)) != law || (pa == qa) != law {
            crate::fail(ctx, &format!("C11:{t}:eq {pt} {qt}"), "equality (==, ct_eq; projective or affine) differs from equality of the affine values", json!({"p": raw_tok::<C>(&p), "q": raw_tok::<C>(&q), "ct_eq": ce, "eq": pe}));
        }
    }

    // scalar multiplication
    let scal = scalars::<C>(ctx, n_scal);
    let mul_ops: Vec<&Operand<C>> = if crate::small(ctx) { ops.iter().step_by(3).collect() } else { ops.iter().collect() };
    for o in &mul_ops {
        let p = o.p;
        let pa = p.to_affine();
        let pw = a_wp::<C>(&pa);
        let pt = big::tok_w(&pw);
        let in_sub = C::torsion_free(&pa).unwrap_or(true);
        for (sname, s) in &scal {
            ctx.count(&format!("{t}-scalar:{}", sname));
            let k = s.to_big();
            let spec = big::w_mul(&e.f, &e.a, &k, &pw);
            if !in_sub && C::JAC {
                // blst multiplies through the GLV/ψ endomorphism decomposition, which is only valid
                // inside the prime-order subgroup: for on-curve points outside it (reachable through
                // the checked `from_xy` / `from_uncompressed` of G1) the product is not k·P.
                ctx.count(&format!("{t}-mul-outside-subgroup"));
                let got = [p * *s, C::a_mul(&pa, s)];
                for g in got {
                    if a_wp::<C>(&g.to_affine()) != spec {
                        crate::fail_once(
                            ctx,
                            &format!("C11:{t}:scalar-mul-outside-subgroup"),
                            "scalar multiplication of an on-curve point outside the prime-order subgroup disagrees with the affine group law (endomorphism-based multiplication)",
                            json!({"point": pt, "class": o.class, "scalar": big::hex(&k), "impl": p_tok::<C>(&g), "law": big::tok_w(&spec)}),
                        );
                    }
                }
                continue;
            }
            emit::<C>(ctx, "mul", format!("{t} mul:p {pt} {}", big::hex(&k)), &(p * *s), &spec);
            emit::<C>(ctx, "mul", format!("{t} mul:a {pt} {}", big::hex(&k)), &C::a_mul(&pa, s), &spec);
            let mut r = p;
            r *= *s;
            emit::<C>(ctx, "mul", format!("{t} mul:p*= {pt} {}", big::hex(&k)), &r, &spec);
        }
    }

    // sums, batch normalisation
    let lens: Vec<usize> = if crate::small(ctx) { vec![0, 1, 2, 6] } else { vec![0, 1, 2, 3, 8, 17, 40] };
    for (n, len) in lens.iter().enumerate() {
        let mut rng = ctx.rng(&format!("{t}-sum-{n}"));
        let pts: Vec<C::P> = (0..*len).map(|_| ops[(rng.next_u32() as usize) % ops.len()].p).collect();
        let toks: Vec<String> = pts.iter().map(p_tok::<C>).collect();
        let mut spec: WP = None;
        for p in &pts {
            spec = big::w_add(&e.f, &e.a, &spec, &a_wp::<C>(&p.to_affine()));
        }
        let s: C::P = pts.iter().sum();
        emit::<C>(ctx, "sum", format!("{t} sum {}", toks.join(" ")), &s, &spec);
        let s: C::P = pts.iter().copied().sum();
        emit::<C>(ctx, "sum", format!("{t} sum:owned {}", toks.join(" ")), &s, &spec);
        let mut out = vec![C::A::identity(); *len];
        if let Err(msg) = mzkh::catch(|| C::P::batch_normalize(&pts, &mut out)) {
            crate::fail_once(
                ctx,
                &format!("C11:{t}:batch_normalize-panics-len{len}"),
                "Curve::batch_normalize panics",
                json!({"len": len, "panic": msg, "points": toks}),
            );
            continue;
        }
        for (i, p) in pts.iter().enumerate() {
            ctx.case(&format!("{t}-batch-normalize"), true, &format!("{t} norm:batch[{i}/{len}] {}", raw_tok::<C>(p)), &a_tok::<C>(&out[i]));
            if out[i] != p.to_affine() {
                crate::fail(ctx, &format!("C11:{t}:batch_normalize {}", raw_tok::<C>(p)), "batch_normalize differs from to_affine", json!({"index": i, "len": len}));
            }
        }
    }

    codec::<C>(ctx, &e, &ops);
}

pub(crate) fn decode_all<C: W>(ctx: &mut Ctx, e: &Env, class: &str, b: &[u8])
where
    <C::A as UncompressedEncoding>::Uncompressed: AsRef<[u8]> + AsMut<[u8]>,
{
    let t = C::TAG;
    let h = hex_bytes(b);
    let fmt = |p: &Option<C::A>| p.map_or("none".to_string(), |p| a_tok::<C>(&p));
    let mut repr = <C::A as GroupEncoding>::Repr::default();
    if repr.as_ref().len() == b.len() {
        repr.as_mut().copy_from_slice(b);
        let d: Option<C::A> = C::A::from_bytes(&repr).into();
        let du: Option<C::A> = C::A::from_bytes_unchecked(&repr).into();
        let dp: Option<C::P> = C::P::from_bytes(&repr).into();
        let dpu: Option<C::P> = C::P::from_bytes_unchecked(&repr).into();
        ctx.count(&format!("{t}-dec:{}:{}", class, if d.is_some() { "accept" } else { "reject" }));
        ctx.case(&format!("{t}-dec"), true, &format!("{t} dec {h}"), &fmt(&d));
        ctx.case(&format!("{t}-dec"), true, &format!("{t} dec_unchecked {h}"), &fmt(&du));
        ctx.case(&format!("{t}-dec"), true, &format!("{t} dec:projective {h}"), &fmt(&dp.map(|p| p.to_affine())));
        ctx.case(&format!("{t}-dec"), true, &format!("{t} dec_unchecked:projective {h}"), &fmt(&dpu.map(|p| p.to_affine())));
        if let Some(p) = d {
            let pw = a_wp::<C>(&p);
            let canon = p.to_bytes().as_ref() == b;
            let on = big::w_on_curve(&e.f, &e.a, &e.b, &pw);
            if !canon || !on || du != d {
                crate::fail(ctx, &format!("C11:{t}:dec {h}"), "checked compressed decoder accepts an off-curve or non-canonical encoding", json!({"bytes": h, "decoded": big::tok_w(&pw), "reencoded": hex_bytes(p.to_bytes().as_ref())}));
            }
            if C::TAG == "g1" || C::TAG == "g2" {
                if big::w_mul(&e.f, &e.a, &C::order(), &pw).is_some() {
                    crate::fail(ctx, &format!("C11:{t}:dec-subgroup {h}"), "checked compressed decoder accepts a point outside the prime-order subgroup", json!({"bytes": h}));
                }
            }
        }
        // the same promises for the checked decoder of the PROJECTIVE type (its own code path in
        // g1.rs / g2.rs; the transcript reads proof points through it)
        if let Some(pp) = dp {
            let p = pp.to_affine();
            let pw = a_wp::<C>(&p);
            let canon = pp.to_bytes().as_ref() == b;
            let on = big::w_on_curve(&e.f, &e.a, &e.b, &pw);
            if !canon || !on || dpu != dp {
                crate::fail(ctx, &format!("C11:{t}:dec-projective {h}"), "checked compressed decoder of the projective type accepts an off-curve or non-canonical encoding", json!({"bytes": h, "decoded": big::tok_w(&pw), "reencoded": hex_bytes(pp.to_bytes().as_ref())}));
            }
            if (C::TAG == "g1" || C::TAG == "g2") && big::w_mul(&e.f, &e.a, &C::order(), &pw).is_some() {
                crate::fail(ctx, &format!("C11:{t}:dec-projective-subgroup {h}"), "checked compressed decoder of the projective type accepts a point outside the prime-order subgroup", json!({"bytes": h, "decoded": big::tok_w(&pw)}));
            }
        }
        if d.is_some() != dp.is_some() || du.is_some() != dpu.is_some() {
            crate::fail(ctx, &format!("C11:{t}:dec-affine-vs-projective {h}"), "the affine and the projective decoder disagree on acceptance of one byte string", json!({"bytes": h, "affine": d.is_some(), "projective": dp.is_some(), "affine_unchecked": du.is_some(), "projective_unchecked": dpu.is_some()}));
        }
    }
    let mut urepr = <C::A as UncompressedEncoding>::Uncompressed::default();
    if urepr.as_ref().len() == b.len() {
        urepr.as_mut().copy_from_slice(b);
        let d: Option<C::A> = C::A::from_uncompressed(&urepr).into();
        let du: Option<C::A> = C::A::from_uncompressed_unchecked(&urepr).into();
        ctx.count(&format!("{t}-decu:{}:{}", class, if d.is_some() { "accept" } else { "reject" }));
        ctx.case(&format!("{t}-decu"), true, &format!("{t} decu {h}"), &fmt(&d));
        ctx.case(&format!("{t}-decu"), true, &format!("{t} decu_unchecked {h}"), &fmt(&du));
        if let Some(p) = d {
            let pw = a_wp::<C>(&p);
            let canon = p.to_uncompressed().as_ref() == b;
            let on = big::w_on_curve(&e.f, &e.a, &e.b, &pw);
            if !on {
                crate::fail(ctx, &format!("C11:{t}:decu {h}"), "checked uncompressed decoder accepts an off-curve point", json!({"bytes": h}));
            }
            if !canon {
                // stable key: the defect is a property of the decoder, not of the particular string
                let compressed_form = b[0] & 0x80 != 0;
                let key = if compressed_form { format!("C11:{t}:uncompressed-decoder-accepts-compressed-form") } else { format!("C11:{t}:decu-noncanonical {h}") };
                crate::fail_once(ctx, &key, "checked uncompressed decoder accepts a non-canonical encoding (re-encoding the decoded point gives different bytes)", json!({"bytes": h, "decoded": big::tok_w(&pw), "reencoded": hex_bytes(p.to_uncompressed().as_ref())}));
            }
        }
    }
}

fn codec<C: W>(ctx: &mut Ctx, e: &Env, ops: &[Operand<C>])
where
    <C::A as UncompressedEncoding>::Uncompressed: AsRef<[u8]> + AsMut<[u8]>,
{
    let t = C::TAG;
    let mut valid_c: Vec<Vec<u8>> = vec![];
    let mut valid_u: Vec<Vec<u8>> = vec![];
    for o in ops {
        let pa = o.p.to_affine();
        let pt = a_tok::<C>(&pa);
        let c = pa.to_bytes();
        let u = pa.to_uncompressed();
        ctx.case(&format!("{t}-enc"), true, &format!("{t} enc {pt}"), &hex_bytes(c.as_ref()));
        ctx.case(&format!("{t}-enc"), true, &format!("{t} enc:projective {pt}"), &hex_bytes(o.p.to_bytes().as_ref()));
        ctx.case(&format!("{t}-enc"), true, &format!("{t} encu {pt}"), &hex_bytes(u.as_ref()));
        // round trips (through the unchecked decoders for points outside the subgroup)
        let in_sub = C::torsion_free(&pa).unwrap_or(true);
        let back: Option<C::A> = if in_sub { C::A::from_bytes(&c).into() } else { C::A::from_bytes_unchecked(&c).into() };
        let backu: Option<C::A> = if in_sub { C::A::from_uncompressed(&u).into() } else { C::A::from_uncompressed_unchecked(&u).into() };
        let x_zero = a_wp::<C>(&pa).map_or(false, |(x, _)| e.f.is_zero(&x));
        if (back != Some(pa) || backu != Some(pa)) && !x_zero {
            crate::fail(ctx, &format!("C11:{t}:roundtrip {pt}"), "decode(encode(P)) != P", json!({"point": pt, "compressed": hex_bytes(c.as_ref()), "compressed_ok": back == Some(pa), "uncompressed_ok": backu == Some(pa)}));
        }
        if x_zero {
            ctx.count(&format!("{t}-roundtrip-skipped:x=0 (not encodable by design of the wrapped codec)"));
        }
        decode_all::<C>(ctx, e, &format!("valid:{}", o.class), c.as_ref());
        decode_all::<C>(ctx, e, &format!("valid:{}", o.class), u.as_ref());
        valid_c.push(c.as_ref().to_vec());
        valid_u.push(u.as_ref().to_vec());
    }
    // single-bit corruptions
    let n_src = if crate::small(ctx) { 2 } else { 6 };
    for src in valid_c.iter().skip(1).take(n_src).chain(valid_u.iter().skip(1).take(n_src)) {
        let nbits = src.len() * 8;
        let bits: Vec<usize> = if crate::small(ctx) {
            vec![0, 1, 2, 3, 4, 7, 8, nbits / 2, nbits / 2 + 1, nbits - 8, nbits - 3, nbits - 2, nbits - 1]
        } else {
            (0..nbits).collect()
        };
        for bit in bits {
            let mut c = src.clone();
            c[bit / 8] ^= 0x80 >> (bit % 8);
            decode_all::<C>(ctx, e, "bitflip", &c);
        }
    }
    // flag-byte patterns on valid encodings and on zero strings
    let clen = valid_c[0].len();
    let ulen = valid_u[0].len();
    for len in [clen, ulen] {
        for flags in 0..8u8 {
            for pos in [0usize, len - 1] {
                let mut z = vec![0u8; len];
                z[pos] |= flags << 5;
                decode_all::<C>(ctx, e, "flags-on-zero", &z);
                z[len / 2] = 1;
                decode_all::<C>(ctx, e, "flags-on-zero+1", &z);
                let src = if len == clen { &valid_c[1] } else { &valid_u[1] };
                let mut g = src.clone();
                g[pos] = (g[pos] & 0x1f) | (flags << 5);
                decode_all::<C>(ctx, e, "flags-on-generator", &g);
            }
        }
    }
    // compressed form inside an uncompressed buffer (blst accepts it)
    {
        let mut buf = vec![0xabu8; ulen];
        buf[..clen].copy_from_slice(&valid_c[1]);
        decode_all::<C>(ctx, e, "compressed-in-uncompressed-buffer", &buf);
    }
    // coordinates at / above the modulus
    let p = e.f.p.clone();
    for (name, v) in [("x=p", p.clone()), ("x=p+1", p.clone() + bu(1)), ("x=p-1", p.clone() - bu(1)), ("x=0", bu(0)), ("x=1", bu(1)), ("x=2", bu(2))] {
        let fe_len = if C::TAG.ends_with('2') { clen / 2 } else { clen };
        let be: Vec<u8> = { let mut x = v.to_bytes_be(); let mut pad = vec![0u8; fe_len.saturating_sub(x.len())]; pad.append(&mut x); pad };
        if be.len() != fe_len { continue; }
        let le: Vec<u8> = be.iter().rev().copied().collect();
        for (bytes, tag) in [(be, "be"), (le, "le")] {
            for flags in [0u8, 0x80, 0xa0, 0x40, 0xc0] {
                // element in the first / last slot, flags on first / last byte
                let mut c = vec![0u8; clen];
                c[..fe_len].copy_from_slice(&bytes);
                let mut c2 = vec![0u8; clen];
                c2[clen - fe_len..].copy_from_slice(&bytes);
                for mut s in [c, c2] {
                    if tag == "be" { s[0] |= flags } else { let l = s.len(); s[l - 1] |= flags }
                    decode_all::<C>(ctx, e, &format!("modulus:{name}"), &s);
                    let mut u = vec![0u8; ulen];
                    u[..clen].copy_from_slice(&s);
                    decode_all::<C>(ctx, e, &format!("modulus:{name}"), &u);
                }
            }
        }
    }
    let n = if crate::small(ctx) { 40 } else { 1500 };
    let mut rng = ctx.rng(&format!("{t}-random-bytes"));
    for i in 0..n {
        let mut b = vec![0u8; if i % 2 == 0 { clen } else { ulen }];
        rng.fill_bytes(&mut b);
        decode_all::<C>(ctx, e, "random-bytes", &b);
        // plausible flags, value below the modulus most of the time
        if C::JAC { b[0] = (b[0] & 0x0f) | if i % 2 == 0 { 0x80 | (b[1] & 0x20) } else { 0 } } else { let l = b.len(); b[l - 1] &= 0x9f; }
        decode_all::<C>(ctx, e, "random-bytes-plausible", &b);
    }
    crate::extra::codec_extra::<C>(ctx, e, ops);
}
