//! Coverage table of property C11: exported curve type × trait method → how it is driven.
//!
//! Status codes
//!   M  request line answered by BOTH the real type and the Lean model `mzk-c11` (+ bigint oracle)
//!   V  compared value-for-value (raw coordinates where available) with an `M` form of the same
//!      operation (operator overload / by-reference / in-place / newtype path)
//!   O  checked by the harness-side oracle only (affine law over num-bigint, or a consistency rule)
//!   K  driven, disagreement is a KNOWN finding (findings/C11.json)
//!   X  belongs to another property (C12 MSM, C13 pairing, C16 panics on bytes)
//!   -  the type has no such method
//! Operand classes for every M/V/O cell of a binary/unary operation: identity, generator, random,
//! P = Q (same and other representation), P = −Q, P & 2P, rescaled representations, low-order
//! points and points outside the subgroup where the type admits them (Jubjub, Curve25519, G1, G2,
//! BN254 G2). The table is written into `stats.json` (`extra.coverage_table`) on every run.
use mzkh::Ctx;
use serde_json::json;

/// (family, types, [(method, status)])
const TABLE: &[(&str, &str, &[(&str, &str)])] = &[
    (
        "bls12_381 (blst wrappers)",
        "G1Projective/G1Affine, G2Projective/G2Affine",
        &[
            ("Add p+p, p+&p, p+a, p+&a, a+p, a+a", "M"),
            ("AddAssign p+=p, p+=&a", "M"),
            ("Sub p-p, p-a, a-p, a-a; SubAssign p-=p, p-=a", "M"),
            ("Neg (projective, affine)", "M"),
            ("double", "M"),
            ("Mul p*s, a*s, MulAssign (inside the subgroup)", "M"),
            ("Mul outside the prime-order subgroup", "K"),
            ("Sum (refs, owned)", "M"),
            ("batch_normalize (len 0 incl.)", "M"),
            ("to_affine / From / to_curve", "M"),
            ("to_bytes / to_compressed (affine, projective)", "M"),
            ("from_bytes / from_bytes_unchecked (affine, projective)", "M"),
            ("to_uncompressed / from_uncompressed[_unchecked]", "M"),
            ("SerdeObject: from_raw_bytes, read_raw, to_raw_bytes, write_raw", "M"),
            ("SerdeObject: from_raw_bytes_unchecked, read_raw_unchecked", "V"),
            ("serde Serialize/Deserialize (serde_impl.rs: serialize_affine, deserialize_affine, visit_seq)", "M"),
            ("compressed_size / uncompressed_size", "M"),
            ("from_xy / coordinates / x() / y() / z()", "M"),
            ("jacobian_coordinates / new_jacobian", "M"),
            ("is_on_curve (affine, projective)", "M"),
            ("is_identity", "M"),
            ("is_torsion_free", "M"),
            ("ct_eq / PartialEq (projective raw triples, affine)", "M"),
            ("endo", "M"),
            ("a() / b() / generator() / identity() / default()", "M"),
            ("random", "O"),
            ("hash_to_curve (CurveExt, and (msg, dst, aug))", "O"),
            ("mul_by_cofactor / clear_cofactor", "-"),
            ("multi_exp / recommended_wnaf_for_num_scalars", "X"),
            ("pairing_with", "X"),
        ],
    ),
    (
        "derive/curve.rs (BN254, pure Rust)",
        "bn256::G1/G1Affine, bn256::G2/G2Affine",
        &[
            ("Add / Sub in every mix, by value / reference / in place", "M"),
            ("raw (X, Y, Z) of add, mixed add, double, neg, endo, mul loops", "M"),
            ("Mul p*s, a*s, MulAssign", "M"),
            ("Sum (refs M raw triple, owned V)", "M"),
            ("batch_normalize (raw triples, identities at every position, len 0..)", "M"),
            ("to_affine / to_curve", "M"),
            ("to_bytes / from_bytes[_unchecked] (serde.rs Compressed, TwoSpare flags)", "M"),
            ("to_uncompressed / from_uncompressed[_unchecked]", "M"),
            ("SerdeObject: from_raw_bytes, read_raw accept exactly the on-curve pairs / triples (regression of fix 569715f)", "M"),
            ("SerdeObject: to_raw_bytes / write_raw round trip, from_raw_bytes_unchecked, read_raw_unchecked", "O"),
            ("from_xy / coordinates", "M"),
            ("jacobian_coordinates / new_jacobian", "M"),
            ("is_on_curve (affine, projective; arbitrary triples)", "M"),
            ("is_identity / ct_eq / PartialEq", "M"),
            ("is_torsion_free (G1 via to_curve, G2 CofactorGroup)", "M"),
            ("clear_cofactor (G2)", "O"),
            ("endo", "M"),
            ("random", "O"),
            ("hash_to_curve (hash_to_curve.rs: expand_message, hash_to_field, svdw map; G2: + clear_cofactor)", "O"),
        ],
    ),
    (
        "jubjub/curve.rs (pure Rust)",
        "JubjubExtended, JubjubAffine, JubjubSubgroup, JubjubAffineNiels, ExtendedNielsPoint",
        &[
            ("Add/Sub ext±ext, ext±affine, affine±affine (raw U,V,Z,T1,T2)", "M"),
            ("Add/Sub by reference, AddAssign/SubAssign, ±Niels, subgroup newtype, ext±subgroup", "V"),
            ("Neg (extended raw, affine), subgroup Neg", "M"),
            ("double (inherent, Group::double, subgroup)", "M"),
            ("mul_by_cofactor / clear_cofactor (extended, affine)", "M"),
            ("Mul ext*s, affine*s (raw) ; &, *=, Niels*s, multiply_bits, subgroup*s", "M"),
            ("multiply_bits on raw 256-bit patterns (top 4 bits ignored)", "M"),
            ("Sum (refs M raw, owned V, JubjubSubgroup V)", "M"),
            ("batch_normalize (Curve::, free fn in place; Z = 0 entries at every position)", "M"),
            ("to_affine / From / to_extended / to_curve / from_raw_unchecked", "M"),
            ("to_niels (extended, affine), Niels identities", "M"),
            ("to_bytes (affine; extended, GroupEncoding V)", "M"),
            ("from_bytes (ZIP 216), from_bytes_pre_zip216_compatibility, subgroup decoder", "M"),
            ("from_bytes of extended / unchecked / GroupEncoding / single-item batch", "V"),
            ("batch_from_bytes on mixed batches (rejected v at every position)", "M"),
            ("is_identity / is_small_order / is_torsion_free / is_prime_order (extended M, affine V)", "M"),
            ("into_subgroup", "V"),
            ("ct_eq / PartialEq (extended raw M, affine O)", "M"),
            ("identity() / default() / generator() (full group and subgroup)", "M"),
            ("random (full group O on-curve, subgroup O prime order)", "O"),
            ("get_u / get_v", "M"),
        ],
    ),
    (
        "k256/curve.rs (k256 wrappers)",
        "K256, K256Affine",
        &[
            ("Add p+p, p+&p, p+a, p+&a, p+=p, p+=&a", "M"),
            ("Sub p-p, p-a, p-=&p, p-=a", "M"),
            ("Neg (value, reference)", "M"),
            ("double", "M"),
            ("Mul p*s, p*&s, s*p, MulAssign", "M"),
            ("Sum (refs, owned)", "M"),
            ("batch_normalize (len 0 incl.)", "M"),
            ("to_affine / From", "M"),
            ("to_bytes / from_bytes[_unchecked] (affine, projective; SEC1 tags 00..07, 80, ff)", "M"),
            ("from_xy / x() / y() (identity incl.)", "M"),
            ("ct_eq / PartialEq (projective, affine)", "O"),
            ("base_zeta / scalar_zeta", "O"),
            ("identity / default / generator", "M"),
            ("random", "O"),
        ],
    ),
    (
        "curve25519 (curve25519-dalek wrappers, Edwards form only: the repo has no Montgomery form)",
        "Curve25519, Curve25519Affine, Curve25519Subgroup",
        &[
            ("Add p+p, p+&p, &p+&p, p+a, p+&a, p+=p, p+=&a, subgroup+subgroup", "M"),
            ("Sub p-p, p-a, p-=&p, p-=a, subgroup-subgroup", "M"),
            ("Neg", "M"),
            ("double", "M"),
            ("Mul p*s, p*&s, s*p, MulAssign (full group incl. small order)", "M"),
            ("Sum (refs, owned)", "M"),
            ("batch_normalize", "O"),
            ("to_affine / From / from_edwards / to_edwards", "M"),
            ("to_bytes (projective, affine) / from_bytes[_unchecked] (projective, affine)", "M"),
            ("checked decoder canonicity", "K"),
            ("from_xy / x() / y()", "M"),
            ("is_identity / is_torsion_free / Subgroup::from_edwards", "M"),
            ("ct_eq / PartialEq", "O"),
            ("identity / default / generator (full group, subgroup)", "M"),
            ("random (full group, subgroup)", "O"),
        ],
    ),
];

pub fn emit(ctx: &mut Ctx) {
    let mut rows = vec![];
    for (family, types, cells) in TABLE {
        for (method, status) in *cells {
            ctx.count(&format!("cover:{status}"));
            rows.push(json!({"family": family, "types": types, "method": method, "status": status}));
        }
    }
    ctx.set_extra("coverage_table", json!(rows));
    ctx.set_extra(
        "coverage_legend",
        json!({"M": "model line + oracle", "V": "variant compared with an M form", "O": "oracle only", "K": "known finding", "X": "other property", "-": "no such method"}),
    );
}
