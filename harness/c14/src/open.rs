//! The real `KZGCommitmentScheme::multi_open` / `multi_prepare(..).verify(..)` on structured query
//! sets, with a known toxic secret `s` (so that the Lean model can predict every group element by
//! its discrete logarithm), recorded challenges, and the sweep of single-element corruptions of
//! the verifier's evaluations / points / commitments and of the proof.

use std::io::Cursor;

use blake2b_simd::State as Blake2bState;
use ff::Field;
use group::Group;
use midnight_curves::{Bls12, Fq, G1Affine, G1Projective, G2Projective};
use midnight_proofs::{
    poly::{
        commitment::{Guard, PolynomialCommitmentScheme},
        kzg::{
            params::{ParamsKZG, ParamsVerifierKZG},
            verif_hooks::{
                verif_open_trace_on, verif_prepare_trace_on, verif_sets_prover, verif_sets_verifier, verif_take_open_trace,
                verif_take_prepare_trace, VerifOpenTrace,
            },
            KZGCommitmentScheme,
        },
        Coeff, CommitmentLabel, Error, EvaluationDomain, Polynomial, ProverQuery, VerifierQuery,
    },
    transcript::{Hashable, Transcript},
    utils::arithmetic::eval_polynomial,
};
use mzkh::{catch, fe_hex, Ctx};
use serde_json::json;

use crate::tr::{self, RecT};

pub type Kzg = KZGCommitmentScheme<Bls12>;

thread_local! {
    /// Size of the explicit rayon pool inside which `multi_open` / `multi_prepare` / the pairing
    /// check run (0 = the global pool).
    static POOL: std::cell::Cell<usize> = const { std::cell::Cell::new(0) };
}

/// Selects the rayon pool of the following prover / verifier runs (0 = the global pool).
pub fn set_pool(t: usize) {
    POOL.with(|p| p.set(t));
}

pub fn pool() -> usize {
    POOL.with(|p| p.get())
}

/// ` pool=<t>` appended to the request lines of runs inside an explicit pool (the model's answer
/// does not depend on it: completeness must hold for every thread count).
pub fn pool_tag() -> String {
    match pool() {
        0 => String::new(),
        t => format!(" pool={t}"),
    }
}

fn pool_kind() -> String {
    match pool() {
        0 => String::new(),
        t => format!("pool{t}-"),
    }
}

/// Runs `f` inside a fresh rayon pool of the selected size (`rayon::current_num_threads()` = that
/// size for everything `f` calls); the thread-local recorders are read inside `f`, on the same
/// worker thread.
fn in_pool<R: Send>(f: impl FnOnce() -> R + Send) -> R {
    match pool() {
        0 => f(),
        t => rayon::ThreadPoolBuilder::new().num_threads(t).build().expect("rayon pool").install(f),
    }
}

/// The real `eval_polynomial` inside a rayon pool of `t` threads.
pub fn eval_in_pool(t: usize, poly: &[Fq], x: Fq) -> Result<Fq, String> {
    let old = pool();
    set_pool(t);
    let r = in_pool(|| catch(|| eval_polynomial(poly, x)));
    set_pool(old);
    r
}

pub fn hexl(v: &[Fq]) -> String {
    if v.is_empty() {
        "-".into()
    } else {
        v.iter().map(fe_hex).collect::<Vec<_>>().join(",")
    }
}

pub fn affine_str(p: &G1Projective) -> String {
    use group::{prime::PrimeCurveAffine, Curve};
    use midnight_curves::CurveAffine;
    let a: G1Affine = p.to_affine();
    if bool::from(a.is_identity()) {
        "inf".to_string()
    } else {
        let c = a.coordinates().unwrap();
        format!("{},{}", fe_hex(c.x()), fe_hex(c.y()))
    }
}

pub struct Setup {
    pub k: u32,
    pub n: usize,
    pub s: Fq,
    pub params: ParamsKZG<Bls12>,
    pub vparams: ParamsVerifierKZG<Bls12>,
    pub dom: EvaluationDomain<Fq>,
}

/// Parameters with the known secret `s`: `g = [s^i]G`, `s_g2 = [s]G2`.
pub fn setup(k: u32, s: Fq) -> Setup {
    let n = 1usize << k;
    let mut g = Vec::with_capacity(n);
    let mut cur = G1Projective::generator();
    for _ in 0..n {
        g.push(cur);
        cur *= s;
    }
    let params = ParamsKZG::<Bls12>::from_parts(k, g, None, G2Projective::generator(), G2Projective::generator() * s);
    let vparams = params.verifier_params();
    Setup { k, n, s, params, vparams, dom: EvaluationDomain::<Fq>::new(1, k) }
}

/// Reference to a commitment of the table, as the verifier names it.
#[derive(Clone, Debug, PartialEq)]
pub enum CRef {
    One(usize),
    Chop(Vec<usize>, u64),
}

impl CRef {
    pub fn fmt(&self) -> String {
        match self {
            CRef::One(i) => format!("{i}"),
            CRef::Chop(parts, n) => format!("c{n}:{}", parts.iter().map(|i| i.to_string()).collect::<Vec<_>>().join("+")),
        }
    }
}

#[derive(Clone, Debug)]
pub struct VQ {
    pub r: CRef,
    pub pt: Fq,
    pub ev: Fq,
}

pub fn fmt_vqs(v: &[VQ]) -> String {
    if v.is_empty() {
        return "-".into();
    }
    v.iter().map(|q| format!("{}@{}={}", q.r.fmt(), fe_hex(&q.pt), fe_hex(&q.ev))).collect::<Vec<_>>().join(",")
}

pub struct ProverOut {
    /// `Ok(proof bytes)`, `Err("dup")`, `Err("opening")`, `Err("panic: ..")`
    pub res: Result<Vec<u8>, String>,
    pub ch: Vec<Fq>,
    pub ev: String,
    /// the intermediate polynomials of `multi_open` (trace hook)
    pub otrace: Option<VerifOpenTrace>,
}

/// Runs the real `multi_open` on `(poly index, point)` queries.
pub fn run_prover(st: &Setup, polys: &[Polynomial<Fq, Coeff>], pq: &[(usize, Fq)], salt: u32) -> ProverOut {
    in_pool(|| run_prover_here(st, polys, pq, salt))
}

fn run_prover_here(st: &Setup, polys: &[Polynomial<Fq, Coeff>], pq: &[(usize, Fq)], salt: u32) -> ProverOut {
    let _ = tr::take();
    verif_open_trace_on(true);
    let r = catch(|| {
        let mut t = RecT::init();
        t.common(&salt).unwrap();
        let qs: Vec<ProverQuery<'_, Fq>> = pq.iter().map(|&(i, p)| ProverQuery::new(p, &polys[i])).collect();
        Kzg::multi_open(&st.params, &qs, &mut t).map(|_| t.finalize())
    });
    let (ch, ev) = tr::take();
    let mut ots = verif_take_open_trace();
    verif_open_trace_on(false);
    let otrace = if ots.len() == 1 { ots.pop() } else { None };
    let res = match r {
        Ok(Ok(bytes)) => Ok(bytes),
        Ok(Err(Error::DuplicatedQuery)) => Err("err dup".to_string()),
        Ok(Err(Error::OpeningError)) => Err("err opening".to_string()),
        Ok(Err(Error::SamplingError)) => Err("err sampling".to_string()),
        Err(m) => Err(format!("panic: {m}")),
    };
    ProverOut { res, ch, ev, otrace }
}

/// The elements of a proof: `f_com`, the `q` evaluations, `pi`.
#[derive(Clone, Debug)]
pub struct ProofParts {
    pub f: G1Projective,
    pub qe: Vec<Fq>,
    pub pi: G1Projective,
}

pub fn parse_proof(bytes: &[u8]) -> Option<ProofParts> {
    if bytes.len() < 96 || (bytes.len() - 96) % 32 != 0 {
        return None;
    }
    let mut c = Cursor::new(bytes.to_vec());
    let f = <G1Projective as Hashable<Blake2bState>>::read(&mut c).ok()?;
    let mut qe = vec![];
    for _ in 0..(bytes.len() - 96) / 32 {
        qe.push(<Fq as Hashable<Blake2bState>>::read(&mut c).ok()?);
    }
    let pi = <G1Projective as Hashable<Blake2bState>>::read(&mut c).ok()?;
    Some(ProofParts { f, qe, pi })
}

pub fn proof_bytes(p: &ProofParts) -> Vec<u8> {
    let mut out = vec![];
    out.extend(<G1Projective as Hashable<Blake2bState>>::to_bytes(&p.f));
    for e in &p.qe {
        out.extend(<Fq as Hashable<Blake2bState>>::to_bytes(e));
    }
    out.extend(<G1Projective as Hashable<Blake2bState>>::to_bytes(&p.pi));
    out
}

pub struct VerifierOut {
    /// canonical answer (without the event prefix): `L=.. R=.. acc=b` / `err dup` / `err sampling` / `panic`
    pub ans: String,
    pub accepted: bool,
    pub panicked: Option<String>,
    pub ch: Vec<Fq>,
    pub ev: String,
    /// the intermediate scalars of `multi_prepare` (trace hook), when it reached `v`
    pub trace: Option<String>,
}

fn fq_of(b: &[u8]) -> Fq {
    use ff::PrimeField;
    let mut r = <Fq as PrimeField>::Repr::default();
    r.as_mut().copy_from_slice(b);
    Fq::from_repr(r).unwrap()
}

fn dotted(v: &[Vec<u8>]) -> String {
    if v.is_empty() {
        "-".into()
    } else {
        v.iter().map(|b| fe_hex(&fq_of(b))).collect::<Vec<_>>().join(".")
    }
}

fn base_id(b: &G1Projective, coms: &[G1Projective], f: &G1Projective, pi: &G1Projective) -> String {
    if let Some(i) = coms.iter().position(|c| c == b) {
        return format!("k{i}");
    }
    if b == f {
        return "F".into();
    }
    if b == pi {
        return "P".into();
    }
    if *b == -G1Projective::generator() {
        return "N".into();
    }
    "?".into()
}

pub fn build_vqs<'a>(coms: &'a [G1Projective], vqs: &[VQ]) -> Vec<VerifierQuery<'a, Fq, Kzg>> {
    vqs.iter()
        .map(|q| match &q.r {
            CRef::One(i) => VerifierQuery::new(q.pt, CommitmentLabel::Custom(format!("k{i}")), &coms[*i], q.ev),
            CRef::Chop(parts, n) => {
                let refs: Vec<&G1Projective> = parts.iter().map(|&i| &coms[i]).collect();
                VerifierQuery::from_parts(q.pt, CommitmentLabel::Custom("chopped".into()), &refs, q.ev, *n)
            }
        })
        .collect()
}

/// Runs the real `multi_prepare` and the final pairing check. `f`/`pi` are the (possibly
/// tampered) group elements inside `proof`, used only to name the bases of the deferred MSM.
pub fn run_verifier(st: &Setup, coms: &[G1Projective], vqs: &[VQ], proof: &[u8], f: &G1Projective, pi: &G1Projective, salt: u32) -> VerifierOut {
    in_pool(|| run_verifier_here(st, coms, vqs, proof, f, pi, salt))
}

fn run_verifier_here(st: &Setup, coms: &[G1Projective], vqs: &[VQ], proof: &[u8], f: &G1Projective, pi: &G1Projective, salt: u32) -> VerifierOut {
    let _ = tr::take();
    verif_prepare_trace_on(true);
    let r = catch(|| {
        let mut t = RecT::init_from_bytes(proof);
        t.common(&salt).unwrap();
        let qs = build_vqs(coms, vqs);
        match Kzg::multi_prepare(&qs, &mut t) {
            Err(e) => Err(e),
            Ok(dual) => {
                let (l, r) = dual.split();
                let fmt = |v: &Vec<(&CommitmentLabel, &Fq, &G1Projective)>| {
                    if v.is_empty() {
                        "-".to_string()
                    } else {
                        v.iter().map(|(_, s, b)| format!("{}*{}", fe_hex(*s), base_id(b, coms, f, pi))).collect::<Vec<_>>().join(",")
                    }
                };
                let ls = fmt(&l);
                let rs = fmt(&r);
                let acc = dual.clone().verify(&st.vparams).is_ok();
                Ok((ls, rs, acc))
            }
        }
    });
    let (ch, ev) = tr::take();
    let traces = verif_take_prepare_trace();
    verif_prepare_trace_on(false);
    let trace = match traces.as_slice() {
        [t] if !t.v.is_empty() => Some(format!(
            "px1={} qes={} r={} fe={} v={}",
            dotted(&t.powers_x1),
            if t.q_eval_sets.is_empty() { "-".to_string() } else { t.q_eval_sets.iter().map(|s| dotted(s)).collect::<Vec<_>>().join("|") },
            dotted(&t.r_evals),
            fe_hex(&fq_of(&t.f_eval)),
            fe_hex(&fq_of(&t.v))
        )),
        _ => None,
    };
    match r {
        Ok(Ok((l, r, acc))) => VerifierOut { ans: format!("L={l} R={r} acc={}", acc as u8), accepted: acc, panicked: None, ch, ev, trace },
        Ok(Err(Error::DuplicatedQuery)) => VerifierOut { ans: "err dup".into(), accepted: false, panicked: None, ch, ev, trace },
        Ok(Err(Error::SamplingError)) => VerifierOut { ans: "err sampling".into(), accepted: false, panicked: None, ch, ev, trace },
        Ok(Err(Error::OpeningError)) => VerifierOut { ans: "err opening".into(), accepted: false, panicked: None, ch, ev, trace },
        Err(m) => VerifierOut { ans: "panic".into(), accepted: false, panicked: Some(m), ch, ev, trace },
    }
}

// -------------------------------------------------------------------------------------------
// A base case: a table of polynomials, items (plain polynomial opened at some points / chopped
// polynomial opened at one point) and the order of the queries.

#[derive(Clone, Debug)]
pub enum Item {
    Plain { poly: usize, points: Vec<usize> },
    /// pieces (indices into the polynomial table), the `n` handed to `from_parts`, the point
    Chopped { pieces: Vec<usize>, nparam: u64, point: usize },
}

#[derive(Clone, Debug)]
pub struct Base {
    pub k: u32,
    pub s: Fq,
    pub name: String,
    /// coefficient vectors (length `2^k`) of every polynomial, pieces included
    pub polys: Vec<Vec<Fq>>,
    pub pts: Vec<Fq>,
    pub items: Vec<Item>,
    /// `(item index, point index)` in query order
    pub order: Vec<(usize, usize)>,
}

pub fn horner(p: &[Fq], x: Fq) -> Fq {
    p.iter().rev().fold(Fq::ZERO, |acc, c| acc * x + c)
}

/// `Σ_i (x^(nparam-1))^i · piece_i` — what the prover opens for a chopped commitment
/// (`vanishing/prover.rs: evaluate`).
pub fn combine(pieces: &[&Vec<Fq>], x: Fq, nparam: u64) -> Vec<Fq> {
    let sf = x.pow_vartime([nparam.wrapping_sub(1)]);
    let mut out = vec![Fq::ZERO; pieces[0].len()];
    let mut sc = Fq::ONE;
    for p in pieces {
        for (o, c) in out.iter_mut().zip(p.iter()) {
            *o += *c * sc;
        }
        sc *= sf;
    }
    out
}

pub struct Built {
    /// polynomial table of the prover: `base.polys` followed by one combined polynomial per chopped item
    pub ppolys: Vec<Vec<Fq>>,
    /// prover queries `(index into ppolys, point)`
    pub pq: Vec<(usize, Fq)>,
    /// honest verifier queries over the commitment table (= commitments of `ppolys`, then foreign ones)
    pub vq: Vec<VQ>,
}

pub fn build(b: &Base) -> Built {
    let mut ppolys = b.polys.clone();
    let mut comb_of_item = vec![usize::MAX; b.items.len()];
    for (ii, it) in b.items.iter().enumerate() {
        if let Item::Chopped { pieces, nparam, point } = it {
            let ps: Vec<&Vec<Fq>> = pieces.iter().map(|&i| &b.polys[i]).collect();
            ppolys.push(combine(&ps, b.pts[*point], *nparam));
            comb_of_item[ii] = ppolys.len() - 1;
        }
    }
    let mut pq = vec![];
    let mut vq = vec![];
    for &(ii, pi) in &b.order {
        let pt = b.pts[pi];
        match &b.items[ii] {
            Item::Plain { poly, .. } => {
                pq.push((*poly, pt));
                vq.push(VQ { r: CRef::One(*poly), pt, ev: horner(&b.polys[*poly], pt) });
            }
            Item::Chopped { pieces, nparam, .. } => {
                let ci = comb_of_item[ii];
                pq.push((ci, pt));
                vq.push(VQ { r: CRef::Chop(pieces.clone(), *nparam), pt, ev: horner(&ppolys[ci], pt) });
            }
        }
    }
    Built { ppolys, pq, vq }
}

/// Whether the claim of a verifier query is true for the polynomials behind the table.
pub fn claim_true(table: &[Vec<Fq>], q: &VQ) -> bool {
    match &q.r {
        CRef::One(i) => horner(&table[*i], q.pt) == q.ev,
        CRef::Chop(parts, n) => {
            if parts.is_empty() {
                return q.ev == Fq::ZERO;
            }
            let ps: Vec<&Vec<Fq>> = parts.iter().map(|&i| &table[i]).collect();
            horner(&combine(&ps, q.pt, *n), q.pt) == q.ev
        }
    }
}

pub struct Proved {
    pub st: Setup,
    pub built: Built,
    /// polynomials behind the commitment table (prover polynomials, then constants for the foreign commitments)
    pub table: Vec<Vec<Fq>>,
    pub polys: Vec<Polynomial<Fq, Coeff>>,
    pub coms: Vec<G1Projective>,
    pub dlogs: Vec<Fq>,
    pub proof: Vec<u8>,
    pub parts: ProofParts,
    pub salt: u32,
}

fn shape_of(b: &Base) -> String {
    let items = b
        .items
        .iter()
        .map(|it| match it {
            Item::Plain { points, .. } => format!("p{}", points.iter().map(|p| p.to_string()).collect::<Vec<_>>().join("")),
            Item::Chopped { pieces, nparam, point } => format!("c{}n{}@{}", pieces.len(), nparam, point),
        })
        .collect::<Vec<_>>()
        .join(",");
    let ord = b.order.iter().map(|(i, p)| format!("{i}.{p}")).collect::<Vec<_>>().join(",");
    format!("k{}:{}:{}", b.k, items, ord)
}

/// Proves a base case with the real `multi_open`, emits the `sets-prover` and `prove` lines, checks
/// `commit(p) = [p(s)]G`. Returns `None` when the prover did not produce a proof.
pub fn prove_base(ctx: &mut Ctx, b: &Base, salt: u32, nforeign: usize, rng: &mut rand_chacha::ChaCha8Rng) -> Option<Proved> {
    let st = setup(b.k, b.s);
    let built = build(b);
    let polys: Vec<Polynomial<Fq, Coeff>> = built.ppolys.iter().map(|c| st.dom.coeff_from_vec(c.clone())).collect();
    // grouping of the real prover queries through the hook
    {
        let qs: Vec<ProverQuery<'_, Fq>> = built.pq.iter().map(|&(i, p)| ProverQuery::new(p, &polys[i])).collect();
        let res = verif_sets_prover::<Fq>(&qs);
        let line = format!(
            "sets {}",
            if built.pq.is_empty() {
                "-".to_string()
            } else {
                built.pq.iter().map(|&(i, p)| format!("{}:{}:{}", i, fe_hex(&p), fe_hex(&horner(&built.ppolys[i], p)))).collect::<Vec<_>>().join(",")
            }
        );
        ctx.case("sets-prover", true, &line, &crate::sets::fmt_sets(&res, |first| built.pq[first].0));
    }
    let out = run_prover(&st, &polys, &built.pq, salt);
    let line = format!(
        "prove {} {} P={} Q={} X={}",
        b.k,
        fe_hex(&b.s),
        built.ppolys.iter().map(|p| hexl(p)).collect::<Vec<_>>().join(";"),
        if built.pq.is_empty() { "-".to_string() } else { built.pq.iter().map(|&(i, p)| format!("{}@{}", i, fe_hex(&p))).collect::<Vec<_>>().join(",") },
        hexl(&out.ch)
    ) + &pool_tag();
    let kind = format!("prove-{}{}", pool_kind(), b.name);
    match &out.res {
        Err(e) => {
            let short = if e.starts_with("panic") { "panic".to_string() } else { e.clone() };
            ctx.case(&kind, true, &line, &short);
            ctx.count(&format!("prover:{short}"));
            // a duplicate-free query set must be opened
            let mut dup = false;
            for i in 0..built.pq.len() {
                for j in 0..i {
                    if built.pq[i] == built.pq[j] {
                        dup = true;
                    }
                }
            }
            if !(dup && short == "err dup") && !built.pq.is_empty() {
                crate::ofail(ctx, 
                    &format!("prover-fails:{}:{}", short, shape_class(b)),
                    "multi_open does not produce a proof for a duplicate-free query set",
                    json!({"shape": shape_of(b), "result": e, "line": line}),
                );
            }
            None
        }
        Ok(bytes) => {
            let parts = match parse_proof(bytes) {
                Some(p) => p,
                None => {
                    ctx.case(&kind, true, &line, "unparsable-proof");
                    crate::ofail(ctx, &format!("prover-garbage:{}", shape_class(b)), "multi_open wrote a proof that does not parse", json!({"shape": shape_of(b)}));
                    return None;
                }
            };
            let ans = format!("ev={} f={} qe={} pi={}", out.ev, affine_str(&parts.f), hexl(&parts.qe), affine_str(&parts.pi));
            ctx.case(&kind, true, &line, &ans);
            // the prover's intermediate polynomials (q_polys per set, f_poly, final_poly, v, pi_poly;
            // trace hook inside multi_open) against the model prover: length, lowest and highest
            // coefficient, value at a test point
            if let (Some(ot), true) = (&out.otrace, out.ch.len() == 4) {
                let z = out.ch[3] * out.ch[3] + Fq::from(3u64);
                let fq_vec = |v: &Vec<Vec<u8>>| -> Vec<Fq> { v.iter().map(|b| fq_of(b)).collect() };
                let digest = |v: &Vec<Vec<u8>>| -> String {
                    let c = fq_vec(v);
                    if c.is_empty() {
                        "0:-:-:0x0".to_string()
                    } else {
                        format!("{}:{}:{}:{}", c.len(), fe_hex(&c[0]), fe_hex(&c[c.len() - 1]), fe_hex(&horner(&c, z)))
                    }
                };
                let oline = format!(
                    "otrace {} P={} Q={} X={} Z={}",
                    b.k,
                    built.ppolys.iter().map(|p| hexl(p)).collect::<Vec<_>>().join(";"),
                    built.pq.iter().map(|&(i, p)| format!("{}@{}", i, fe_hex(&p))).collect::<Vec<_>>().join(","),
                    hexl(&out.ch),
                    fe_hex(&z)
                ) + &pool_tag();
                let oans = format!(
                    "q={} f={} fin={} v={} pi={}",
                    ot.q_polys.iter().map(|q| digest(q)).collect::<Vec<_>>().join("|"),
                    digest(&ot.f_poly),
                    digest(&ot.final_poly),
                    if ot.v.is_empty() { "-".to_string() } else { fe_hex(&fq_of(&ot.v)) },
                    digest(&ot.pi_poly)
                );
                ctx.case(&format!("otrace-{}{}", pool_kind(), if b.name == "rand" { "rand" } else { "structured" }), true, &oline, &oans);
                // multi_open_matches_verifier on the real prover: the q evaluations written into the
                // proof are the values of q_polys at x3, and v is the value of final_poly at x3
                let x3 = out.ch[2];
                let qs_ok = ot.q_polys.len() == parts.qe.len() && ot.q_polys.iter().zip(parts.qe.iter()).all(|(q, e)| horner(&fq_vec(q), x3) == *e);
                let v_ok = !ot.v.is_empty() && horner(&fq_vec(&ot.final_poly), x3) == fq_of(&ot.v);
                ctx.count(&format!("prover:v=final_poly(x3):{}", v_ok));
                // (a wrong `v` alone does not reach the proof - the quotient by X - x3 does not depend on
                // it - and is reported by the `otrace` line only)
                if !qs_ok {
                    crate::ofail(
                        ctx,
                        &format!("prover-eval-mismatch:{}{}", pool_kind(), shape_class(b)),
                        "multi_open writes a q evaluation into the proof that is not the value of its own q polynomial at x3",
                        json!({"shape": shape_of(b), "pool": pool(), "q_evals_ok": qs_ok, "v_ok": v_ok, "line": line}),
                    );
                }
            }
            // a repeated (polynomial reference, point) pair must be refused
            if (0..built.pq.len()).any(|i| (0..i).any(|j| built.pq[i] == built.pq[j])) {
                crate::ofail(ctx, &format!("dup-accepted:prover:{}", shape_class(b)), "multi_open accepts a query list that repeats a (polynomial, point) pair", json!({"shape": shape_of(b), "line": line}));
            }
            ctx.count("prover:ok");
            ctx.count(&format!("prover:nsets={}", parts.qe.len()));
            // commitment table
            let mut table = built.ppolys.clone();
            let mut coms: Vec<G1Projective> = polys.iter().map(|p| Kzg::commit(&st.params, p)).collect();
            let mut dlogs: Vec<Fq> = built.ppolys.iter().map(|p| eval_polynomial(p, b.s)).collect();
            for (i, (c, d)) in coms.iter().zip(dlogs.iter()).enumerate() {
                if *c != G1Projective::generator() * d {
                    crate::ofail(ctx, &format!("commit:{}", shape_class(b)), "commit(p) != [p(s)]G", json!({"shape": shape_of(b), "poly": i}));
                }
            }
            for _ in 0..nforeign {
                let d = Fq::random(&mut *rng);
                let mut c = vec![Fq::ZERO; st.n];
                c[0] = d;
                table.push(c);
                coms.push(G1Projective::generator() * d);
                dlogs.push(d);
            }
            Some(Proved { st, built, table, polys, coms, dlogs, proof: bytes.clone(), parts, salt })
        }
    }
}

/// Coarse class of a base case used in oracle keys (stable across seeds).
pub fn shape_class(b: &Base) -> String {
    let chopped = b.items.iter().filter(|i| matches!(i, Item::Chopped { .. })).count();
    let maxpts = b.items.iter().map(|i| match i { Item::Plain { points, .. } => points.len(), _ => 1 }).max().unwrap_or(0);
    let chop_later = b.items.iter().any(|i| match i {
        Item::Chopped { point, .. } => first_index_of_point(b, *point) != 0,
        _ => false,
    });
    format!(
        "k{}:items{}:chopped{}:maxpts{}{}{}",
        b.k,
        b.items.len().min(5),
        chopped.min(2),
        maxpts,
        if maxpts > (1 << b.k) { ":pts>n" } else { "" },
        if chop_later { ":chopped-at-later-point" } else { "" }
    )
}

/// Position of a point in the order of first appearance of the points in the query list.
pub fn first_index_of_point(b: &Base, p: usize) -> usize {
    let mut seen: Vec<usize> = vec![];
    for &(_, q) in &b.order {
        if !seen.contains(&q) {
            seen.push(q);
        }
    }
    seen.iter().position(|&q| q == p).unwrap_or(usize::MAX)
}

#[derive(Clone, Debug)]
pub enum Tamper {
    None,
    F(Fq),
    Q(usize, Fq),
    Pi(Fq),
    /// keep only the first `len` bytes
    Trunc(usize),
    /// append bytes after the proof
    Extra,
}

impl Tamper {
    pub fn fmt(&self) -> String {
        match self {
            Tamper::None => "-".into(),
            Tamper::F(d) => format!("f+{}", fe_hex(d)),
            Tamper::Q(j, d) => format!("q{j}+{}", fe_hex(d)),
            Tamper::Pi(d) => format!("p+{}", fe_hex(d)),
            Tamper::Trunc(m) => format!("trunc{m}"),
            Tamper::Extra => "extra".into(),
        }
    }
}

pub fn apply_tamper(p: &Proved, t: &Tamper) -> (Vec<u8>, G1Projective, G1Projective) {
    let mut parts = p.parts.clone();
    match t {
        Tamper::None => {}
        Tamper::F(d) => parts.f += G1Projective::generator() * d,
        Tamper::Q(j, d) => parts.qe[*j] += d,
        Tamper::Pi(d) => parts.pi += G1Projective::generator() * d,
        Tamper::Trunc(len) => {
            return (p.proof[..(*len).min(p.proof.len())].to_vec(), parts.f, parts.pi);
        }
        Tamper::Extra => {
            let mut b = p.proof.clone();
            b.extend_from_slice(&[0x5a; 17]);
            return (b, parts.f, parts.pi);
        }
    }
    (proof_bytes(&parts), parts.f, parts.pi)
}

/// One verifier run on a proved base case: emits the `verify` line, applies the oracles.
/// `what` names the corruption (for the distribution); `honest` = nothing was changed.
pub fn verify_case(ctx: &mut Ctx, b: &Base, p: &Proved, vqs: &[VQ], t: &Tamper, what: &str, honest: bool) -> VerifierOut {
    let (bytes, f, pi) = apply_tamper(p, t);
    // grouping of the real verifier queries through the hook
    if matches!(t, Tamper::None) {
        let qs = build_vqs(&p.coms, vqs);
        let res = verif_sets_verifier::<Fq, Kzg>(&qs);
        // commitment identity of the verifier = the reference; rendered by the index of the first query
        let line = format!(
            "sets {}",
            if vqs.is_empty() {
                "-".to_string()
            } else {
                let mut refs: Vec<&CRef> = vec![];
                vqs.iter()
                    .map(|q| {
                        let id = match refs.iter().position(|r| **r == q.r) {
                            Some(i) => i,
                            None => {
                                refs.push(&q.r);
                                refs.len() - 1
                            }
                        };
                        format!("{}:{}:{}", id, fe_hex(&q.pt), fe_hex(&q.ev))
                    })
                    .collect::<Vec<_>>()
                    .join(",")
            }
        );
        let mut refs: Vec<&CRef> = vec![];
        let ids: Vec<usize> = vqs
            .iter()
            .map(|q| match refs.iter().position(|r| **r == q.r) {
                Some(i) => i,
                None => {
                    refs.push(&q.r);
                    refs.len() - 1
                }
            })
            .collect();
        ctx.case("sets-verifier", true, &line, &crate::sets::fmt_sets(&res, |first| ids[first]));
    }
    let out = run_verifier(&p.st, &p.coms, vqs, &bytes, &f, &pi, p.salt);
    // what a sequential reader finds in the (tampered) proof for the read pattern
    // [point, nsets scalars, point]; nsets = number of point sets of the verifier's queries
    let nsets_v = {
        let qs = build_vqs(&p.coms, vqs);
        verif_sets_verifier::<Fq, Kzg>(&qs).map(|r| r.1.len()).unwrap_or(0)
    };
    let view = {
        let mut c = Cursor::new(bytes.clone());
        match <G1Projective as Hashable<Blake2bState>>::read(&mut c) {
            Err(_) => "-;-;-".to_string(),
            Ok(g) => {
                let vf = if g == f { "F" } else { "U" };
                let mut qs = vec![];
                let mut ok = true;
                for _ in 0..nsets_v {
                    match <Fq as Hashable<Blake2bState>>::read(&mut c) {
                        Ok(x) => qs.push(x),
                        Err(_) => {
                            ok = false;
                            break;
                        }
                    }
                }
                let vp = if !ok {
                    "-"
                } else {
                    match <G1Projective as Hashable<Blake2bState>>::read(&mut c) {
                        Err(_) => "-",
                        Ok(g) => {
                            if g == pi {
                                "P"
                            } else {
                                "U"
                            }
                        }
                    }
                };
                format!("{vf};{};{vp}", hexl(&qs))
            }
        }
    };
    let (df, dp) = match t {
        Tamper::F(d) => (*d, Fq::ZERO),
        Tamper::Pi(d) => (Fq::ZERO, *d),
        _ => (Fq::ZERO, Fq::ZERO),
    };
    let line = format!("verify K={} T={},{} V={} Q={} X={}{}", hexl(&p.dlogs), fe_hex(&df), fe_hex(&dp), view, fmt_vqs(vqs), hexl(&out.ch), pool_tag());
    let ans = if out.panicked.is_some() { "panic".to_string() } else { format!("ev={} {}", out.ev, out.ans) };
    ctx.case(&format!("verify-{}{what}", pool_kind()), true, &line, &ans);
    // the intermediate scalars of multi_prepare (q_eval_sets, r_evals in fold order, f_eval, v)
    // against the model, for runs with an untouched proof or a tampered q evaluation
    if matches!(t, Tamper::None | Tamper::Q(..)) {
        if let Some(tr) = &out.trace {
            let line = format!("vtrace V={} Q={} X={}{}", view, fmt_vqs(vqs), hexl(&out.ch), pool_tag());
            ctx.case(&format!("vtrace-{}{what}", pool_kind()), true, &line, tr);
        }
    }
    let all_true = vqs.iter().all(|q| claim_true(&p.table, q));
    let verdict = if out.panicked.is_some() { "panic" } else if out.accepted { "accept" } else if out.ans.starts_with("err") { "error" } else { "reject" };
    ctx.count(&format!("verdict:{what}:{verdict}"));
    // a repeated (commitment reference, point) pair must be refused with Err(DuplicatedQuery),
    // identical evaluations or not
    let repeated = (0..vqs.len()).any(|i| (0..i).any(|j| vqs[i].r == vqs[j].r && vqs[i].pt == vqs[j].pt));
    if repeated {
        ctx.count(&format!("dup:{what}:{}", if out.ans == "err dup" { "refused" } else { "NOT-refused" }));
        if out.ans != "err dup" {
            crate::ofail(ctx, &format!("dup-accepted:verifier:{}:{}", what, shape_class(b)), "multi_prepare does not refuse a query list that repeats a (commitment, point) pair", json!({"shape": shape_of(b), "corruption": what, "queries": fmt_vqs(vqs), "result": out.ans, "prove_salt": p.salt}));
        }
    } else if out.ans == "err dup" {
        crate::ofail(ctx, &format!("dup-spurious:verifier:{}:{}", what, shape_class(b)), "multi_prepare refuses a duplicate-free query list as duplicated", json!({"shape": shape_of(b), "corruption": what, "queries": fmt_vqs(vqs), "prove_salt": p.salt}));
    }
    let detail = || json!({"shape": shape_of(b), "rayon_pool": pool(), "corruption": what, "tamper": t.fmt(), "queries": fmt_vqs(vqs), "k": b.k, "result": out.ans, "panic": out.panicked, "prove_salt": p.salt});
    if honest {
        if !out.accepted {
            crate::ofail(ctx, 
                &format!("honest-rejected:{}:{}{}", verdict, pool_kind().replace('-', ":"), shape_class(b)),
                "the multi-opening proof produced for the true evaluations does not verify",
                detail(),
            );
        }
    } else if out.accepted {
        let proof_altered = !matches!(t, Tamper::None | Tamper::Extra);
        if !all_true || proof_altered {
            crate::ofail(ctx, 
                &format!("forgery-accepted:{}:{}", what, shape_class(b)),
                "verification succeeds although a claimed evaluation / point / commitment is wrong or the proof was altered",
                detail(),
            );
        } else {
            // every claim of the modified query set is still true (e.g. constant polynomial at
            // another point, a reference replaced by an equal commitment): not a forgery
            ctx.count(&format!("accepted-true-claims:{what}"));
        }
    } else if out.panicked.is_some() {
        crate::ofail(ctx, &format!("verifier-panics:{}:{}", what, shape_class(b)), "multi_prepare panics instead of returning a verdict", detail());
    }
    out
}
