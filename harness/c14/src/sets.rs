//! The real `construct_intermediate_sets` (hook `poly::kzg::verif_hooks`) on abstract queries
//! `(commitment id, point, eval)`: every assignment pattern of <= 4 commitments x <= 3 points in
//! several query orders, random sets up to 12 x 5, injected duplicates.

use ff::Field;
use midnight_curves::Fq;
use midnight_proofs::poly::{
    kzg::verif_hooks::{verif_sets_abstract, VerifIntermediateSets},
    Error,
};
use mzkh::{fe_hex, Ctx};
use rand::{seq::SliceRandom, Rng};
use rand_chacha::ChaCha8Rng;
use serde_json::json;

/// An abstract query: the commitment is an identifier.
#[derive(Clone, Debug)]
pub struct AQ {
    pub c: usize,
    pub p: Fq,
    pub e: Fq,
}

pub fn fmt_queries(qs: &[AQ]) -> String {
    if qs.is_empty() {
        return "-".into();
    }
    qs.iter().map(|q| format!("{}:{}:{}", q.c, fe_hex(&q.p), fe_hex(&q.e))).collect::<Vec<_>>().join(",")
}

fn dots<T: ToString>(v: &[T]) -> String {
    if v.is_empty() {
        "-".into()
    } else {
        v.iter().map(|x| x.to_string()).collect::<Vec<_>>().join(".")
    }
}

/// Canonical rendering of the result of the grouping step.
pub fn fmt_sets(res: &Result<VerifIntermediateSets<Fq>, Error>, cid: impl Fn(usize) -> usize) -> String {
    match res {
        Err(Error::DuplicatedQuery) => "err dup".into(),
        Err(_) => "err other".into(),
        Ok((cm, sets)) => {
            let s = sets.iter().map(|ps| dots(&ps.iter().map(fe_hex).collect::<Vec<_>>())).collect::<Vec<_>>().join("|");
            let c = cm
                .iter()
                .map(|d| {
                    format!(
                        "{}:{}:{}:{}",
                        cid(d.0),
                        d.1,
                        dots(&d.2),
                        dots(&d.3.iter().map(fe_hex).collect::<Vec<_>>())
                    )
                })
                .collect::<Vec<_>>()
                .join(";");
            format!("ok S={} C={}", if s.is_empty() { "-".to_string() } else { s }, if c.is_empty() { "-".to_string() } else { c })
        }
    }
}

fn has_dup(qs: &[AQ]) -> bool {
    for i in 0..qs.len() {
        for j in 0..i {
            if qs[i].c == qs[j].c && qs[i].p == qs[j].p {
                return true;
            }
        }
    }
    false
}

/// Runs the real grouping on `qs`, emits the correspondence line, checks the statement-level
/// oracles: a repeated (commitment, point) pair <=> `Err(DuplicatedQuery)`; on success every
/// query's evaluation sits at the position of its point inside its commitment's point set.
pub fn run_one(ctx: &mut Ctx, kind: &str, qs: &[AQ]) {
    let raw: Vec<(usize, Fq, Fq)> = qs.iter().map(|q| (q.c, q.p, q.e)).collect();
    let res = mzkh::catch(|| verif_sets_abstract::<Fq>(&raw));
    let line = format!("sets {}", fmt_queries(qs));
    let res = match res {
        Err(msg) => {
            ctx.case(kind, true, &line, "panic");
            crate::ofail(ctx, &format!("sets:panic:{}", size_key(qs)), "construct_intermediate_sets panics", json!({"queries": fmt_queries(qs), "panic": msg}));
            return;
        }
        Ok(r) => r,
    };
    let ans = fmt_sets(&res, |first| qs[first].c);
    ctx.case(kind, qs.len() > 1, &line, &ans);
    let dup = has_dup(qs);
    ctx.count(if dup { "sets:duplicate" } else { "sets:ok" });
    match &res {
        Err(_) if dup => {}
        Err(_) => crate::ofail(ctx, &format!("sets:spurious-error:{}", size_key(qs)), "a duplicate-free query set is refused", json!({"queries": fmt_queries(qs)})),
        Ok(_) if dup => crate::ofail(ctx, &format!("sets:dup-accepted:{}", size_key(qs)), "a query set repeating a (commitment, point) pair is not refused", json!({"queries": fmt_queries(qs), "shape": shape_key(qs)})),
        Ok((cm, sets)) => {
            ctx.count(&format!("sets:nsets={}", sets.len()));
            let mut bad = cm.len() != {
                let mut ids: Vec<usize> = qs.iter().map(|q| q.c).collect();
                ids.sort();
                ids.dedup();
                ids.len()
            };
            for q in qs {
                match cm.iter().find(|d| qs[d.0].c == q.c) {
                    None => bad = true,
                    Some(d) => {
                        let set = &sets[d.1];
                        let mut mine: Vec<Fq> = qs.iter().filter(|r| r.c == q.c).map(|r| r.p).collect();
                        let mut theirs = set.clone();
                        mine.sort();
                        theirs.sort();
                        if mine != theirs || d.3.len() != set.len() {
                            bad = true;
                        } else {
                            let pos = set.iter().position(|p| *p == q.p).unwrap();
                            if d.3[pos] != q.e {
                                bad = true;
                            }
                        }
                    }
                }
            }
            if bad {
                crate::ofail(ctx, &format!("sets:misplaced:{}", size_key(qs)), "grouping puts a commitment into a set different from its points, or an evaluation at the wrong position", json!({"queries": fmt_queries(qs), "shape": shape_key(qs), "result": ans}));
            }
        }
    }
}

/// Size class of a query list: number of commitments x number of points (capped).
pub fn size_key(qs: &[AQ]) -> String {
    let mut cs: Vec<usize> = qs.iter().map(|q| q.c).collect();
    cs.sort();
    cs.dedup();
    let mut ps: Vec<Fq> = qs.iter().map(|q| q.p).collect();
    ps.sort();
    ps.dedup();
    format!("{}x{}", cs.len().min(5), ps.len().min(4))
}

/// Shape of a query list up to the values: `(commitment, point number by first appearance)`.
pub fn shape_key(qs: &[AQ]) -> String {
    let mut pts: Vec<Fq> = vec![];
    let mut out = vec![];
    for q in qs {
        let i = match pts.iter().position(|p| *p == q.p) {
            Some(i) => i,
            None => {
                pts.push(q.p);
                pts.len() - 1
            }
        };
        out.push(format!("{}@{}", q.c, i));
    }
    out.join(",")
}

/// The query lists of one assignment pattern (`masks[c]` = non-empty set of points of commitment
/// `c`) in the orders: commitment-major ascending points, commitment-major descending points,
/// point-major, shuffled.
pub fn orders_of(masks: &[u32], t: usize, rng: &mut ChaCha8Rng) -> Vec<Vec<(usize, usize)>> {
    let mut a = vec![];
    let mut b = vec![];
    let mut c = vec![];
    for (ci, m) in masks.iter().enumerate() {
        for p in 0..t {
            if m >> p & 1 == 1 {
                a.push((ci, p));
            }
        }
        for p in (0..t).rev() {
            if m >> p & 1 == 1 {
                b.push((ci, p));
            }
        }
    }
    for p in 0..t {
        for (ci, m) in masks.iter().enumerate().rev() {
            if m >> p & 1 == 1 {
                c.push((ci, p));
            }
        }
    }
    let mut d = a.clone();
    d.shuffle(rng);
    vec![a, b, c, d]
}

/// All tuples of `m` non-empty subsets of `t` points.
pub fn all_patterns(m: usize, t: usize) -> Vec<Vec<u32>> {
    let opts: Vec<u32> = (1..(1u32 << t)).collect();
    let mut res: Vec<Vec<u32>> = vec![vec![]];
    for _ in 0..m {
        let mut next = vec![];
        for r in &res {
            for o in &opts {
                let mut r2 = r.clone();
                r2.push(*o);
                next.push(r2);
            }
        }
        res = next;
    }
    res
}

pub fn run(ctx: &mut Ctx) {
    let mut rng = ctx.rng("sets");
    // the empty query list
    run_one(ctx, "sets-empty", &[]);
    // ---- exhaustive: every assignment pattern of <= 4 commitments x <= 3 points
    let mut npat = 0u64;
    for t in 1..=3usize {
        for m in 1..=4usize {
            for masks in all_patterns(m, t) {
                npat += 1;
                // point values: small distinct, or random (the grouping must not depend on them)
                let pts: Vec<Fq> = if npat % 2 == 0 { (0..t).map(|i| Fq::from(3 + 5 * i as u64)).collect() } else { (0..t).map(|_| Fq::random(&mut rng)).collect() };
                for (oi, ord) in orders_of(&masks, t, &mut rng).into_iter().enumerate() {
                    let qs: Vec<AQ> = ord.iter().map(|&(c, p)| AQ { c: c + 1, p: pts[p], e: Fq::from((100 * (c + 1) + p + 1) as u64) }).collect();
                    run_one(ctx, &format!("sets-exh-{}", ["cmaj", "cmajrev", "pmaj", "shuf"][oi]), &qs);
                }
            }
        }
    }
    ctx.set_extra("sets_exhaustive_patterns", json!({"commitments": "1..4", "points": "1..3", "patterns": npat, "orders": 4}));
    // ---- random sets up to 12 x 5, with and without an injected duplicate
    let nrand = if ctx.quick() { 1500 } else { 20000 };
    for i in 0..nrand {
        let m = rng.gen_range(1..=12usize);
        let t = rng.gen_range(1..=5usize);
        let pts: Vec<Fq> = (0..t).map(|_| if i % 3 == 0 { Fq::from(rng.gen_range(0..7u64)) } else { Fq::random(&mut rng) }).collect();
        // (small point values may collide: the grouping works on point *values*)
        let mut qs = vec![];
        for c in 0..m {
            let mask = rng.gen_range(1..(1u32 << t));
            for p in 0..t {
                if mask >> p & 1 == 1 {
                    qs.push(AQ { c: c * 3 + 1, p: pts[p], e: Fq::random(&mut rng) });
                }
            }
        }
        match i % 4 {
            0 => {}
            1 => qs.shuffle(&mut rng),
            2 => qs.sort_by_key(|q| fe_hex(&q.p)),
            _ => qs.reverse(),
        }
        let inject = i % 5 == 4;
        if inject {
            let src = qs[rng.gen_range(0..qs.len())].clone();
            let at = rng.gen_range(0..=qs.len());
            let e = if rng.gen_bool(0.5) { src.e } else { Fq::random(&mut rng) };
            qs.insert(at, AQ { c: src.c, p: src.p, e });
        }
        run_one(ctx, if inject { "sets-rand-dup" } else { "sets-rand" }, &qs);
    }
}
