//! Generators of base cases and the corruption sweep.

use ff::{Field, PrimeField};
use midnight_curves::Fq;
use mzkh::Ctx;
use rand::{seq::SliceRandom, Rng};
use rand_chacha::ChaCha8Rng;
use serde_json::json;

use crate::open::{build, prove_base, verify_case, Base, CRef, Item, Proved, Tamper, VQ};
use crate::sets::{all_patterns, orders_of};

/// Polynomial classes: 0 random, 1 zero, 2 constant, 3 only the top coefficient, 4 `X`,
/// 5 small coefficients, 6 all ones.
pub fn poly_of(rng: &mut ChaCha8Rng, n: usize, class: usize) -> Vec<Fq> {
    let mut v = vec![Fq::ZERO; n];
    match class % 7 {
        0 => v.iter_mut().for_each(|c| *c = Fq::random(&mut *rng)),
        1 => {}
        2 => v[0] = Fq::random(&mut *rng),
        3 => v[n - 1] = Fq::random(&mut *rng),
        4 => {
            if n > 1 {
                v[1] = Fq::ONE
            }
        }
        5 => v.iter_mut().for_each(|c| *c = Fq::from(rng.gen_range(0..4u64))),
        _ => v.iter_mut().for_each(|c| *c = Fq::ONE),
    }
    v
}

/// Distinct points: random, or the rotation pattern `x·ω^i` of a PLONK opening, or small values
/// including zero.
pub fn points_of(rng: &mut ChaCha8Rng, t: usize, class: usize, k: u32) -> Vec<Fq> {
    match class % 3 {
        0 => (0..t).map(|_| Fq::random(&mut *rng)).collect(),
        1 => {
            let mut omega = Fq::ROOT_OF_UNITY;
            for _ in k..Fq::S {
                omega = omega.square();
            }
            let x = Fq::random(&mut *rng);
            let rots: [i64; 5] = [0, 1, -1, 2, 5];
            (0..t)
                .map(|i| {
                    let r = rots[i % 5];
                    if r >= 0 {
                        x * omega.pow_vartime([r as u64])
                    } else {
                        x * omega.invert().unwrap().pow_vartime([(-r) as u64])
                    }
                })
                .collect()
        }
        _ => (0..t).map(|i| Fq::from(i as u64)).collect(),
    }
}

fn plain_base(rng: &mut ChaCha8Rng, name: &str, k: u32, masks: &[u32], t: usize, order: Vec<(usize, usize)>, pclass: impl Fn(usize) -> usize, ptclass: usize) -> Base {
    let n = 1usize << k;
    let polys: Vec<Vec<Fq>> = (0..masks.len()).map(|i| poly_of(rng, n, pclass(i))).collect();
    let items = masks.iter().enumerate().map(|(i, m)| Item::Plain { poly: i, points: (0..t).filter(|p| m >> p & 1 == 1).collect() }).collect();
    Base { k, s: Fq::random(&mut *rng), name: name.to_string(), polys, pts: points_of(rng, t, ptclass, k), items, order }
}

/// Every assignment pattern of <= 4 polynomials x <= 3 points: honest proof must verify.
pub fn run_exhaustive(ctx: &mut Ctx) {
    let mut rng = ctx.rng("open-exhaustive");
    let mut salt = 1000u32;
    let mut npat = 0u64;
    for t in 1..=3usize {
        for m in 1..=4usize {
            for (pi, masks) in all_patterns(m, t).into_iter().enumerate() {
                // quick tier: all patterns of <= 3 polynomials, every third pattern of 4 polynomials
                if ctx.quick() && m == 4 && t == 3 && pi % 3 != (ctx.seed % 3) as usize {
                    continue;
                }
                npat += 1;
                let orders = orders_of(&masks, t, &mut rng);
                let which: Vec<usize> = if m <= 2 || !ctx.quick() && m == 3 { vec![0, 1, 2, 3] } else { vec![(pi % 4)] };
                for oi in which {
                    salt += 1;
                    let k = 2 + (pi % 2) as u32;
                    let b = plain_base(&mut rng, "exh", k, &masks, t, orders[oi].clone(), |i| if pi % 5 == 0 { i + pi } else { 0 }, pi);
                    if let Some(p) = prove_base(ctx, &b, salt, 0, &mut rng) {
                        let vq = p.built.vq.clone();
                        verify_case(ctx, &b, &p, &vq, &Tamper::None, "honest", true);
                    }
                }
            }
        }
    }
    ctx.set_extra("open_exhaustive_patterns", json!({"polynomials": "1..4", "points": "1..3", "patterns_run": npat}));
}

/// Hand-picked base cases covering the boundary classes of the property's quantifier.
pub fn structured_bases(rng: &mut ChaCha8Rng, thorough: bool) -> Vec<Base> {
    let mut out = vec![];
    let cm = |masks: &[u32], t: usize| -> Vec<(usize, usize)> {
        let mut v = vec![];
        for (i, m) in masks.iter().enumerate() {
            for p in 0..t {
                if m >> p & 1 == 1 {
                    v.push((i, p));
                }
            }
        }
        v
    };
    // single polynomial, single point, every k
    for k in 2..=7u32 {
        out.push(plain_base(rng, "single", k, &[1], 1, vec![(0, 0)], |_| 0, k as usize));
    }
    // the repository's own test shape: a,b at x; c at y
    out.push(plain_base(rng, "repo-test", 4, &[1, 1, 2], 2, vec![(0, 0), (1, 0), (2, 1)], |_| 0, 0));
    // zero and constant polynomials (alone, together, mixed with random ones)
    out.push(plain_base(rng, "zero", 3, &[1], 1, vec![(0, 0)], |_| 1, 0));
    out.push(plain_base(rng, "const", 3, &[3], 2, vec![(0, 0), (0, 1)], |_| 2, 0));
    out.push(plain_base(rng, "zero-const-mix", 3, &[1, 3, 2, 3], 2, cm(&[1, 3, 2, 3], 2), |i| [1, 2, 0, 1][i], 1));
    out.push(plain_base(rng, "all-zero", 2, &[7, 7, 1], 3, cm(&[7, 7, 1], 3), |_| 1, 2));
    out.push(plain_base(rng, "top-coeff", 4, &[3, 1], 2, cm(&[3, 1], 2), |_| 3, 0));
    // identical polynomials behind distinct references: same set / different sets
    for (name, masks) in [("ident-same-set", vec![3u32, 3]), ("ident-diff-sets", vec![1, 2]), ("ident-three", vec![7, 7, 5])] {
        let mut b = plain_base(rng, name, 3, &masks, 3, cm(&masks, 3), |_| 0, 0);
        let p0 = b.polys[0].clone();
        for p in b.polys.iter_mut() {
            *p = p0.clone();
        }
        out.push(b);
    }
    // one polynomial at five points (n = 8), five polynomials at one point, full 12 x 5
    out.push(plain_base(rng, "five-points", 3, &[31], 5, cm(&[31], 5), |_| 0, 1));
    out.push(plain_base(rng, "five-polys", 3, &[1, 1, 1, 1, 1], 1, cm(&[1, 1, 1, 1, 1], 1), |i| i, 0));
    {
        let masks: Vec<u32> = (0..12).map(|_| rng.gen_range(1..32u32)).collect();
        let mut ord = cm(&masks, 5);
        ord.shuffle(rng);
        out.push(plain_base(rng, "twelve-by-five", 4, &masks, 5, ord, |i| if i % 4 == 3 { i } else { 0 }, 1));
    }
    // as many points as coefficients (n = 4, 4 points): the quotient is zero
    out.push(plain_base(rng, "points-eq-n", 2, &[15, 3], 4, cm(&[15, 3], 4), |_| 0, 0));
    // point-major order, descending order (first appearance of the points differs from their index)
    out.push(plain_base(rng, "point-major", 3, &[5, 6, 3], 3, vec![(2, 1), (1, 1), (2, 0), (0, 0), (1, 2), (0, 2)], |_| 0, 0));
    out.push(plain_base(rng, "descending", 3, &[7, 6], 3, vec![(0, 2), (0, 1), (0, 0), (1, 2), (1, 1)], |_| 0, 1));
    // small points including zero
    out.push(plain_base(rng, "small-points", 3, &[7, 1, 4], 3, cm(&[7, 1, 4], 3), |_| 5, 2));
    // chopped commitments with 2..4 pieces, alone and among plain polynomials
    for pieces in 2..=4usize {
        for (vi, nparam) in [8u64, 1, 2, 9].into_iter().enumerate() {
            if !thorough && vi > 1 && pieces != 3 {
                continue;
            }
            let k = 3u32;
            let n = 1usize << k;
            let mut polys: Vec<Vec<Fq>> = (0..pieces).map(|i| poly_of(rng, n, if vi == 1 { i + 1 } else { 0 })).collect();
            polys.push(poly_of(rng, n, 0));
            polys.push(poly_of(rng, n, 0));
            let a = pieces;
            let bq = pieces + 1;
            // (PLONK order: the chopped commitment comes last and is opened at the first point)
            let items = vec![
                Item::Plain { poly: a, points: vec![0, 1] },
                Item::Plain { poly: bq, points: vec![0] },
                Item::Chopped { pieces: (0..pieces).collect(), nparam, point: 0 },
            ];
            out.push(Base { k, s: Fq::random(&mut *rng), name: format!("chopped{pieces}"), polys, pts: points_of(rng, 2, vi, k), items, order: vec![(0, 0), (0, 1), (1, 0), (2, 0)] });
        }
        // chopped commitment alone
        let k = 2u32;
        let polys: Vec<Vec<Fq>> = (0..pieces).map(|_| poly_of(rng, 4, 0)).collect();
        out.push(Base { k, s: Fq::random(&mut *rng), name: format!("chopped{pieces}-alone"), polys, pts: points_of(rng, 1, 0, k), items: vec![Item::Chopped { pieces: (0..pieces).collect(), nparam: 4, point: 0 }], order: vec![(0, 0)] });
    }
    // larger degrees
    out.push(plain_base(rng, "k7", 7, &[3, 1, 2, 7, 5, 6], 3, cm(&[3, 1, 2, 7, 5, 6], 3), |i| if i == 2 { 1 } else { 0 }, 1));
    out.push(plain_base(rng, "k6", 6, &[1, 3, 3], 2, cm(&[1, 3, 3], 2), |_| 0, 0));
    out.push(plain_base(rng, "k5", 5, &[21, 10], 5, cm(&[21, 10], 5), |_| 0, 1));
    out
}

/// Base cases of the thread-count sweep: every k, point sets of 1, 2, 3 and 5 points (the lengths
/// of the interpolated `r(X)`), a chopped commitment.
pub fn pool_bases(rng: &mut ChaCha8Rng) -> Vec<Base> {
    let mut out = vec![];
    for k in 2..=7u32 {
        let t = if k == 2 { 3 } else { 5 };
        let masks: Vec<u32> = if k == 2 { vec![7, 3, 1] } else { vec![31, 7, 3, 1, 7] };
        let mut ord = vec![];
        for (i, m) in masks.iter().enumerate() {
            for p in 0..t {
                if m >> p & 1 == 1 {
                    ord.push((i, p));
                }
            }
        }
        out.push(plain_base(rng, "pool", k, &masks, t, ord, |_| 0, k as usize));
    }
    {
        let k = 3u32;
        let n = 1usize << k;
        let mut polys: Vec<Vec<Fq>> = (0..3).map(|_| poly_of(rng, n, 0)).collect();
        polys.push(poly_of(rng, n, 0));
        let items = vec![Item::Plain { poly: 3, points: vec![0, 1, 2] }, Item::Chopped { pieces: vec![0, 1, 2], nparam: 8, point: 1 }];
        out.push(Base { k, s: Fq::random(&mut *rng), name: "pool-chopped".into(), polys, pts: points_of(rng, 3, 0, k), items, order: vec![(0, 0), (0, 1), (1, 1), (0, 2)] });
    }
    out
}

/// Probes of inputs on which the anchored code leaves the property's statement (kept separate so
/// that each has a stable key).
pub fn probe_bases(rng: &mut ChaCha8Rng) -> Vec<Base> {
    let mut out = vec![];
    // (P1) chopped commitment opened at a point that is not the first point of the query list
    for pieces in [2usize, 3] {
        let k = 3u32;
        let n = 1usize << k;
        let mut polys: Vec<Vec<Fq>> = (0..pieces).map(|_| poly_of(rng, n, 0)).collect();
        polys.push(poly_of(rng, n, 0));
        let items = vec![Item::Plain { poly: pieces, points: vec![0] }, Item::Chopped { pieces: (0..pieces).collect(), nparam: 8, point: 1 }];
        out.push(Base { k, s: Fq::random(&mut *rng), name: "probe-chopped-later-point".into(), polys, pts: points_of(rng, 2, 0, k), items, order: vec![(0, 0), (1, 1)] });
    }
    // (P2) more points than coefficients: k = 2 (4 coefficients), one polynomial at 5 points
    out.push(plain_base(rng, "probe-points-gt-n", 2, &[31], 5, vec![(0, 0), (0, 1), (0, 2), (0, 3), (0, 4)], |_| 0, 0));
    // (P3) the empty query list is outside the property's quantifier (1..12 polynomials); recorded
    // as a correspondence line only: `multi_open(&[])` panics on `reduce(..).unwrap()`
    out.push(Base { k: 2, s: Fq::random(&mut *rng), name: "probe-empty-query-list".into(), polys: vec![poly_of(rng, 4, 0)], pts: vec![], items: vec![], order: vec![] });
    out
}

/// A random base case: up to 12 items x up to 5 points, k in 2..7, with chopped items opened at
/// the first point of the query list.
pub fn random_base(rng: &mut ChaCha8Rng, i: usize) -> Base {
    let k = rng.gen_range(2..=7u32);
    let n = 1usize << k;
    let t = rng.gen_range(1..=5usize).min(n - 1);
    let m = rng.gen_range(1..=12usize);
    let with_chopped = i % 3 == 0;
    let mut polys: Vec<Vec<Fq>> = vec![];
    let mut items = vec![];
    for j in 0..m {
        let mask = rng.gen_range(1..(1u32 << t));
        let class = if rng.gen_range(0..4) == 0 { rng.gen_range(0..7) } else { 0 };
        let p = if j > 0 && rng.gen_range(0..6) == 0 { polys[rng.gen_range(0..polys.len())].clone() } else { poly_of(rng, n, class) };
        polys.push(p);
        items.push(Item::Plain { poly: polys.len() - 1, points: (0..t).filter(|p| mask >> p & 1 == 1).collect() });
    }
    let mut order: Vec<(usize, usize)> = vec![];
    for (ii, it) in items.iter().enumerate() {
        if let Item::Plain { points, .. } = it {
            for p in points {
                order.push((ii, *p));
            }
        }
    }
    match i % 4 {
        0 => {}
        1 => order.shuffle(rng),
        2 => order.sort_by_key(|(_, p)| *p),
        _ => order.reverse(),
    }
    if with_chopped {
        let pieces = rng.gen_range(2..=4usize);
        let first = polys.len();
        for _ in 0..pieces {
            polys.push(poly_of(rng, n, 0));
        }
        // opened at the point that appears first in the query list
        let pt = order[0].1;
        let nparam = [n as u64, 1, 2, n as u64 + 1][rng.gen_range(0..4)];
        items.push(Item::Chopped { pieces: (first..first + pieces).collect(), nparam, point: pt });
        let at = rng.gen_range(1..=order.len());
        order.insert(at, (items.len() - 1, pt));
    }
    Base { k, s: Fq::random(&mut *rng), name: "rand".into(), polys, pts: points_of(rng, t, i, k), items, order }
}

fn delta(rng: &mut ChaCha8Rng, i: usize) -> Fq {
    if i % 2 == 0 {
        Fq::ONE
    } else {
        Fq::random(&mut *rng)
    }
}

/// Every single-element corruption of the verifier's query list and of the proof.
/// `budget` bounds the number of corruptions per kind (all when `None`).
pub fn sweep(ctx: &mut Ctx, b: &Base, p: &Proved, rng: &mut ChaCha8Rng, budget: Option<usize>) {
    let vq0 = p.built.vq.clone();
    let take = |n: usize, rng: &mut ChaCha8Rng| -> Vec<usize> {
        let mut idx: Vec<usize> = (0..n).collect();
        if let Some(bd) = budget {
            if n > bd {
                idx.shuffle(rng);
                idx.truncate(bd);
                idx.sort();
            }
        }
        idx
    };
    let fresh = Fq::random(&mut *rng);
    // ---- evaluations
    for j in take(vq0.len(), rng) {
        let mut vq = vq0.clone();
        vq[j].ev += delta(rng, j);
        verify_case(ctx, b, p, &vq, &Tamper::None, "eval", false);
    }
    // swap the evaluations of two queries (ordering of evaluations inside a set)
    for j in take(vq0.len().saturating_sub(1), rng) {
        if vq0[j].ev != vq0[j + 1].ev {
            let mut vq = vq0.clone();
            let e = vq[j].ev;
            vq[j].ev = vq[j + 1].ev;
            vq[j + 1].ev = e;
            verify_case(ctx, b, p, &vq, &Tamper::None, "eval-swap", false);
        }
    }
    // ---- points: to a fresh point, to another point of the list
    for j in take(vq0.len(), rng) {
        let mut vq = vq0.clone();
        vq[j].pt = fresh;
        verify_case(ctx, b, p, &vq, &Tamper::None, "point-fresh", false);
        if let Some(other) = b.pts.iter().find(|q| **q != vq0[j].pt) {
            let mut vq = vq0.clone();
            vq[j].pt = *other;
            // (may create a duplicate (commitment, point) pair: must be refused)
            verify_case(ctx, b, p, &vq, &Tamper::None, "point-other", false);
        }
    }
    // ---- commitments: another entry of the table, a foreign commitment; chopped: one piece,
    // the piece order, the number of pieces, the piece degree
    let ntab = p.coms.len();
    for j in take(vq0.len(), rng) {
        match &vq0[j].r {
            CRef::One(i) => {
                for cand in [(i + 1) % ntab, ntab - 1] {
                    if cand != *i {
                        let mut vq = vq0.clone();
                        vq[j].r = CRef::One(cand);
                        verify_case(ctx, b, p, &vq, &Tamper::None, "commitment", false);
                    }
                }
            }
            CRef::Chop(parts, n) => {
                for pj in 0..parts.len() {
                    let mut ps = parts.clone();
                    ps[pj] = ntab - 1;
                    let mut vq = vq0.clone();
                    vq[j].r = CRef::Chop(ps, *n);
                    verify_case(ctx, b, p, &vq, &Tamper::None, "chopped-piece", false);
                }
                let mut ps = parts.clone();
                ps.swap(0, 1);
                let mut vq = vq0.clone();
                vq[j].r = CRef::Chop(ps, *n);
                verify_case(ctx, b, p, &vq, &Tamper::None, "chopped-order", false);
                let mut vq = vq0.clone();
                vq[j].r = CRef::Chop(parts[..parts.len() - 1].to_vec(), *n);
                verify_case(ctx, b, p, &vq, &Tamper::None, "chopped-drop", false);
                let mut vq = vq0.clone();
                vq[j].r = CRef::Chop(parts.clone(), *n + 1);
                verify_case(ctx, b, p, &vq, &Tamper::None, "chopped-n", false);
                // the one-piece commitment of the combined polynomial instead of the pieces:
                // the same claim through another reference
                if let Some(ci) = (b.polys.len()..p.built.ppolys.len()).find(|ci| p.built.pq.iter().any(|(pi, pt)| pi == ci && *pt == vq0[j].pt)) {
                    let mut vq = vq0.clone();
                    vq[j].r = CRef::One(ci);
                    verify_case(ctx, b, p, &vq, &Tamper::None, "chopped-as-one-piece", false);
                }
            }
        }
    }
    // ---- a query dropped, a query repeated
    for j in take(vq0.len(), rng) {
        let mut vq = vq0.clone();
        vq.remove(j);
        verify_case(ctx, b, p, &vq, &Tamper::None, "query-dropped", false);
        let mut vq = vq0.clone();
        let q = vq[j].clone();
        vq.push(q);
        verify_case(ctx, b, p, &vq, &Tamper::None, "query-repeated", false);
    }
    // ---- the proof
    verify_case(ctx, b, p, &vq0, &Tamper::F(delta(rng, 0)), "proof-f", false);
    verify_case(ctx, b, p, &vq0, &Tamper::F(delta(rng, 1)), "proof-f", false);
    for j in take(p.parts.qe.len(), rng) {
        verify_case(ctx, b, p, &vq0, &Tamper::Q(j, delta(rng, j)), "proof-qeval", false);
    }
    verify_case(ctx, b, p, &vq0, &Tamper::Pi(delta(rng, 0)), "proof-pi", false);
    verify_case(ctx, b, p, &vq0, &Tamper::Pi(delta(rng, 1)), "proof-pi", false);
    let len = p.proof.len();
    let mut cuts = vec![0usize, 47, 48, 48 + 31, len - 48, len - 1];
    for j in 0..p.parts.qe.len() {
        cuts.push(48 + 32 * (j + 1));
    }
    cuts.sort();
    cuts.dedup();
    for c in take(cuts.len(), rng) {
        if cuts[c] < len {
            verify_case(ctx, b, p, &vq0, &Tamper::Trunc(cuts[c]), "proof-truncated", false);
        }
    }
    verify_case(ctx, b, p, &vq0, &Tamper::Extra, "proof-trailing-bytes", false);
    // ---- raw byte flips (no model line: the elements of the flipped proof have no known logarithm)
    let nflip = budget.unwrap_or(8).min(8);
    for _ in 0..nflip {
        let mut bytes = p.proof.clone();
        let at = rng.gen_range(0..bytes.len());
        bytes[at] ^= 1 << rng.gen_range(0..8);
        let out = crate::open::run_verifier(&p.st, &p.coms, &vq0, &bytes, &p.parts.f, &p.parts.pi, p.salt);
        ctx.count(&format!("verdict:proof-byteflip:{}", if out.panicked.is_some() { "panic" } else if out.accepted { "accept" } else { "reject" }));
        if out.accepted || out.panicked.is_some() {
            crate::ofail(ctx, 
                &format!("forgery-accepted:proof-byteflip:{}", crate::open::shape_class(b)),
                "verification of a proof with one flipped bit succeeds or panics",
                json!({"k": b.k, "byte": at, "panic": out.panicked, "prove_salt": p.salt}),
            );
        }
    }
}

/// Verifier query lists that are true but shaped differently from the prover's (one reference
/// split into two equal commitments and vice versa): only soundness applies.
pub fn shape_mismatch(ctx: &mut Ctx, rng: &mut ChaCha8Rng, salt: u32) {
    // prover: one polynomial at two points; verifier: two references to equal commitments
    let mut b = plain_base(rng, "refsplit", 3, &[3, 3], 2, vec![(0, 0), (0, 1)], |_| 0, 0);
    b.polys[1] = b.polys[0].clone();
    b.items = vec![Item::Plain { poly: 0, points: vec![0, 1] }];
    if let Some(p) = prove_base(ctx, &b, salt, 1, rng) {
        let mut vq = p.built.vq.clone();
        verify_case(ctx, &b, &p, &vq, &Tamper::None, "honest", true);
        vq[1].r = CRef::One(1);
        verify_case(ctx, &b, &p, &vq, &Tamper::None, "reference-split", false);
    }
    // prover: two references to identical polynomials; verifier: one reference for both
    let mut b = plain_base(rng, "refmerge", 3, &[1, 2], 2, vec![(0, 0), (1, 1)], |_| 0, 0);
    b.polys[1] = b.polys[0].clone();
    if let Some(p) = prove_base(ctx, &b, salt + 1, 1, rng) {
        let mut vq = p.built.vq.clone();
        verify_case(ctx, &b, &p, &vq, &Tamper::None, "honest", true);
        vq[1].r = CRef::One(0);
        verify_case(ctx, &b, &p, &vq, &Tamper::None, "reference-merged", false);
    }
    let _ = build;
    let _: Option<VQ> = None;
}

/// Repeated (commitment, point) pairs through the real `multi_open` / `multi_prepare`: every
/// query of a base case repeated (identical evaluation / different evaluation) right after itself,
/// at the end of the list and at the front; the base shapes include a commitment whose point
/// indices are not increasing (`d@x, d@y, c@y, c@x`), a chopped commitment (its reference is
/// rebuilt for the repeated query: equality is by the piece references, not by the vector), and
/// two references to equal commitments at the same point (NOT a repetition).
pub fn dup_cases(ctx: &mut Ctx, rng: &mut ChaCha8Rng, salt0: u32) {
    let mut bases = vec![];
    // d at x,y; c at y,x; e at x
    bases.push(plain_base(rng, "dup-unsorted", 3, &[3, 3, 1], 2, vec![(0, 0), (0, 1), (1, 1), (1, 0), (2, 0)], |_| 0, 0));
    // three points, descending
    bases.push(plain_base(rng, "dup-desc3", 3, &[7, 7], 3, vec![(0, 0), (0, 1), (0, 2), (1, 2), (1, 1), (1, 0)], |_| 0, 1));
    // a chopped commitment among plain ones
    {
        let k = 3u32;
        let n = 1usize << k;
        let polys: Vec<Vec<Fq>> = (0..4).map(|_| poly_of(rng, n, 0)).collect();
        let items = vec![Item::Plain { poly: 2, points: vec![0, 1] }, Item::Plain { poly: 3, points: vec![1] }, Item::Chopped { pieces: vec![0, 1], nparam: 8, point: 0 }];
        bases.push(Base { k, s: Fq::random(&mut *rng), name: "dup-chopped".into(), polys, pts: points_of(rng, 2, 0, k), items, order: vec![(0, 0), (0, 1), (1, 1), (2, 0)] });
    }
    // identical polynomials behind two references at the same point: not a repetition
    {
        let mut b = plain_base(rng, "dup-ident-refs", 3, &[1, 1], 1, vec![(0, 0), (1, 0)], |_| 0, 0);
        b.polys[1] = b.polys[0].clone();
        bases.push(b);
    }
    let mut salt = salt0;
    for b in bases {
        salt += 1;
        // prover side: every query repeated at the end / right after itself
        for j in 0..b.order.len() {
            for at in [j + 1, b.order.len()] {
                let mut bd = b.clone();
                bd.name = format!("{}-rep", b.name);
                bd.order.insert(at, b.order[j]);
                salt += 1;
                let _ = prove_base(ctx, &bd, salt, 0, rng);
            }
        }
        // verifier side against an honest proof of the duplicate-free list
        if let Some(p) = prove_base(ctx, &b, salt, 1, rng) {
            let vq0 = p.built.vq.clone();
            verify_case(ctx, &b, &p, &vq0, &Tamper::None, "honest", true);
            for j in 0..vq0.len() {
                for at in [j + 1, vq0.len(), 0] {
                    let mut vq = vq0.clone();
                    vq.insert(at, vq0[j].clone());
                    verify_case(ctx, &b, &p, &vq, &Tamper::None, "dup-same-eval", false);
                    let mut vq = vq0.clone();
                    let mut q = vq0[j].clone();
                    q.ev += Fq::ONE;
                    vq.insert(at, q);
                    verify_case(ctx, &b, &p, &vq, &Tamper::None, "dup-diff-eval", false);
                    // the wrong evaluation first, the right one repeated afterwards
                    let mut vq = vq0.clone();
                    vq[j].ev += Fq::ONE;
                    vq.insert(at.max(j + 1), vq0[j].clone());
                    verify_case(ctx, &b, &p, &vq, &Tamper::None, "dup-wrong-then-right", false);
                }
            }
        }
    }
}
