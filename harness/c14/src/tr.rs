//! `RecT`: a `Transcript` that delegates to `CircuitTranscript<Blake2bState>` and records, in a
//! thread-local log, the *value* of every squeezed challenge (as an `Fq`) and the kind of every
//! operation. `Transcript` is a public trait, so no hook is needed.

use std::cell::RefCell;
use std::io;

use blake2b_simd::State as Blake2bState;
use midnight_curves::Fq;
use midnight_proofs::transcript::{CircuitTranscript, Hashable, Sampleable, Transcript};

thread_local! {
    static CH: RefCell<Vec<Fq>> = const { RefCell::new(Vec::new()) };
    static EV: RefCell<String> = const { RefCell::new(String::new()) };
}

/// Takes the challenges and the event string recorded on this thread since the last call.
pub fn take() -> (Vec<Fq>, String) {
    (CH.with(|c| std::mem::take(&mut *c.borrow_mut())), EV.with(|e| std::mem::take(&mut *e.borrow_mut())))
}

fn ev(c: char) {
    EV.with(|e| e.borrow_mut().push(c));
}

/// 'g' for a group element (48 bytes), 'f' for a scalar (32 bytes), '?' otherwise.
fn kind_of(len: usize) -> char {
    match len {
        48 => 'g',
        32 => 'f',
        _ => '?',
    }
}

#[derive(Clone, Debug)]
pub struct RecT {
    inner: CircuitTranscript<Blake2bState>,
}

impl Transcript for RecT {
    type Hash = Blake2bState;

    fn init() -> Self {
        Self { inner: CircuitTranscript::<Blake2bState>::init() }
    }

    fn init_from_bytes(bytes: &[u8]) -> Self {
        Self { inner: CircuitTranscript::<Blake2bState>::init_from_bytes(bytes) }
    }

    fn squeeze_challenge<T: Sampleable<Blake2bState>>(&mut self) -> T {
        // the value of the challenge, whatever `T` is: squeeze an `Fq` from a copy of the state
        let mut copy = self.inner.clone();
        let v: Fq = copy.squeeze_challenge();
        CH.with(|c| c.borrow_mut().push(v));
        ev('S');
        self.inner.squeeze_challenge()
    }

    fn common<T: Hashable<Blake2bState>>(&mut self, input: &T) -> io::Result<()> {
        ev('c');
        self.inner.common(input)
    }

    fn read<T: Hashable<Blake2bState>>(&mut self) -> io::Result<T> {
        match self.inner.read::<T>() {
            Ok(v) => {
                ev(kind_of(v.to_bytes().len()).to_ascii_uppercase());
                Ok(v)
            }
            Err(e) => {
                ev('!');
                Err(e)
            }
        }
    }

    fn write<T: Hashable<Blake2bState>>(&mut self, input: &T) -> io::Result<()> {
        ev(kind_of(input.to_bytes().len()));
        self.inner.write(input)
    }

    fn finalize(self) -> Vec<u8> {
        self.inner.finalize()
    }

    fn assert_empty(&mut self) -> io::Result<()> {
        self.inner.assert_empty()
    }
}
