//! Correspondence harness of property C14 (stub).
use mzkh::Ctx;

fn main() {
    let ctx = Ctx::from_args("C14");
    ctx.finish();
}
