//! Correspondence harness of property C14 (KZG multi-opening).
//!
//! * `sets …`   — the real `construct_intermediate_sets` (hook) on abstract, prover and verifier
//!   queries against `Model/C14/Sets.lean`;
//! * `prove …`  — the real `multi_open` with a known secret: challenges recorded, every proof element
//!   compared with `Model/C14/Open.lean` (group elements through their discrete logarithms);
//! * `verify …` — the real `multi_prepare`: the deferred dual MSM (scalars and bases, in order) and
//!   the verdict of the pairing check against the model, for honest and corrupted inputs.
//!
//! Oracles (the property statement on the real code): honest openings verify; a wrong claim or an
//! altered proof never verifies; a repeated (commitment, point) pair is refused.
use mzkh::Ctx;

mod cases;
mod open;
mod sets;
mod tr;

use std::cell::RefCell;

thread_local! {
    static ORACLE: RefCell<Vec<(u8, String, String, serde_json::Value)>> = const { RefCell::new(Vec::new()) };
}

/// Records a failure of the property statement. Failures are handed to `Ctx` at the end, the
/// end-to-end ones first (honest proof rejected, forgery accepted), one per key, so that the most
/// telling replays survive the cap of the evidence file.
pub fn ofail(ctx: &mut Ctx, key: &str, what: &str, detail: serde_json::Value) {
    let prio = if key.starts_with("honest-rejected") {
        0
    } else if key.starts_with("forgery-accepted") {
        1
    } else if key.starts_with("prover-fails") || key.starts_with("prover-garbage") {
        2
    } else if key.starts_with("sets:dup-accepted") || key.starts_with("sets:spurious-error") || key.starts_with("dup-") {
        3
    } else if key.starts_with("verifier-panics") {
        4
    } else {
        5
    };
    ctx.count(&format!("oracle:{}", key.split(':').take(2).collect::<Vec<_>>().join(":")));
    ORACLE.with(|o| {
        let mut o = o.borrow_mut();
        if o.len() < 20000 {
            o.push((prio, key.to_string(), what.to_string(), detail));
        }
    });
}

fn flush_oracle(ctx: &mut Ctx) {
    let mut all = ORACLE.with(|o| std::mem::take(&mut *o.borrow_mut()));
    all.sort_by(|a, b| a.0.cmp(&b.0));
    let mut seen = std::collections::HashSet::new();
    let mut rest = vec![];
    for (p, k, w, d) in all {
        if seen.insert(k.clone()) {
            ctx.oracle_fail(&k, &w, d);
        } else {
            rest.push((p, k, w, d));
        }
    }
    for (_, k, w, d) in rest {
        ctx.oracle_fail(&k, &w, d);
    }
}

fn main() {
    let mut ctx = Ctx::from_args("C14");
    let thorough = !ctx.quick();
    if !ctx.search() {
        // the generator of G1 as the implementation sees it
        ctx.case("gen", true, "gen", &open::affine_str(&<midnight_curves::G1Projective as group::Group>::generator()));
        sets::run(&mut ctx);
    }
    cases::run_exhaustive(&mut ctx);

    // structured base cases with the full corruption sweep
    let mut rng = ctx.rng("open-structured");
    let mut salt = 1u32;
    for b in cases::structured_bases(&mut rng, thorough) {
        salt += 1;
        if let Some(p) = open::prove_base(&mut ctx, &b, salt, 2, &mut rng) {
            let vq = p.built.vq.clone();
            open::verify_case(&mut ctx, &b, &p, &vq, &open::Tamper::None, "honest", true);
            cases::sweep(&mut ctx, &b, &p, &mut rng, None);
        }
    }
    cases::shape_mismatch(&mut ctx, &mut rng, 500);
    cases::dup_cases(&mut ctx, &mut rng, 600);
    for b in cases::probe_bases(&mut rng) {
        salt += 1;
        if let Some(p) = open::prove_base(&mut ctx, &b, salt, 1, &mut rng) {
            let vq = p.built.vq.clone();
            open::verify_case(&mut ctx, &b, &p, &vq, &open::Tamper::None, "honest", true);
        }
    }

    // random base cases up to 12 x 5 with a sampled corruption sweep
    let mut rng = ctx.rng("open-random");
    let nrand = if ctx.quick() { 60 } else if ctx.search() { 400 } else { 1200 };
    for i in 0..nrand {
        let b = cases::random_base(&mut rng, i);
        if let Some(p) = open::prove_base(&mut ctx, &b, 100_000 + i as u32, 2, &mut rng) {
            let vq = p.built.vq.clone();
            open::verify_case(&mut ctx, &b, &p, &vq, &open::Tamper::None, "honest", true);
            let bd = if ctx.quick() { 2 } else { 3 };
            cases::sweep(&mut ctx, &b, &p, &mut rng, Some(bd));
        }
    }
    // thread-count independence: the honest open -> verify round trip, the prover's intermediate
    // polynomials and the verifier's intermediate scalars inside explicit rayon pools (the chunked
    // helpers of utils/arithmetic.rs split by `rayon::current_num_threads()`); the model's answers do
    // not depend on the pool
    let pools: &[usize] = if ctx.quick() { &[1, 2, 3, 5, 6] } else { &[1, 2, 3, 5, 6, 7, 12, 16] };
    let npool_rand = if ctx.quick() { 5 } else if ctx.search() { 16 } else { 24 };
    for &t in pools {
        // the same base cases under every pool
        let mut rng = ctx.rng("open-pools");
        let mut bases = cases::pool_bases(&mut rng);
        for i in 0..npool_rand {
            bases.push(cases::random_base(&mut rng, i));
        }
        open::set_pool(t);
        for (j, b) in bases.iter().enumerate() {
            if let Some(p) = open::prove_base(&mut ctx, b, 200_000 + j as u32, 1, &mut rng) {
                let vq = p.built.vq.clone();
                let out = open::verify_case(&mut ctx, b, &p, &vq, &open::Tamper::None, "honest", true);
                ctx.count(&format!("pool{t}:honest:{}", if out.accepted { "accepted" } else { "REJECTED" }));
            }
        }
        open::set_pool(0);
    }
    // `eval_polynomial` itself (chunked by `rayon::current_num_threads()`) against its mirror
    // `evalPolyThreads` for every pool size and lengths around the chunk boundaries
    if !ctx.search() {
        let mut rng = ctx.rng("evalt");
        for &t in &[1usize, 2, 3, 4, 5, 6, 7, 8, 12, 16] {
            for n in [0usize, 1, 2, 3, 4, 5, 6, 7, 8, 9, 11, 12, 13, 15, 16, 17, 24, 31, 32, 33, 64, 100, 128] {
                use ff::Field;
                let poly: Vec<midnight_curves::Fq> = (0..n).map(|_| midnight_curves::Fq::random(&mut rng)).collect();
                let x = midnight_curves::Fq::random(&mut rng);
                let ans = match open::eval_in_pool(t, &poly, x) {
                    Ok(v) => mzkh::fe_hex(&v),
                    Err(_) => "panic".to_string(),
                };
                ctx.case("evalt", n > 1, &format!("evalt {} {} {}", t, open::hexl(&poly), mzkh::fe_hex(&x)), &ans);
                if ans != mzkh::fe_hex(&open::horner(&poly, x)) {
                    ctx.count(&format!("evalt:pool{t}:differs-from-horner"));
                }
            }
        }
    }
    flush_oracle(&mut ctx);
    ctx.finish();
}
