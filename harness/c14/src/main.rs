//! Correspondence harness of property C14 (KZG multi-opening).
//!
//! * `sets …`   — the real `construct_intermediate_sets` (hook) on abstract, prover and verifier
//!   queries against `Model/C14/Sets.lean`;
//! * `prove …`  — the real `multi_open` with a known secret: challenges recorded, every proof element
//!   compared with `Model/C14/Open.lean` (group elements through their discrete logarithms);
//! * `verify …` — the real `multi_prepare`: the deferred dual MSM (scalars and bases, in order) and
//!   the verdict of the pairing check against the model, for honest and corrupted inputs.
//!
//! Oracles (the property statement on the real code): honest openings verify; a wrong claim or an
//! altered proof never verifies; a repeated (commitment, point) pair is refused.
use mzkh::Ctx;

mod cases;
mod open;
mod sets;
mod tr;

fn main() {
    let mut ctx = Ctx::from_args("C14");
    let thorough = !ctx.quick();
    if !ctx.search() {
        // the generator of G1 as the implementation sees it
        ctx.case("gen", true, "gen", &open::affine_str(&<midnight_curves::G1Projective as group::Group>::generator()));
        sets::run(&mut ctx);
    }
    cases::run_exhaustive(&mut ctx);

    // structured base cases with the full corruption sweep
    let mut rng = ctx.rng("open-structured");
    let mut salt = 1u32;
    for b in cases::structured_bases(&mut rng, thorough) {
        salt += 1;
        if let Some(p) = open::prove_base(&mut ctx, &b, salt, 2, &mut rng) {
            let vq = p.built.vq.clone();
            open::verify_case(&mut ctx, &b, &p, &vq, &open::Tamper::None, "honest", true);
            cases::sweep(&mut ctx, &b, &p, &mut rng, None);
        }
    }
    cases::shape_mismatch(&mut ctx, &mut rng, 500);
    for b in cases::probe_bases(&mut rng) {
        salt += 1;
        if let Some(p) = open::prove_base(&mut ctx, &b, salt, 1, &mut rng) {
            let vq = p.built.vq.clone();
            open::verify_case(&mut ctx, &b, &p, &vq, &open::Tamper::None, "honest", true);
        }
    }

    // random base cases up to 12 x 5 with a sampled corruption sweep
    let mut rng = ctx.rng("open-random");
    let nrand = if ctx.quick() { 60 } else if ctx.search() { 400 } else { 1200 };
    for i in 0..nrand {
        let b = cases::random_base(&mut rng, i);
        if let Some(p) = open::prove_base(&mut ctx, &b, 100_000 + i as u32, 2, &mut rng) {
            let vq = p.built.vq.clone();
            open::verify_case(&mut ctx, &b, &p, &vq, &open::Tamper::None, "honest", true);
            let bd = if ctx.quick() { 2 } else { 3 };
            cases::sweep(&mut ctx, &b, &p, &mut rng, Some(bd));
        }
    }
    ctx.finish();
}
