//! Correspondence harness of property C14 (KZG multi-opening).
use mzkh::Ctx;

mod sets;
mod tr;

fn main() {
    let mut ctx = Ctx::from_args("C14");
    sets::run(&mut ctx);
    ctx.finish();
}
