//! Correspondence harness of property C14 (KZG multi-opening).
//!
//! * `sets …`   — the real `construct_intermediate_sets` (hook) on abstract, prover and verifier
//!   queries against `Model/C14/Sets.lean`;
//! * `prove …`  — the real `multi_open` with a known secret: challenges recorded, every proof element
//!   compared with `Model/C14/Open.lean` (group elements through their discrete logarithms);
//! * `verify …` — the real `multi_prepare`: the deferred dual MSM (scalars and bases, in order) and
//!   the verdict of the pairing check against the model, for honest and corrupted inputs.
//!
//! Oracles (the property statement on the real code): honest openings verify; a wrong claim or an
//! altered proof never verifies; a repeated (commitment, point) pair is refused.
use mzkh::Ctx;

mod cases;
mod open;
mod sets;
mod tr;

use std::cell::RefCell;

thread_local! {
    static ORACLE: RefCell<Vec<(u8, String, String, serde_json::Value)>> = const { RefCell::new(Vec::new()) };
}

/// Records a failure of the property statement. Failures are handed to `Ctx` at the end, the
/// end-to-end ones first (honest proof rejected, forgery accepted), one per key, so that the most
/// telling replays survive the cap of the evidence file.
pub fn ofail(ctx: &mut Ctx, key: &str, what: &str, detail: serde_json::Value) {
    let prio = if key.starts_with("honest-rejected") {
        0
    } else if key.starts_with("forgery-accepted") {
        1
    } else if key.starts_with("prover-fails") || key.starts_with("prover-garbage") {
        2
    } else if key.starts_with("sets:dup-accepted") || key.starts_with("sets:spurious-error") || key.starts_with("dup-") {
        3
    } else if key.starts_with("verifier-panics") {
        4
    } else {
        5
    };
    ctx.count(&format!("oracle:{}", key.split(':').take(2).collect::<Vec<_>>().join(":")));
    ORACLE.with(|o| {
        let mut o = o.borrow_mut();
        if o.len() < 20000 {
            o.push((prio, key.to_string(), what.to_string(), detail));
        }
    });
}

fn flush_oracle(ctx: &mut Ctx) {
    let mut all = ORACLE.with(|o| std::mem::take(&mut *o.borrow_mut()));
    all.sort_by(|a, b| a.0.cmp(&b.0));
    let mut seen = std::collections::HashSet::new();
    let mut rest = vec![];
    for (p, k, w, d) in all {
        if seen.insert(k.clone()) {
            ctx.oracle_fail(&k, &w, d);
        } else {
            rest.push((p, k, w, d));
        }
    }
    for (_, k, w, d) in rest {
        ctx.oracle_fail(&k, &w, d);
    }
}

fn main() {
    let mut ctx = Ctx::from_args("C14");
    let thorough = !ctx.quick();
    if !ctx.search() {
        // the generator of G1 as the implementation sees it
        ctx.case("gen", true, "gen", &open::affine_str(&<midnight_curves::G1Projective as group::Group>::generator()));
        sets::run(&mut ctx);
    }
    cases::run_exhaustive(&mut ctx);

    // structured base cases with the full corruption sweep
    let mut rng = ctx.rng("open-structured");
    let mut salt = 1u32;
    for b in cases::structured_bases(&mut rng, thorough) {
        salt += 1;
        if let Some(p) = open::prove_base(&mut ctx, &b, salt, 2, &mut rng) {
            let vq = p.built.vq.clone();
            open::verify_case(&mut ctx, &b, &p, &vq, &open::Tamper::None, "honest", true);
            cases::sweep(&mut ctx, &b, &p, &mut rng, None);
        }
    }
    cases::shape_mismatch(&mut ctx, &mut rng, 500);
    cases::dup_cases(&mut ctx, &mut rng, 600);
    for b in cases::probe_bases(&mut rng) {
        salt += 1;
        if let Some(p) = open::prove_base(&mut ctx, &b, salt, 1, &mut rng) {
            let vq = p.built.vq.clone();
            open::verify_case(&mut ctx, &b, &p, &vq, &open::Tamper::None, "honest", true);
        }
    }

    // random base cases up to 12 x 5 with a sampled corruption sweep
    let mut rng = ctx.rng("open-random");
    let nrand = if ctx.quick() { 60 } else if ctx.search() { 400 } else { 1200 };
    for i in 0..nrand {
        let b = cases::random_base(&mut rng, i);
        if let Some(p) = open::prove_base(&mut ctx, &b, 100_000 + i as u32, 2, &mut rng) {
            let vq = p.built.vq.clone();
            open::verify_case(&mut ctx, &b, &p, &vq, &open::Tamper::None, "honest", true);
            let bd = if ctx.quick() { 2 } else { 3 };
            cases::sweep(&mut ctx, &b, &p, &mut rng, Some(bd));
        }
    }
    flush_oracle(&mut ctx);
    ctx.finish();
}
