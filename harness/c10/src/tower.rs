//! Extension-field towers (BLS12-381 Fp2/Fp6/Fp12, BN254 Fq2/Fq6/Fq12): coefficient vectors in,
//! coefficient vectors out, against the Lean tower model (`tw <Tower><deg> <op> …`).

use ff::{Field, PrimeField};
use midnight_curves::bls12_381::{Fp12, Fp2, Fp6};
use midnight_curves::bn256::{Fq12, Fq2, Fq6};
use midnight_curves::ff_ext::{
    cubic::CubicSparseMul, quadratic::QuadSparseMul, ExtField, Legendre,
};
use mzkh::{catch, Ctx};
use num_bigint::BigUint;
use num_traits::{One, Zero};
use rand_core::RngCore;
use serde_json::json;

use crate::pf::{canon, fe, modulus, BlsFp, Bn256Fq};

/// An extension field given by its coefficient vector over the prime field.
pub trait TW: Field {
    const NAME: &'static str;
    const DEG: usize;
    fn p() -> BigUint;
    fn of(c: &[BigUint]) -> Self;
    fn to(&self) -> Vec<BigUint>;
    fn frob(&self, k: usize) -> Self;
}

fn hexes(s: &str) -> Vec<BigUint> {
    // coefficients printed by the derived Debug impls, in order
    let mut out = vec![];
    let b = s.as_bytes();
    let mut i = 0;
    while i + 1 < b.len() {
        if b[i] == b'0' && b[i + 1] == b'x' {
            let mut j = i + 2;
            while j < b.len() && (b[j] as char).is_ascii_hexdigit() {
                j += 1;
            }
            out.push(BigUint::parse_bytes(&b[i + 2..j], 16).unwrap());
            i = j;
        } else {
            i += 1;
        }
    }
    out
}

impl TW for Fp2 {
    const NAME: &'static str = "Bls2";
    const DEG: usize = 2;
    fn p() -> BigUint {
        modulus::<BlsFp>()
    }
    fn of(c: &[BigUint]) -> Self {
        Fp2::new(fe::<BlsFp>(&c[0]), fe::<BlsFp>(&c[1]))
    }
    fn to(&self) -> Vec<BigUint> {
        vec![canon(&self.c0()), canon(&self.c1())]
    }
    fn frob(&self, k: usize) -> Self {
        let mut x = *self;
        x.frobenius_map(k);
        x
    }
}
impl TW for Fp6 {
    const NAME: &'static str = "Bls6";
    const DEG: usize = 6;
    fn p() -> BigUint {
        modulus::<BlsFp>()
    }
    fn of(c: &[BigUint]) -> Self {
        Fp6::new(Fp2::of(&c[0..2]), Fp2::of(&c[2..4]), Fp2::of(&c[4..6]))
    }
    fn to(&self) -> Vec<BigUint> {
        [self.c0().to(), self.c1().to(), self.c2().to()].concat()
    }
    fn frob(&self, k: usize) -> Self {
        let mut x = *self;
        x.frobenius_map(k);
        x
    }
}
impl TW for Fp12 {
    const NAME: &'static str = "Bls12";
    const DEG: usize = 12;
    fn p() -> BigUint {
        modulus::<BlsFp>()
    }
    fn of(c: &[BigUint]) -> Self {
        Fp12::new(Fp6::of(&c[0..6]), Fp6::of(&c[6..12]))
    }
    fn to(&self) -> Vec<BigUint> {
        [self.c0().to(), self.c1().to()].concat()
    }
    fn frob(&self, k: usize) -> Self {
        let mut x = *self;
        x.frobenius_map(k);
        x
    }
}
impl TW for Fq2 {
    const NAME: &'static str = "Bn2562";
    const DEG: usize = 2;
    fn p() -> BigUint {
        modulus::<Bn256Fq>()
    }
    fn of(c: &[BigUint]) -> Self {
        Fq2::new(fe::<Bn256Fq>(&c[0]), fe::<Bn256Fq>(&c[1]))
    }
    fn to(&self) -> Vec<BigUint> {
        hexes(&format!("{self:?}"))
    }
    fn frob(&self, k: usize) -> Self {
        let mut x = *self;
        ExtField::frobenius_map(&mut x, k);
        x
    }
}
impl TW for Fq6 {
    const NAME: &'static str = "Bn2566";
    const DEG: usize = 6;
    fn p() -> BigUint {
        modulus::<Bn256Fq>()
    }
    fn of(c: &[BigUint]) -> Self {
        Fq6::new(Fq2::of(&c[0..2]), Fq2::of(&c[2..4]), Fq2::of(&c[4..6]))
    }
    fn to(&self) -> Vec<BigUint> {
        hexes(&format!("{self:?}"))
    }
    fn frob(&self, k: usize) -> Self {
        let mut x = *self;
        ExtField::frobenius_map(&mut x, k);
        x
    }
}
impl TW for Fq12 {
    const NAME: &'static str = "Bn25612";
    const DEG: usize = 12;
    fn p() -> BigUint {
        modulus::<Bn256Fq>()
    }
    fn of(c: &[BigUint]) -> Self {
        Fq12::new(Fq6::of(&c[0..6]), Fq6::of(&c[6..12]))
    }
    fn to(&self) -> Vec<BigUint> {
        hexes(&format!("{self:?}"))
    }
    fn frob(&self, k: usize) -> Self {
        let mut x = *self;
        ExtField::frobenius_map(&mut x, k);
        x
    }
}

fn cs(v: &[BigUint]) -> String {
    v.iter().map(|x| format!("0x{}", x.to_str_radix(16))).collect::<Vec<_>>().join(",")
}

fn elems<T: TW>(ctx: &Ctx, nrandom: usize) -> Vec<(&'static str, Vec<BigUint>)> {
    let p = T::p();
    let d = T::DEG;
    let z = BigUint::zero();
    let o = BigUint::one();
    let m1 = &p - 1u32;
    let half = (&p - 1u32) / 2u32;
    let r = (BigUint::one() << (64 * ((p.bits() as usize + 63) / 64))) % &p;
    let unit = |i: usize, v: &BigUint| {
        let mut c = vec![z.clone(); d];
        c[i] = v.clone();
        c
    };
    let mut v: Vec<(&'static str, Vec<BigUint>)> = vec![
        ("zero", vec![z.clone(); d]),
        ("one", unit(0, &o)),
        ("minus-one", unit(0, &m1)),
        ("all-minus-one", vec![m1.clone(); d]),
        ("all-half", vec![half.clone(); d]),
        ("all-R", vec![r.clone(); d]),
        ("last-coefficient-only", unit(d - 1, &o)),
        ("last-coefficient-only", unit(d - 1, &m1)),
        ("second-coefficient-only", unit(1, &o)),
    ];
    if d >= 6 {
        v.push(("one-per-block", unit(d / 2, &o)));
        v.push(("one-per-block", unit(4, &half)));
    }
    let mut rng = ctx.rng(&format!("tower:{}", T::NAME));
    for _ in 0..nrandom {
        let c: Vec<BigUint> = (0..d)
            .map(|_| {
                let mut b = vec![0u8; 56];
                rng.fill_bytes(&mut b);
                BigUint::from_bytes_le(&b) % &p
            })
            .collect();
        v.push(("random", c.clone()));
        // sparse random: some coefficients zero
        let s: Vec<BigUint> = c.iter().enumerate().map(|(i, x)| if (rng.next_u32() >> (i % 7)) & 1 == 1 { x.clone() } else { z.clone() }).collect();
        v.push(("random-sparse", s));
    }
    v
}

fn run_tw<T: TW>(ctx: &mut Ctx) {
    let n = T::NAME;
    let nr = crate::sz(ctx, 3, 25);
    let cls = elems::<T>(ctx, nr);
    let els: Vec<T> = cls.iter().map(|(_, c)| T::of(c)).collect();
    for ((c, v), a) in cls.iter().zip(&els) {
        ctx.count(&format!("tower-class:{c}"));
        let nt = c.starts_with("random");
        let a = *a;
        let av = cs(v);
        if a.to() != *v {
            ctx.oracle_fail(&format!("{n}:coeffs:{av}"), "coefficient accessors do not round-trip", json!({"tower": n, "a": av}));
        }
        ctx.case("tw.neg", nt, &format!("tw {n} neg {av}"), &cs(&(-a).to()));
        ctx.case("tw.square", nt, &format!("tw {n} square {av}"), &cs(&a.square().to()));
        ctx.case("tw.double", nt, &format!("tw {n} double {av}"), &cs(&a.double().to()));
        ctx.case("tw.is_zero", nt, &format!("tw {n} is_zero {av}"), &format!("{}", a.is_zero().unwrap_u8()));
        let is_zero_spec = v.iter().all(|x| x.is_zero());
        if bool::from(a.is_zero()) != is_zero_spec {
            // regression of E2 (CubicExtField::is_zero ignored c2)
            let key = if n == "Bn2566" { "bn256.Fq6:is_zero-ignores-c2".to_string() } else { format!("{n}:is_zero:{av}") };
            ctx.oracle_fail(&key, "is_zero() differs from 'all coefficients are zero'", json!({"tower": n, "a": av}));
        }
        match catch(|| Option::<T>::from(a.invert())) {
            Err(e) => ctx.oracle_fail(&format!("{n}:invert-panic:{av}"), "invert panicked", json!({"tower": n, "a": av, "panic": e})),
            Ok(i) => {
                ctx.case("tw.inv", nt, &format!("tw {n} inv {av}"), &i.map(|x| cs(&x.to())).unwrap_or("none".into()));
                match i {
                    Some(i) if i * a != T::ONE || is_zero_spec => ctx.oracle_fail(&format!("{n}:invert:{av}"), "x * invert(x) != 1", json!({"tower": n, "a": av})),
                    None if !is_zero_spec => ctx.oracle_fail(&format!("{n}:invert:{av}"), "invert(x) is None for x != 0", json!({"tower": n, "a": av})),
                    _ => {}
                }
            }
        }
        for k in [0usize, 1, 2, 3, 5, 6, 7, 11, 12, 13] {
            if !ctx.thorough() && !nt && k > 3 {
                continue;
            }
            ctx.case("tw.frobenius", nt, &format!("tw {n} frobenius {av} | {k}"), &cs(&a.frob(k).to()));
        }
        if a.cube() != a * a * a || a.square() != a * a {
            ctx.oracle_fail(&format!("{n}:square-cube:{av}"), "square/cube differ from repeated multiplication", json!({"tower": n, "a": av}));
        }
    }
    for ((ca, va), a) in cls.iter().zip(&els) {
        for ((cb, vb), b) in cls.iter().zip(&els) {
            let (a, b) = (*a, *b);
            let nt = ca.starts_with("random") || cb.starts_with("random");
            let (ah, bh) = (cs(va), cs(vb));
            let (s, d, m) = (a + b, a - b, a * b);
            ctx.case("tw.add", nt, &format!("tw {n} add {ah} {bh}"), &cs(&s.to()));
            ctx.case("tw.sub", nt, &format!("tw {n} sub {ah} {bh}"), &cs(&d.to()));
            ctx.case("tw.mul", nt, &format!("tw {n} mul {ah} {bh}"), &cs(&m.to()));
            let mut ok = a + &b == s && a - &b == d && a * &b == m && b * a == m;
            let mut t = a;
            t += b;
            ok &= t == s;
            let mut t = a;
            t += &b;
            ok &= t == s;
            let mut t = a;
            t -= b;
            ok &= t == d;
            let mut t = a;
            t -= &b;
            ok &= t == d;
            let mut t = a;
            t *= b;
            ok &= t == m;
            let mut t = a;
            t *= &b;
            ok &= t == m;
            ok &= (a == b) == (va == vb) && bool::from(a.ct_eq(&b)) == (va == vb);
            ok &= T::conditional_select(&a, &b, 0.into()) == a && T::conditional_select(&a, &b, 1.into()) == b;
            if !ok {
                ctx.oracle_fail(&format!("{n}:variants:{ah}:{bh}"), "operator variants (by ref / in place / ct_eq / select / commutativity) disagree", json!({"tower": n, "a": ah, "b": bh}));
            }
        }
    }
    // batched
    let xs: Vec<T> = els.iter().copied().take(7).collect();
    let s: T = xs.iter().copied().sum();
    let pr: T = xs.iter().copied().product();
    let s2 = xs.iter().fold(T::ZERO, |a, x| a + x);
    let p2 = xs.iter().fold(T::ONE, |a, x| a * x);
    if s != s2 || pr != p2 {
        ctx.oracle_fail(&format!("{n}:sum-product"), "Sum/Product differ from the fold", json!({"tower": n}));
    }
}

fn run_deg2_extras(ctx: &mut Ctx) {
    // BLS Fp2
    for (c, v) in elems::<Fp2>(ctx, crate::sz(ctx, 6, 60)) {
        let a = Fp2::of(&v);
        let av = cs(&v);
        let nt = c.starts_with("random");
        let mut t = a;
        t.mul_by_nonresidue();
        ctx.case("tw.mul_nr", nt, &format!("tw Bls2 mul_nr {av}"), &cs(&t.to()));
        ctx.case("tw.norm", nt, &format!("tw Bls2 norm {av}"), &format!("0x{}", canon(&a.norm()).to_str_radix(16)));
        ctx.case("tw.legendre", nt, &format!("tw Bls2 legendre {av}"), &format!("{}", a.legendre()));
        let r = Option::<Fp2>::from(a.sqrt());
        ctx.case("tw.is_square", nt, &format!("tw Bls2 is_square {av}"), &format!("{}", r.is_some() as u8));
        if let Some(r) = r {
            if r * r != a {
                ctx.oracle_fail(&format!("Bls2:sqrt:{av}"), "sqrt(x)^2 != x", json!({"a": av}));
            }
        }
        if a.is_quad_res() != r.is_some() {
            ctx.oracle_fail(&format!("Bls2:is_quad_res:{av}"), "is_quad_res differs from sqrt().is_some()", json!({"a": av}));
        }
        if a.mul3() != a + a + a || a.mul8() != a.double().double().double() || a.shl(3) != a.mul8() {
            ctx.oracle_fail(&format!("Bls2:mul3-8:{av}"), "mul3/mul8/shl differ from repeated addition", json!({"a": av}));
        }
    }
    // BN254 Fq2
    for (c, v) in elems::<Fq2>(ctx, crate::sz(ctx, 6, 60)) {
        let a = Fq2::of(&v);
        let av = cs(&v);
        let nt = c.starts_with("random");
        ctx.case("tw.mul_nr", nt, &format!("tw Bn2562 mul_nr {av}"), &cs(&ExtField::mul_by_nonresidue(&a).to()));
        if ExtField::mul_by_nonresidue(&a) != a * Fq2::NON_RESIDUE {
            ctx.oracle_fail(&format!("Bn2562:mul_nr:{av}"), "mul_by_nonresidue differs from multiplication by NON_RESIDUE", json!({"a": av}));
        }
        ctx.case("tw.norm", nt, &format!("tw Bn2562 norm {av}"), &format!("0x{}", canon(&a.norm()).to_str_radix(16)));
        ctx.case("tw.legendre", nt, &format!("tw Bn2562 legendre {av}"), &format!("{}", a.legendre()));
        match catch(|| Option::<Fq2>::from(a.sqrt())) {
            Err(e) => ctx.oracle_fail(&format!("Bn2562:sqrt-panic:{av}"), "sqrt panicked", json!({"a": av, "panic": e})),
            Ok(r) => {
                ctx.case("tw.is_square", nt, &format!("tw Bn2562 is_square {av}"), &format!("{}", r.is_some() as u8));
                if let Some(r) = r {
                    if r * r != a {
                        ctx.oracle_fail(&format!("Bn2562:sqrt:{av}"), "sqrt(x)^2 != x", json!({"a": av}));
                    }
                }
            }
        }
        // codecs
        let bytes = a.to_bytes();
        let rep = a.to_repr();
        let ok = Option::<Fq2>::from(Fq2::from_bytes(&bytes)) == Some(a)
            && Option::<Fq2>::from(Fq2::from_repr(rep)) == Some(a)
            && BigUint::from_bytes_le(&bytes[..32]) == v[0]
            && BigUint::from_bytes_le(&bytes[32..]) == v[1];
        if !ok {
            ctx.oracle_fail(&format!("Bn2562:codecs:{av}"), "to_bytes/from_bytes/to_repr/from_repr do not round-trip", json!({"a": av}));
        }
    }
    // E3 regression: non-canonical halves are rejected without panicking
    let p = modulus::<Bn256Fq>();
    for (i, half) in [p.clone(), &p + 1u32, (BigUint::one() << 256usize) - 1u32].iter().enumerate() {
        for pos in 0..2 {
            let mut bytes = [0u8; 64];
            let hb = half.to_bytes_le();
            bytes[32 * pos..32 * pos + hb.len()].copy_from_slice(&hb);
            let r1 = catch(|| bool::from(Fq2::from_bytes(&bytes).is_some()));
            let mut rep = <Fq2 as PrimeField>::Repr::default();
            rep.as_mut().copy_from_slice(&bytes);
            let r2 = catch(|| bool::from(Fq2::from_repr(rep).is_some()));
            if r1 != Ok(false) || r2 != Ok(false) {
                ctx.oracle_fail(
                    "bn256.Fq2:decoder-panics-noncanonical",
                    "bn256 Fq2::from_bytes/from_repr accept or panic on a non-canonical half",
                    json!({"case": i, "half": pos, "from_bytes": format!("{r1:?}"), "from_repr": format!("{r2:?}")}),
                );
            }
        }
    }
    ctx.count("regression:Fq2-noncanonical");
}

fn run_sparse(ctx: &mut Ctx) {
    let nr = crate::sz(ctx, 4, 40);
    let e6 = elems::<Fq6>(ctx, nr);
    let e2 = elems::<Fq2>(ctx, nr);
    for (i, (c, v)) in e6.iter().enumerate() {
        let a = Fq6::of(v);
        let c0 = &e2[(i * 3 + 1) % e2.len()].1;
        let c1 = &e2[(i * 5 + 2) % e2.len()].1;
        let nt = c.starts_with("random");
        let r1 = <Fq6 as CubicSparseMul>::mul_by_1(&a, &Fq2::of(c1));
        ctx.case("tw.mul_by_1", nt, &format!("tw Bn2566 mul_by_1 {} | {}", cs(v), cs(c1).replace(',', " ")), &cs(&r1.to()));
        let r01 = <Fq6 as CubicSparseMul>::mul_by_01(&a, &Fq2::of(c0), &Fq2::of(c1));
        ctx.case("tw.mul_by_01", nt, &format!("tw Bn2566 mul_by_01 {} | {} {}", cs(v), cs(c0).replace(',', " "), cs(c1).replace(',', " ")), &cs(&r01.to()));
        let full1 = a * Fq6::new(Fq2::ZERO, Fq2::of(c1), Fq2::ZERO);
        let full01 = a * Fq6::new(Fq2::of(c0), Fq2::of(c1), Fq2::ZERO);
        let mut nrr = a;
        nrr = ExtField::mul_by_nonresidue(&nrr);
        ctx.case("tw.mul_nr", nt, &format!("tw Bn2566 mul_nr {}", cs(v)), &cs(&nrr.to()));
        if r1 != full1 || r01 != full01 || nrr != a * Fq6::NON_RESIDUE {
            ctx.oracle_fail(&format!("Bn2566:sparse:{}", cs(v)), "mul_by_1 / mul_by_01 / mul_by_nonresidue differ from the full product", json!({"a": cs(v)}));
        }
    }
    let e12 = elems::<Fq12>(ctx, nr);
    for (i, (c, v)) in e12.iter().enumerate() {
        let a = Fq12::of(v);
        let x = &e2[(i * 3 + 1) % e2.len()].1;
        let y = &e2[(i * 5 + 2) % e2.len()].1;
        let z = &e2[(i * 7 + 3) % e2.len()].1;
        let nt = c.starts_with("random");
        let (fx, fy, fz) = (Fq2::of(x), Fq2::of(y), Fq2::of(z));
        let mut r = a;
        <Fq12 as QuadSparseMul>::mul_by_014(&mut r, &fx, &fy, &fz);
        let args = format!("{} {} {}", cs(x).replace(',', " "), cs(y).replace(',', " "), cs(z).replace(',', " "));
        ctx.case("tw.mul_by_014", nt, &format!("tw Bn25612 mul_by_014 {} | {args}", cs(v)), &cs(&r.to()));
        let full = a * Fq12::new(Fq6::new(fx, fy, Fq2::ZERO), Fq6::new(Fq2::ZERO, fz, Fq2::ZERO));
        let mut r2 = a;
        <Fq12 as QuadSparseMul>::mul_by_034(&mut r2, &fx, &fy, &fz);
        ctx.case("tw.mul_by_034", nt, &format!("tw Bn25612 mul_by_034 {} | {args}", cs(v)), &cs(&r2.to()));
        let full2 = a * Fq12::new(Fq6::new(fx, Fq2::ZERO, Fq2::ZERO), Fq6::new(fy, fz, Fq2::ZERO));
        let mut cj = a;
        cj.conjugate();
        ctx.case("tw.conjugate", nt, &format!("tw Bn25612 conjugate {}", cs(v)), &cs(&cj.to()));
        if r != full || r2 != full2 {
            ctx.oracle_fail(&format!("Bn25612:sparse:{}", cs(v)), "mul_by_014 / mul_by_034 differ from the full product", json!({"a": cs(v)}));
        }
    }
    // BLS Fp6 / Fp12 extras
    for (c, v) in elems::<Fp6>(ctx, nr) {
        let a = Fp6::of(&v);
        let mut t = a;
        t.mul_by_nonresidue();
        ctx.case("tw.mul_nr", c.starts_with("random"), &format!("tw Bls6 mul_nr {}", cs(&v)), &cs(&t.to()));
    }
    for (c, v) in elems::<Fp12>(ctx, nr) {
        let a = Fp12::of(&v);
        let mut t = a;
        t.conjugate();
        ctx.case("tw.conjugate", c.starts_with("random"), &format!("tw Bls12 conjugate {}", cs(&v)), &cs(&t.to()));
    }
}

/// Child-process part of the Sum/Product-by-reference probe.
pub fn probe_sum_ref_child() {
    fn one<T: TW>() {
        let xs: Vec<T> = (1u64..=5).map(|i| T::of(&vec![BigUint::from(i); T::DEG])).collect();
        let s: T = xs.iter().sum();
        let p: T = xs.iter().product();
        let s2 = xs.iter().fold(T::ZERO, |a, x| a + x);
        let p2 = xs.iter().fold(T::ONE, |a, x| a * x);
        println!("tw:{} {} {}", T::NAME, if s == s2 { "ok" } else { "differs" }, if p == p2 { "ok" } else { "differs" });
    }
    one::<Fp2>();
    one::<Fp6>();
    one::<Fp12>();
    one::<Fq2>();
    one::<Fq6>();
    one::<Fq12>();
}

pub fn run(ctx: &mut Ctx) {
    run_tw::<Fp2>(ctx);
    run_tw::<Fp6>(ctx);
    run_tw::<Fp12>(ctx);
    run_tw::<Fq2>(ctx);
    run_tw::<Fq6>(ctx);
    run_tw::<Fq12>(ctx);
    run_deg2_extras(ctx);
    run_sparse(ctx);
}
