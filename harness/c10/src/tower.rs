//! Extension-field towers (filled in below).
use mzkh::Ctx;
pub fn probe_sum_ref_child() {}
pub fn run(_ctx: &mut Ctx) {}
