//! Bernstein–Yang inversion (`ff_ext/inverse.rs`) and the Jacobi symbol (`ff_ext/jacobi.rs`):
//! the private building blocks (`jump`, `fg`, `de`, `norm`, `convert`/`inv` through `new`,
//! `approximate`, `jacobinary`) on boundary classes, and the traced main loops (every
//! `(delta, matrix, f, g, d, e)` after a batch of 62 division steps; every `(n, d, t, a, b, u, v)`
//! of an outer iteration of `jacobi`) against the Lean mirrors `Model/C10/BY.lean`,
//! `Model/C10/Jacobi.lean` — request kinds `by …`, `byv …`, `jac …`.
//!
//! Oracles checked here on the REAL states: `result·x ≡ A (mod M)`, `result < M`, `None` iff
//! `gcd(x, M) ≠ 1`; after every batch `d·x ≡ f·A`, `e·x ≡ g·A (mod M)`, `-2M < d, e < M`,
//! `det(matrix) = 2^62`; `jacobi(n, d)` = the Jacobi symbol computed on `BigUint`s.

use midnight_curves::ff_ext::inverse::{verif_by_log_start, verif_by_log_take, BYInverter};
use midnight_curves::ff_ext::jacobi::{jacobi, verif_approximate, verif_jacobi_log_start, verif_jacobi_log_take, verif_jacobinary};
use mzkh::{catch, Ctx};
use num_bigint::{BigInt, BigUint, Sign};
use num_traits::{One, Signed, Zero};
use rand_core::RngCore;
use serde_json::json;

const MASK: u64 = u64::MAX >> 2;

fn hl(l: &[u64]) -> String {
    if l.is_empty() {
        "-".into()
    } else {
        l.iter().map(|x| format!("0x{x:x}")).collect::<Vec<_>>().join(",")
    }
}

fn limbs(b: &BigUint, n: usize) -> Vec<u64> {
    let mut d = b.to_u64_digits();
    assert!(d.len() <= n, "value does not fit {n} limbs");
    d.resize(n, 0);
    d
}

fn big_of_limbs(l: &[u64]) -> BigUint {
    let mut b = BigUint::zero();
    for x in l.iter().rev() {
        b = (b << 64usize) + BigUint::from(*x);
    }
    b
}

/// Signed value of 62-bit chunks in two's complement.
fn cval(c: &[u64]) -> BigInt {
    let mut b = BigUint::zero();
    for x in c.iter().rev() {
        b = (b << 62usize) + BigUint::from(*x);
    }
    let v = BigInt::from_biguint(Sign::Plus, b);
    if c[c.len() - 1] > (MASK >> 1) {
        v - (BigInt::one() << (62 * c.len()))
    } else {
        v
    }
}

/// 62-bit chunks (two's complement) of a signed value.
fn chunks_of<const L: usize>(v: &BigInt) -> [u64; L] {
    let m = BigInt::one() << (62 * L);
    let mut r = ((v % &m) + &m) % &m;
    let mut out = [0u64; L];
    let mask = BigInt::from(MASK);
    for c in out.iter_mut() {
        *c = (&r & &mask).to_u64_digits().1.first().copied().unwrap_or(0);
        r >>= 62usize;
    }
    out
}

fn mat(t: &[[i64; 2]; 2]) -> String {
    format!("{},{},{},{}", t[0][0], t[0][1], t[1][0], t[1][1])
}

fn pow2(k: usize) -> BigUint {
    BigUint::one() << k
}

fn gcd(a: &BigUint, b: &BigUint) -> BigUint {
    let (mut a, mut b) = (a.clone(), b.clone());
    while !b.is_zero() {
        let r = &a % &b;
        a = b;
        b = r;
    }
    a
}

fn modinv(a: &BigUint, m: &BigUint) -> Option<BigUint> {
    // extended Euclid on BigInt
    let (mut r0, mut r1) = (BigInt::from(m.clone()), BigInt::from(a % m));
    let (mut t0, mut t1) = (BigInt::zero(), BigInt::one());
    while !r1.is_zero() {
        let q = &r0 / &r1;
        let r2 = &r0 - &q * &r1;
        r0 = r1;
        r1 = r2;
        let t2 = &t0 - &q * &t1;
        t0 = t1;
        t1 = t2;
    }
    if !r0.is_one() {
        return None;
    }
    let mi = BigInt::from(m.clone());
    Some((((t0 % &mi) + &mi) % &mi).to_biguint().unwrap())
}

/// Values to invert modulo `m` (`bits` = width of the 64-bit limb array handed to `invert`).
fn invert_classes(ctx: &Ctx, label: &str, m: &BigUint, bits: usize, nrandom: usize) -> Vec<(&'static str, BigUint)> {
    let one = BigUint::one();
    let r = pow2(bits) % m;
    let mut v: Vec<(&'static str, BigUint)> = vec![
        ("0", BigUint::zero()),
        ("1", one.clone()),
        ("2", BigUint::from(2u32)),
        ("3", BigUint::from(3u32)),
        ("m-1", m - 1u32),
        ("m-2", m - 2u32),
        ("(m-1)/2", (m - 1u32) / 2u32),
        ("(m+1)/2", (m + 1u32) / 2u32),
        ("R", r.clone()),
        ("R^2", (&r * &r) % m),
        ("m", m.clone()),
        ("m+1", m + 1u32),
        ("all-ones", pow2(bits) - 1u32),
        ("2^(bits-1)", pow2(bits - 1)),
    ];
    if m * 2u32 < pow2(bits) {
        v.push(("2m-1", m * 2u32 - 1u32));
        v.push(("2m+1", m * 2u32 + 1u32));
    }
    let mut k = 1;
    while k < bits {
        for (c, x) in [("2^k", pow2(k)), ("2^k-1", pow2(k) - 1u32), ("2^k+1", pow2(k) + 1u32)] {
            v.push((c, x.clone()));
            // values whose INVERSE is the limb-extreme number
            if let Some(i) = modinv(&x, m) {
                v.push(("inverse-of-2^k±", i));
            }
        }
        k += if bits > 128 { 31 } else { 7 };
    }
    for k in [62usize, 124, 186, 248, 310, 372] {
        if k < bits {
            v.push(("2^62k", pow2(k)));
            v.push(("2^62k-1", pow2(k) - 1u32));
        }
    }
    let mut rng = ctx.rng(label);
    for _ in 0..nrandom {
        let mut b = vec![0u8; bits / 8];
        rng.fill_bytes(&mut b);
        let x = BigUint::from_bytes_le(&b);
        v.push(("random<m", &x % m));
        v.push(("random", x));
    }
    v
}

fn step_line(delta: i64, t: &[[i64; 2]; 2], f: &[u64], g: &[u64], d: &[u64], e: &[u64]) -> String {
    format!("{delta}|{}|{}|{}|{}|{}", mat(t), hl(f), hl(g), hl(d), hl(e))
}

/// The traced main loop and the building blocks for one inverter.
fn run_inverter<const L: usize, const S: usize>(ctx: &mut Ctx, name: &str, m: &BigUint, adjusters: &[(&str, BigUint)], nrandom: usize, extra: &[BigUint]) {
    let ml = limbs(m, S);
    let mi = BigInt::from(m.clone());
    let two62 = BigInt::one() << 62usize;
    for (an, a) in adjusters {
        let al = limbs(a, S);
        let inv = BYInverter::<L>::new(&ml, &al);
        let (m62, a62, inverse) = inv.verif_parts();
        ctx.case("by.new", true, &format!("by new {L} {} {}", hl(&ml), hl(&al)), &format!("{} {} {inverse}", hl(&m62), hl(&a62)));
        if cval(&m62) != mi || cval(&a62) != BigInt::from(a.clone()) || (BigInt::from(inverse) * &mi - 1u32) % &two62 != BigInt::zero() {
            ctx.oracle_fail(&format!("by:{name}:new:{an}"), "BYInverter::new: chunks of the modulus/adjuster or the inverse modulo 2^62 are wrong", json!({"modulus": hl(&ml), "adjuster": hl(&al)}));
        }
        let ai = BigInt::from(a.clone());
        let mut cls = invert_classes(ctx, &format!("by:{name}:{an}"), m, 64 * S, nrandom);
        for x in extra {
            cls.push(("many-batches", x.clone()));
        }
        for (c, x) in &cls {
            // documented domain of the inverter: arguments up to 2^(62·L - 64)
            if x.bits() as usize > 62 * L - 64 {
                continue;
            }
            ctx.count(&format!("by.class:{c}"));
            let xl = limbs(x, S);
            let key = format!("by:{name}:{an}:invert:{}", hl(&xl));
            verif_by_log_start();
            let r = catch(|| inv.invert::<S>(&xl));
            let tr = verif_by_log_take();
            let r = match r {
                Ok(r) => r,
                Err(e) => {
                    ctx.oracle_fail(&key, "BYInverter::invert panicked", json!({"inverter": name, "adjuster": an, "x": hl(&xl), "panic": e}));
                    continue;
                }
            };
            ctx.count(&format!("by.batches:{}", tr.len()));
            let mut parts = vec![r.map(|l| hl(&l)).unwrap_or("none".into())];
            let mut partsv = vec![];
            let xi = BigInt::from(x.clone());
            let mut bad: Vec<String> = vec![];
            for (i, s) in tr.iter().enumerate() {
                parts.push(step_line(s.delta, &s.matrix, &s.f, &s.g, &s.d, &s.e));
                let (f, g, d, e) = (cval(&s.f), cval(&s.g), cval(&s.d), cval(&s.e));
                partsv.push(format!("{}|{}|{f}|{g}|{d}|{e}", s.delta, mat(&s.matrix)));
                // the invariant of the theorem, on the real states
                let t = &s.matrix;
                let det = t[0][0] as i128 * t[1][1] as i128 - t[0][1] as i128 * t[1][0] as i128;
                if ((&d * &xi - &f * &ai) % &mi) != BigInt::zero() || ((&e * &xi - &g * &ai) % &mi) != BigInt::zero() {
                    bad.push(format!("batch {i}: d*x = f*A, e*x = g*A (mod M) violated"));
                }
                if det != 1i128 << 62 {
                    bad.push(format!("batch {i}: det(matrix) = {det} != 2^62"));
                }
                for (nm, v) in [("d", &d), ("e", &e)] {
                    let lo: BigInt = -(&mi * 2i32);
                    if *v <= lo || *v >= mi {
                        bad.push(format!("batch {i}: {nm} outside (-2M, M)"));
                    }
                }
            }
            ctx.case("by.invert", true, &format!("by invert {L} {S} {} {} {}", hl(&ml), hl(&al), hl(&xl)), &parts.join(";"));
            // the same run at the value level (signed integers)
            let rv = r.map(|l| big_of_limbs(&l).to_string()).unwrap_or("none".into());
            let mut pv = vec![rv];
            pv.extend(partsv);
            ctx.case("byv.invert", true, &format!("byv invert 0x{:x} 0x{:x} 0x{:x}", m, a, x), &pv.join(";"));
            // the specification
            let g = gcd(&(x % m), m);
            match &r {
                Some(l) => {
                    let rb = big_of_limbs(l);
                    if !g.is_one() || rb >= *m || (&rb * x) % m != a % m {
                        bad.push("result * x != A (mod M), or result >= M, or a result for a non-invertible x".into());
                    }
                }
                None => {
                    if g.is_one() {
                        bad.push("None for an invertible x".into());
                    }
                }
            }
            if !bad.is_empty() {
                ctx.oracle_fail(&key, "BYInverter::invert violates its specification (or the batch invariant on an intermediate state)", json!({"inverter": name, "L": L, "modulus": hl(&ml), "adjuster": hl(&al), "x": hl(&xl), "violations": bad}));
            }
        }

        // building blocks on boundary classes
        let mut rng = ctx.rng(&format!("by.blocks:{name}:{an}"));
        let lows: Vec<u64> = vec![1, 3, 5, MASK, MASK - 2, (1 << 61) + 1, (1 << 61) - 1, 0x2aaa_aaaa_aaaa_aaab, rng.next_u64() & MASK | 1, rng.next_u64() & MASK | 1];
        let glows: Vec<u64> = vec![0, 1, 2, 3, MASK, MASK - 1, 1 << 61, 1 << 31, (1 << 61) + 1, 0x1555_5555_5555_5555, rng.next_u64() & MASK, rng.next_u64() & MASK, (rng.next_u64() & MASK) << 7 & MASK];
        let deltas: Vec<i64> = vec![1, 0, -1, 2, 5, 61, 62, 63, -61, -62, -63, 700, -700, (rng.next_u64() % 100) as i64 - 50];
        let mut mats: Vec<[[i64; 2]; 2]> = vec![];
        for (i, fl) in lows.iter().enumerate() {
            for (j, gl) in glows.iter().enumerate() {
                for (k, delta) in deltas.iter().enumerate() {
                    if !ctx.thorough() && (i + j + k) % 3 != 0 && !(*delta == 1 && j < 4) {
                        continue;
                    }
                    let mut f = [0u64; L];
                    let mut g = [0u64; L];
                    f[0] = *fl;
                    g[0] = *gl;
                    f[L - 1] = rng.next_u64() & (MASK >> 1);
                    g[L - 1] = rng.next_u64() & MASK;
                    match catch(|| BYInverter::<L>::verif_jump(&f, &g, *delta)) {
                        Ok((d2, t)) => {
                            ctx.case("by.jump", true, &format!("by jump 0x{fl:x} 0x{gl:x} {delta}"), &format!("{d2} {}", mat(&t)));
                            let (fi, gi) = (*fl as i128, *gl as i128);
                            let r0 = t[0][0] as i128 * fi + t[0][1] as i128 * gi;
                            let r1 = t[1][0] as i128 * fi + t[1][1] as i128 * gi;
                            let det = t[0][0] as i128 * t[1][1] as i128 - t[0][1] as i128 * t[1][0] as i128;
                            if r0 % (1i128 << 62) != 0 || r1 % (1i128 << 62) != 0 || det != 1i128 << 62 {
                                ctx.oracle_fail(&format!("by:jump:0x{fl:x}:0x{gl:x}:{delta}"), "jump: matrix·(f, g) is not divisible by 2^62 or det != 2^62", json!({"f": fl, "g": gl, "delta": delta, "matrix": mat(&t)}));
                            }
                            if mats.len() < 40 {
                                mats.push(t);
                            }
                        }
                        Err(e) => ctx.oracle_fail(&format!("by:jump-panic:0x{fl:x}:0x{gl:x}:{delta}"), "jump panicked (f odd)", json!({"f": fl, "g": gl, "delta": delta, "panic": e})),
                    }
                }
            }
        }
        mats.push([[1 << 62, 0], [0, 1]]);
        mats.push([[0, 1 << 62], [-1, 0]]);
        mats.push([[-(1 << 61), 1 << 61], [1, 1]]);
        // fg / de / norm on chunk vectors: in-range values and raw chunk patterns
        let m2: BigInt = &mi * 2i32;
        let mut vals: Vec<BigInt> = vec![
            BigInt::zero(), BigInt::one(), -BigInt::one(), mi.clone() - 1, -(mi.clone()) + 1, -(m2.clone()) + 1, mi.clone(), -mi.clone(),
            BigInt::from(a.clone()), BigInt::from(MASK), -BigInt::from(MASK), BigInt::one() << 62usize, -(BigInt::one() << 62usize), (BigInt::one() << 124usize) - 1,
        ];
        for _ in 0..4 {
            let mut b = vec![0u8; 8 * S];
            rng.fill_bytes(&mut b);
            let x = BigInt::from(BigUint::from_bytes_le(&b) % m);
            vals.push(x.clone());
            vals.push(x - &m2 + 1);
        }
        let nv = vals.len();
        for (ti, t) in mats.iter().enumerate() {
            for k in 0..(if ctx.thorough() { nv } else { 6 }) {
                let (x, y) = (&vals[(ti + k) % nv], &vals[(3 * ti + 7 * k + 1) % nv]);
                let (xc, yc) = (chunks_of::<L>(x), chunks_of::<L>(y));
                let ts = mat(t);
                match catch(|| BYInverter::<L>::verif_fg(&xc, &yc, *t)) {
                    Ok((f2, g2)) => ctx.case("by.fg", true, &format!("by fg {} {} {ts}", hl(&xc), hl(&yc)), &format!("{} {}", hl(&f2), hl(&g2))),
                    Err(e) => ctx.oracle_fail(&format!("by:fg-panic:{}:{}:{ts}", hl(&xc), hl(&yc)), "fg panicked", json!({"panic": e})),
                }
                match catch(|| inv.verif_de(&xc, &yc, *t)) {
                    Ok((d2, e2)) => {
                        ctx.case("by.de", true, &format!("by de {} {inverse} {} {} {ts}", hl(&m62), hl(&xc), hl(&yc)), &format!("{} {}", hl(&d2), hl(&e2)));
                        // d'·2^62 ≡ t00·d + t01·e (mod M) whenever nothing wrapped (values in (-2M, M), |t| <= 2^62)
                        let lhs = cval(&d2) * &two62 - (BigInt::from(t[0][0]) * x + BigInt::from(t[0][1]) * y);
                        let lhs2 = cval(&e2) * &two62 - (BigInt::from(t[1][0]) * x + BigInt::from(t[1][1]) * y);
                        let inrange = |v: &BigInt| *v > -&m2 && *v < mi;
                        if inrange(x) && inrange(y) && (lhs % &mi != BigInt::zero() || lhs2 % &mi != BigInt::zero()) {
                            ctx.oracle_fail(&format!("by:{name}:de:{}:{}:{ts}", hl(&xc), hl(&yc)), "de: result·2^62 is not congruent to matrix·(d, e) modulo M", json!({"d": hl(&xc), "e": hl(&yc), "matrix": ts}));
                        }
                    }
                    Err(e) => ctx.oracle_fail(&format!("by:de-panic:{}:{}:{ts}", hl(&xc), hl(&yc)), "de panicked", json!({"panic": e})),
                }
            }
        }
        for v in &vals {
            for neg in [false, true] {
                let vc = chunks_of::<L>(v);
                let r = inv.verif_norm(&vc, neg);
                ctx.case("by.norm", true, &format!("by norm {} {} {}", hl(&m62), hl(&vc), neg as u8), &hl(&r));
                if *v > -&m2 && *v < mi {
                    let want = if neg { ((-v % &mi) + &mi) % &mi } else { ((v % &mi) + &mi) % &mi };
                    if cval(&r) != want {
                        ctx.oracle_fail(&format!("by:{name}:norm:{}:{neg}", hl(&vc)), "norm(value, negate) is not ±value mod M in [0, M)", json!({"value": v.to_string(), "negate": neg, "got": cval(&r).to_string()}));
                    }
                }
            }
        }
    }
}

/// Deterministic search for values whose inversion needs the largest number of batches
/// (an implementation that stops one batch early fails exactly on those).
fn many_batches<const L: usize, const S: usize>(ctx: &Ctx, label: &str, m: &BigUint, tries: usize, keep: usize) -> Vec<BigUint> {
    let ml = limbs(m, S);
    let inv = BYInverter::<L>::new(&ml, &limbs(&BigUint::one(), S));
    let mut rng = ctx.rng(label);
    let mut best: Vec<(usize, BigUint)> = vec![];
    for _ in 0..tries {
        let mut b = vec![0u8; 8 * S];
        rng.fill_bytes(&mut b);
        let x = BigUint::from_bytes_le(&b) % m;
        verif_by_log_start();
        let _ = catch(|| inv.invert::<S>(&limbs(&x, S)));
        let n = verif_by_log_take().len();
        best.push((n, x));
        if best.len() > 4 * keep {
            best.sort_by(|a, b| b.0.cmp(&a.0).then(a.1.cmp(&b.1)));
            best.truncate(keep);
        }
    }
    best.sort_by(|a, b| b.0.cmp(&a.0).then(a.1.cmp(&b.1)));
    best.truncate(keep);
    best.into_iter().map(|(_, x)| x).collect()
}

/// Jacobi symbol on BigUint (textbook binary algorithm), `d` odd.
fn jacobi_big(n: &BigUint, d: &BigUint) -> i64 {
    let (mut n, mut d) = (n % d, d.clone());
    let mut s = 1i64;
    while !n.is_zero() {
        while (&n % 2u32).is_zero() {
            n >>= 1usize;
            let r = (&d % 8u32).to_u64_digits().first().copied().unwrap_or(0);
            if r == 3 || r == 5 {
                s = -s;
            }
        }
        std::mem::swap(&mut n, &mut d);
        let (rn, rd) = ((&n % 4u32).to_u64_digits().first().copied().unwrap_or(0), (&d % 4u32).to_u64_digits().first().copied().unwrap_or(0));
        if rn == 3 && rd == 3 {
            s = -s;
        }
        n = &n % &d;
    }
    if d.is_one() {
        s
    } else {
        0
    }
}

fn run_jacobi<const L: usize>(ctx: &mut Ctx, name: &str, d: &BigUint, prime: bool, nrandom: usize) {
    let dl = limbs(d, L);
    let bits = d.bits() as usize;
    let one = BigUint::one();
    let mut cls: Vec<(&'static str, BigUint)> = vec![
        ("0", BigUint::zero()), ("1", one.clone()), ("2", BigUint::from(2u32)), ("3", BigUint::from(3u32)), ("4", BigUint::from(4u32)),
        ("d-1", d - 1u32), ("d-2", d - 2u32), ("(d-1)/2", (d - 1u32) / 2u32), ("(d+1)/2", (d + 1u32) / 2u32),
        ("2^64-1", (pow2(64) - 1u32) % d), ("2^64", pow2(64) % d), ("2^64+1", (pow2(64) + 1u32) % d),
    ];
    let mut k = 1;
    while k < bits {
        cls.push(("2^k", pow2(k) % d));
        cls.push(("2^k-1", (pow2(k) - 1u32) % d));
        cls.push(("d-2^k", d - pow2(k) % d));
        k += if bits > 100 { 29 } else { 5 };
    }
    let mut rng = ctx.rng(&format!("jac:{name}"));
    for _ in 0..nrandom {
        let mut b = vec![0u8; bits / 8 + 8];
        rng.fill_bytes(&mut b);
        let x = BigUint::from_bytes_le(&b) % d;
        cls.push(("square", (&x * &x) % d));
        cls.push(("random", x.clone()));
        // approximations that hide the difference: same top limb bits and low 32 bits as d
        if bits > 128 {
            let top = (d >> (bits - 20)) << (bits - 20);
            let low = d % pow2(32);
            let mid = ((&x >> 32usize) << 32usize) % pow2(bits - 20);
            cls.push(("approx-adversarial", (&top + &mid + &low) % d));
            // short operands: the top chunk pair has more than 32 leading zeros
            let sh = &x % pow2(64 + 20);
            cls.push(("top-chunk-20-bits", sh));
        }
    }
    // common factor of at least 2^64 (only meaningful for a composite d)
    for (c, n) in &cls {
        ctx.count(&format!("jac.class:{c}"));
        let nl = limbs(n, L);
        let key = format!("jac:{name}:{}", hl(&nl));
        verif_jacobi_log_start();
        let r = catch(|| jacobi::<L>(&nl, &dl));
        let tr = verif_jacobi_log_take();
        let r = match r {
            Ok(r) => r,
            Err(e) => {
                ctx.oracle_fail(&key, "jacobi panicked", json!({"d": hl(&dl), "n": hl(&nl), "panic": e}));
                continue;
            }
        };
        ctx.count(&format!("jac.outer-iterations:{}", tr.len()));
        let mut parts = vec![format!("{r}")];
        for s in &tr {
            parts.push(format!("{}|{}|0x{:x}|0x{:x},0x{:x}|{},{}|{},{}", hl(&s.n), hl(&s.d), s.t, s.ab.0, s.ab.1, s.u.0, s.u.1, s.v.0, s.v.1));
        }
        ctx.case("jac.run", true, &format!("jac run {L} {} {}", hl(&nl), hl(&dl)), &parts.join(";"));
        let want = jacobi_big(n, d);
        let euler_ok = !prime || {
            let e = n.modpow(&((d - 1u32) / 2u32), d);
            (if e.is_zero() { 0 } else if e.is_one() { 1 } else { -1 }) == r
        };
        if want != r || !euler_ok {
            ctx.oracle_fail(&key, "jacobi(n, d) is not the Jacobi symbol (n / d)", json!({"d": hl(&dl), "n": hl(&nl), "got": r, "want": want}));
        }
    }
}

fn run_jacobi_blocks(ctx: &mut Ctx) {
    let mut rng = ctx.rng("jac.blocks");
    // approximate: chunk patterns by number of leading zeros of the top pair
    let tops: Vec<u64> = vec![1, 2, 3, 0x7fff_ffff, 0x8000_0000, 0xffff_ffff, 0x1_0000_0000, 0x1_ffff_ffff, 1 << 62, u64::MAX >> 1, 1 << 33, (1 << 31) + 5, rng.next_u64() >> 40, rng.next_u64() >> 20, rng.next_u64() >> 1];
    for (i, tx) in tops.iter().enumerate() {
        for (j, ty) in tops.iter().enumerate() {
            if !ctx.thorough() && (i + 2 * j) % 3 != 0 {
                continue;
            }
            for hi in [1usize, 2, 4] {
                let mut x = [0u64; 5];
                let mut y = [0u64; 5];
                for k in 0..hi {
                    x[k] = rng.next_u64();
                    y[k] = rng.next_u64();
                }
                x[hi] = *tx;
                y[hi] = if j % 4 == 3 { 0 } else { *ty };
                if hi < 4 && i % 5 == 0 {
                    x[hi - 1] = u64::MAX;
                    y[hi - 1] = 1 << 63;
                }
                let (a, b, p) = verif_approximate::<5>(&x, &y);
                ctx.case("jac.approx", true, &format!("jac approx {} {}", hl(&x), hl(&y)), &format!("0x{a:x} 0x{b:x} {}", p as u8));
            }
        }
    }
    for (x0, y0) in [(0u64, 1u64), (1, 0), (u64::MAX, u64::MAX), (5, 3)] {
        let (a, b, p) = verif_approximate::<5>(&[x0, 0, 0, 0, 0], &[y0, 0, 0, 0, 0]);
        ctx.case("jac.approx", false, &format!("jac approx {} {}", hl(&[x0, 0, 0, 0, 0]), hl(&[y0, 0, 0, 0, 0])), &format!("0x{a:x} 0x{b:x} {}", p as u8));
    }
    // jacobinary on u64 pairs
    let ds: Vec<u64> = vec![1, 3, 5, 7, 9, 15, 21, u64::MAX, u64::MAX - 2, (1 << 63) + 1, 0xffff_ffff_0000_0001, rng.next_u64() | 1, rng.next_u64() | 1, rng.next_u64() >> 33 | 1];
    let ns: Vec<u64> = vec![0, 1, 2, 3, 4, 8, u64::MAX, u64::MAX - 1, 1 << 63, 1 << 32, rng.next_u64(), rng.next_u64(), rng.next_u64() >> 30, rng.next_u64() << 17];
    for d in &ds {
        for n in &ns {
            for t in [0u64, 2, rng.next_u64()] {
                let r = verif_jacobinary(*n, *d, t);
                ctx.case("jac.binary", true, &format!("jac binary 0x{n:x} 0x{d:x} 0x{t:x}"), &format!("{r}"));
                let want = jacobi_big(&BigUint::from(*n), &BigUint::from(*d)) * (1 - (t & 2) as i64);
                if r != want {
                    ctx.oracle_fail(&format!("jac:binary:0x{n:x}:0x{d:x}:0x{t:x}"), "jacobinary(n, d, t) is not (n/d)·(-1)^(bit 1 of t)", json!({"n": n, "d": d, "t": t, "got": r, "want": want}));
                }
            }
        }
    }
}

pub fn run(ctx: &mut Ctx) {
    let p25519 = pow2(255) - 19u32;
    let bls_r = crate::pf::modulus::<crate::pf::BlsFq>();
    let bls_p = crate::pf::modulus::<crate::pf::BlsFp>();
    let jub_r = crate::pf::modulus::<crate::pf::JubjubFr>();
    let secp_p = crate::pf::modulus::<crate::pf::K256Fp>();
    let nr = crate::sz(ctx, 6, 60);
    let tries = if ctx.quick() { 3000 } else { 60000 };

    // the inverter of curve25519::Fp::invert: BYInverter::<6>::new(&MODULUS_LIMBS, &R2.0), four limbs
    let r = pow2(256) % &p25519;
    let adj = vec![("R2", (&r * &r) % &p25519), ("1", BigUint::one()), ("R", r)];
    let mut hard = many_batches::<6, 4>(ctx, "by.hard:c25519", &p25519, tries, 6);
    // arguments that need TEN batches modulo 2^255 - 19 (about one random argument in 10^4 does;
    // found by the thorough tier's search): an inverter that stops after nine fails exactly here
    for l in [
        [0xbd3d13b62bc93b0du64, 0xf59547f23bd47ab5, 0x4c0ecedb2231531b, 0x158bac6512985849],
        [0xb2217ba6f0fcc5df, 0x6943a319e2daa2f6, 0x234a63608b2eccfa, 0x2326cd4641d90941],
        [0x66dd9bd47d5e52da, 0x3641be6e3e881d17, 0x062dd108bd645b91, 0x53646badf8682694],
        [0x8464f9d877ba19c3, 0xfd11aa806cd9918e, 0xa0a98251a1a7fc4f, 0x54c7405434e50e85],
    ] {
        hard.push(big_of_limbs(&l));
    }
    run_inverter::<6, 4>(ctx, "curve25519.Fp", &p25519, &adj, nr, &hard);
    // the same code on other moduli and chunk counts
    let one = vec![("1", BigUint::one())];
    let hard = many_batches::<6, 4>(ctx, "by.hard:blsfq", &bls_r, tries / 3, 3);
    run_inverter::<6, 4>(ctx, "bls12_381.Fq-modulus", &bls_r, &one, nr / 2, &hard);
    run_inverter::<6, 4>(ctx, "jubjub.Fr-modulus", &jub_r, &one, nr / 2, &[]);
    run_inverter::<6, 4>(ctx, "secp256k1.Fp-modulus", &secp_p, &one, nr / 2, &[]);
    run_inverter::<8, 6>(ctx, "bls12_381.Fp-modulus", &bls_p, &one, nr / 2, &[]);
    // composite moduli: non-invertible arguments
    let comp = BigUint::from(3u32 * 5 * 7 * 11 * 13) * (pow2(61) - 1u32) * (pow2(89) - 1u32);
    let mults: Vec<BigUint> = vec![BigUint::from(3u32), BigUint::from(15015u32), pow2(61) - 1u32, (pow2(89) - 1u32) * 2u32, (pow2(61) - 1u32) * (pow2(89) - 1u32)];
    run_inverter::<6, 4>(ctx, "composite", &comp, &one, nr / 2, &mults);
    run_inverter::<2, 1>(ctx, "59-bit", &BigUint::from((1u64 << 59) - 55), &one, nr / 2, &[]);
    run_inverter::<2, 1>(ctx, "small-composite", &BigUint::from(3u64 * 5 * 7 * 11 * 13 * 17 * 19 * 23), &one, nr / 2, &[BigUint::from(23u32 * 19), BigUint::from(3u32)]);

    // Jacobi symbol: the three instantiations of the repository, and composite denominators
    run_jacobi::<5>(ctx, "curve25519.Fp", &p25519, true, nr * 2);
    run_jacobi::<5>(ctx, "bls12_381.Fq", &bls_r, true, nr * 2);
    run_jacobi::<7>(ctx, "bls12_381.Fp", &bls_p, true, nr * 2);
    let g = pow2(89) - 1u32; // common factor >= 2^64 with suitable numerators
    let dcomp = &g * (pow2(107) - 1u32) * BigUint::from(3u32);
    run_jacobi::<5>(ctx, "composite", &dcomp, false, nr);
    {
        let dl = limbs(&dcomp, 5);
        for k in [1u32, 2, 3, 5, 6, 1 << 20] {
            for n in [&g * k, (pow2(107) - 1u32) * k, &g * (pow2(107) - 1u32) * k % &dcomp] {
                let nl = limbs(&n, 5);
                verif_jacobi_log_start();
                let r = catch(|| jacobi::<5>(&nl, &dl));
                let tr = verif_jacobi_log_take();
                match r {
                    Ok(r) => {
                        let mut parts = vec![format!("{r}")];
                        for s in &tr {
                            parts.push(format!("{}|{}|0x{:x}|0x{:x},0x{:x}|{},{}|{},{}", hl(&s.n), hl(&s.d), s.t, s.ab.0, s.ab.1, s.u.0, s.u.1, s.v.0, s.v.1));
                        }
                        ctx.case("jac.run", true, &format!("jac run 5 {} {}", hl(&nl), hl(&dl)), &parts.join(";"));
                        if r != 0 {
                            ctx.oracle_fail(&format!("jac:composite:gcd:{}", hl(&nl)), "jacobi(n, d) != 0 although gcd(n, d) >= 2^64", json!({"n": hl(&nl), "d": hl(&dl), "got": r}));
                        }
                    }
                    Err(e) => ctx.oracle_fail(&format!("jac:composite:gcd-panic:{}", hl(&nl)), "jacobi panicked", json!({"n": hl(&nl), "d": hl(&dl), "panic": e})),
                }
            }
        }
    }
    run_jacobi::<2>(ctx, "small", &BigUint::from(1_000_003u64 * 999_983), false, nr);
    run_jacobi_blocks(ctx);
    let _ = BigInt::zero().abs();
}
