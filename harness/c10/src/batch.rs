//! Batched and in-place entry points of every exported prime field, with lengths that cross the
//! lazy-reduction / buffer thresholds of the wrappers and their dependencies (k256's magnitude
//! budget 2047 and the physical wrap of its 52-bit limbs at ~4096 additions, dalek's and blst's
//! chunking), and chains of in-place operations whose intermediate values are never serialised.
//!
//! Request lines (answered by `Model/C10/Batch.lean` through the driver):
//!   `pl <Field> sum|product|batch_invert <desc>`
//!   `pl <Field> chain <x0> <y> <prog> <n>`
//! `<desc>` is a compact list descriptor both sides expand themselves:
//!   `rep:<v>:<n>` (n copies), `alt:<a>:<b>:<n>` (a, b, a, … n terms),
//!   `lcg:<x0>:<a>:<c>:<n>` (x_{i+1} = a·x_i + c mod p).
//! `<prog>` is a string of operation letters applied cyclically for `n` steps to `x`:
//!   a/A `x += y` / `x += &y`, s/S `x -= y` / `x -= &y`, m/M `x *= y` / `x *= &y`,
//!   d `x = x.double()`, q `x = x.square()`, n `x = -x`, i `x = x.invert()` (unchanged if zero).
//! Every answer is also compared here with a `BigUint` model (→ `oracle_fail` with the
//! descriptor as the failing input), so a wrong batched routine is reported as a replayable
//! violation of the property statement itself.

use ff::{BatchInvert, Field};
use mzkh::{big_hex, catch, Ctx};
use num_bigint::BigUint;
use num_traits::{One, Zero};
use rand_core::RngCore;
use serde_json::json;
use subtle::{ConditionallySelectable, ConstantTimeEq};

use crate::pf::*;

pub const LENGTHS: [usize; 18] = [0, 1, 2, 3, 8, 9, 255, 256, 257, 2047, 2048, 2049, 4095, 4096, 4097, 5000, 8192, 10000];
const LENGTHS_SHORT: [usize; 12] = [0, 1, 2, 3, 8, 9, 255, 256, 257, 2049, 4097, 5000];

#[derive(Clone, Debug)]
pub enum Desc {
    Rep(&'static str, BigUint, usize),
    Alt(&'static str, BigUint, BigUint, usize),
    Lcg(BigUint, BigUint, BigUint, usize),
}

impl Desc {
    pub fn text(&self) -> String {
        match self {
            Desc::Rep(_, v, n) => format!("rep:{}:{n}", big_hex(v)),
            Desc::Alt(_, a, b, n) => format!("alt:{}:{}:{n}", big_hex(a), big_hex(b)),
            Desc::Lcg(x, a, c, n) => format!("lcg:{}:{}:{}:{n}", big_hex(x), big_hex(a), big_hex(c)),
        }
    }
    pub fn class(&self) -> String {
        match self {
            Desc::Rep(c, _, _) => format!("rep({c})"),
            Desc::Alt(c, _, _, _) => format!("alt({c})"),
            Desc::Lcg(..) => "random(lcg)".into(),
        }
    }
    pub fn len(&self) -> usize {
        match self {
            Desc::Rep(_, _, n) | Desc::Alt(_, _, _, n) | Desc::Lcg(_, _, _, n) => *n,
        }
    }
    pub fn expand(&self, p: &BigUint) -> Vec<BigUint> {
        match self {
            Desc::Rep(_, v, n) => vec![v.clone(); *n],
            Desc::Alt(_, a, b, n) => (0..*n).map(|i| if i % 2 == 0 { a.clone() } else { b.clone() }).collect(),
            Desc::Lcg(x0, a, c, n) => {
                let mut x = x0.clone();
                let mut v = Vec::with_capacity(*n);
                for _ in 0..*n {
                    v.push(x.clone());
                    x = (a * &x + c) % p;
                }
                v
            }
        }
    }
}

fn rand_below(rng: &mut impl RngCore, p: &BigUint, bytes: usize) -> BigUint {
    let mut b = vec![0u8; bytes + 8];
    rng.fill_bytes(&mut b);
    BigUint::from_bytes_le(&b) % p
}

fn descs<F: PF>(ctx: &Ctx, n: usize, nrand: usize) -> Vec<Desc> {
    let p = modulus::<F>();
    let ones = ((BigUint::one() << (64 * F::LIMBS)) - 1u32) % &p;
    let r = (BigUint::one() << (64 * F::LIMBS)) % &p;
    let mut v = vec![
        Desc::Rep("p-1", &p - 1u32, n),
        Desc::Rep("limbs-all-ones", ones, n),
        Desc::Alt("1,p-1", BigUint::one(), &p - 1u32, n),
        Desc::Alt("0,R", BigUint::zero(), r, n),
        Desc::Alt("p-1,p-2", &p - 1u32, &p - 2u32, n),
    ];
    let mut rng = ctx.rng(&format!("batch:{}:{n}", F::NAME));
    for _ in 0..nrand {
        let x0 = rand_below(&mut rng, &p, 8 * F::LIMBS);
        let a = rand_below(&mut rng, &p, 8 * F::LIMBS);
        let c = rand_below(&mut rng, &p, 8 * F::LIMBS);
        v.push(Desc::Lcg(x0, a, c, n));
    }
    v
}

fn fail(ctx: &mut Ctx, key: String, what: &str, detail: serde_json::Value) {
    ctx.oracle_fail(&key, what, detail);
}

/// `Sum`, `Sum<&T>`, `Product`, `Product<&T>`, `BatchInvert`, `BatchInverter` on long lists.
pub fn run_lists<F: PF>(ctx: &mut Ctx, lazy: bool) {
    let n = F::NAME;
    let p = modulus::<F>();
    let lengths: &[usize] = if lazy || !ctx.quick() { &LENGTHS } else { &LENGTHS_SHORT };
    let nrand = crate::sz(ctx, 1, 3);
    for &len in lengths {
        for d in descs::<F>(ctx, len, nrand) {
            let dt = d.text();
            let vals = d.expand(&p);
            let xs: Vec<F> = vals.iter().map(fe::<F>).collect();
            ctx.count(&format!("list-class:{}", d.class()));
            ctx.count(&format!("list-len:{}", d.len()));

            // --- sums -----------------------------------------------------------------
            let model = vals.iter().fold(BigUint::zero(), |acc, x| (acc + x) % &p);
            let got = catch(|| {
                let by_val: F = xs.iter().copied().sum();
                let by_ref: F = xs.iter().sum();
                let folded = xs.iter().fold(F::ZERO, |acc, x| acc + x);
                (by_val, by_ref, folded)
            });
            match got {
                Err(e) => {
                    ctx.case("l.sum", true, &format!("pl {n} sum {dt}"), "panic");
                    fail(ctx, format!("{n}:sum:{dt}"), "Sum / Sum<&T> over a long iterator panics",
                        json!({"field": n, "list": dt, "len": len, "panic": e, "expected": big_hex(&model)}));
                }
                Ok((by_val, by_ref, folded)) => {
                    ctx.case("l.sum", true, &format!("pl {n} sum {dt}"), &hx(&by_val));
                    if canon(&by_val) != model || canon(&by_ref) != model || canon(&folded) != model || by_val != by_ref || by_val != folded {
                        fail(ctx, format!("{n}:sum:{dt}"), "Sum / Sum<&T> over a long iterator differs from the sum of the integers modulo p",
                            json!({"field": n, "list": dt, "len": len, "Sum<T>": hx(&by_val), "Sum<&T>": hx(&by_ref), "fold(+)": hx(&folded), "expected": big_hex(&model)}));
                    }
                }
            }

            // --- products -------------------------------------------------------------
            let model = vals.iter().fold(BigUint::one() % &p, |acc, x| (acc * x) % &p);
            let got = catch(|| {
                let by_val: F = xs.iter().copied().product();
                let by_ref: F = xs.iter().product();
                let folded = xs.iter().fold(F::ONE, |acc, x| acc * x);
                (by_val, by_ref, folded)
            });
            match got {
                Err(e) => {
                    ctx.case("l.product", true, &format!("pl {n} product {dt}"), "panic");
                    fail(ctx, format!("{n}:product:{dt}"), "Product / Product<&T> over a long iterator panics",
                        json!({"field": n, "list": dt, "len": len, "panic": e, "expected": big_hex(&model)}));
                }
                Ok((by_val, by_ref, folded)) => {
                    ctx.case("l.product", true, &format!("pl {n} product {dt}"), &hx(&by_val));
                    if canon(&by_val) != model || canon(&by_ref) != model || by_val != by_ref || by_val != folded {
                        fail(ctx, format!("{n}:product:{dt}"), "Product / Product<&T> over a long iterator differs from the product of the integers modulo p",
                            json!({"field": n, "list": dt, "len": len, "Product<T>": hx(&by_val), "Product<&T>": hx(&by_ref), "expected": big_hex(&model)}));
                    }
                }
            }

            // --- batch inversion ------------------------------------------------------
            let got = catch(|| {
                let mut ys = xs.clone();
                let all_inv = ys.iter_mut().batch_invert();
                let mut zs = xs.clone();
                let mut scratch = vec![F::ZERO; zs.len()];
                let all_inv2 = ff::BatchInverter::invert_with_external_scratch(&mut zs, &mut scratch);
                (ys, all_inv, zs, all_inv2)
            });
            match got {
                Err(e) => {
                    ctx.case("l.batch_invert", true, &format!("pl {n} batch_invert {dt}"), "panic");
                    fail(ctx, format!("{n}:batch_invert:{dt}"), "batch inversion of a long list panics", json!({"field": n, "list": dt, "len": len, "panic": e}));
                }
                Ok((ys, all_inv, zs, all_inv2)) => {
                    // digest of the outputs: Σ (i+1)·out_i mod p
                    let mut dig = BigUint::zero();
                    let mut bad: Option<usize> = None;
                    for (i, (o, v)) in ys.iter().zip(&vals).enumerate() {
                        let ov = canon(o);
                        let ok = if v.is_zero() { ov.is_zero() } else { (&ov * v) % &p == BigUint::one() };
                        if !ok && bad.is_none() {
                            bad = Some(i);
                        }
                        dig = (dig + BigUint::from(i as u64 + 1) * ov) % &p;
                    }
                    let nz = vals.iter().filter(|v| !v.is_zero()).fold(BigUint::one() % &p, |acc, x| (acc * x) % &p);
                    let all_ok = (canon(&all_inv) * nz) % &p == BigUint::one() % &p;
                    ctx.case("l.batch_invert", true, &format!("pl {n} batch_invert {dt}"), &format!("{} {}", hx(&all_inv), big_hex(&dig)));
                    if bad.is_some() || !all_ok || zs != ys || all_inv2 != all_inv {
                        fail(ctx, format!("{n}:batch_invert:{dt}"), "batch inversion differs from element-wise inversion (or the two entry points disagree)",
                            json!({"field": n, "list": dt, "len": len, "first_bad_index": bad, "all_inv_ok": all_ok, "scratch_variant_agrees": zs == ys && all_inv2 == all_inv}));
                    }
                }
            }
        }
    }
}

fn chain_model(p: &BigUint, x0: &BigUint, y: &BigUint, prog: &str, steps: usize) -> BigUint {
    let ops: Vec<char> = prog.chars().collect();
    let mut x = x0.clone();
    for k in 0..steps {
        x = match ops[k % ops.len()] {
            'a' | 'A' => (&x + y) % p,
            's' | 'S' => (&x + p - y) % p,
            'm' | 'M' => (&x * y) % p,
            'd' => (&x + &x) % p,
            'q' => (&x * &x) % p,
            'n' => (p - &x) % p,
            'i' => {
                if x.is_zero() {
                    x
                } else {
                    x.modpow(&(p - 2u32), p)
                }
            }
            _ => unreachable!(),
        };
    }
    x
}

fn chain_impl<F: PF>(x0: F, y: F, prog: &str, steps: usize) -> F {
    let ops: Vec<char> = prog.chars().collect();
    let mut x = x0;
    for k in 0..steps {
        match ops[k % ops.len()] {
            'a' => x += y,
            'A' => x += &y,
            's' => x -= y,
            'S' => x -= &y,
            'm' => x *= y,
            'M' => x *= &y,
            'd' => x = x.double(),
            'q' => x = x.square(),
            'n' => x = -x,
            'i' => x = Option::<F>::from(x.invert()).unwrap_or(x),
            _ => unreachable!(),
        }
    }
    x
}

/// In-place chains: only the final value is read.
pub fn run_chains<F: PF>(ctx: &mut Ctx) {
    let n = F::NAME;
    let p = modulus::<F>();
    let ones = ((BigUint::one() << (64 * F::LIMBS)) - 1u32) % &p;
    let mut rng = ctx.rng(&format!("chain:{n}"));
    let mut pairs: Vec<(&str, BigUint, BigUint)> = vec![
        ("p-1,p-1", &p - 1u32, &p - 1u32),
        ("ones,p-1", ones.clone(), &p - 1u32),
        ("1,(p-1)/2", BigUint::one(), (&p - 1u32) / 2u32),
        ("0,ones", BigUint::zero(), ones),
    ];
    for _ in 0..crate::sz(ctx, 1, 4) {
        pairs.push(("random", rand_below(&mut rng, &p, 8 * F::LIMBS), rand_below(&mut rng, &p, 8 * F::LIMBS)));
    }
    let long: &[usize] = if ctx.quick() { &[2047, 2049, 4097, 5000] } else { &[1, 255, 2047, 2048, 2049, 4095, 4096, 4097, 5000, 10000] };
    let mut progs: Vec<(&str, Vec<usize>)> = vec![];
    for pr in ["a", "A", "s", "S", "d", "an", "ad", "sn"] {
        progs.push((pr, long.to_vec()));
    }
    for pr in ["m", "M", "q", "amdqns", "aAsSmMdqn", "dn", "mnq"] {
        progs.push((pr, vec![5000]));
    }
    progs.push(("ia", vec![64]));
    progs.push(("iqnm", vec![40]));
    for (c, x0, y) in &pairs {
        let (fx, fy) = (fe::<F>(x0), fe::<F>(y));
        for (prog, steps) in &progs {
            for &st in steps {
                ctx.count(&format!("chain-class:{c}"));
                let line = format!("pl {n} chain {} {} {prog} {st}", big_hex(x0), big_hex(y));
                let model = chain_model(&p, x0, y, prog, st);
                match catch(|| chain_impl::<F>(fx, fy, prog, st)) {
                    Err(e) => {
                        ctx.case("l.chain", true, &line, "panic");
                        fail(ctx, format!("{n}:chain:{}:{}:{prog}:{st}", big_hex(x0), big_hex(y)), "a chain of in-place operations panics",
                            json!({"field": n, "x0": big_hex(x0), "y": big_hex(y), "prog": prog, "steps": st, "panic": e}));
                    }
                    Ok(r) => {
                        ctx.case("l.chain", true, &line, &hx(&r));
                        if canon(&r) != model {
                            fail(ctx, format!("{n}:chain:{}:{}:{prog}:{st}", big_hex(x0), big_hex(y)),
                                "a chain of in-place operations (no intermediate serialisation) differs from integer arithmetic modulo p",
                                json!({"field": n, "x0": big_hex(x0), "y": big_hex(y), "prog": prog, "steps": st, "got": hx(&r), "expected": big_hex(&model)}));
                        }
                    }
                }
            }
        }
    }
}

/// `pow` / `pow_vartime` with exponents longer than the field (5, 8, 17, 64 limbs).
pub fn run_long_pow<F: PF>(ctx: &mut Ctx) {
    let n = F::NAME;
    let p = modulus::<F>();
    let mut rng = ctx.rng(&format!("longpow:{n}"));
    let bases = [&p - 1u32, BigUint::from(2u32), rand_below(&mut rng, &p, 8 * F::LIMBS), (&p - 1u32) / 2u32];
    let limb_counts: &[usize] = if ctx.quick() { &[5, 8, 17, 64] } else { &[1, 5, 7, 8, 9, 16, 17, 33, 64, 128] };
    for b in &bases {
        let a = fe::<F>(b);
        for &lc in limb_counts {
            for kind in 0..3 {
                let e: Vec<u64> = match kind {
                    0 => vec![u64::MAX; lc],
                    1 => {
                        let mut v = vec![0u64; lc];
                        v[lc - 1] = 1;
                        v
                    }
                    _ => (0..lc).map(|_| rng.next_u64()).collect(),
                };
                let eb = e.iter().rev().fold(BigUint::zero(), |acc, l| (acc << 64) + BigUint::from(*l));
                let line = format!("pf {n} pow {} {}", big_hex(b), big_hex(&eb));
                match catch(|| (a.pow(&e), a.pow_vartime(&e))) {
                    Err(er) => {
                        ctx.case("l.pow_long", true, &line, "panic");
                        fail(ctx, format!("{n}:pow-long:{}:{lc}:{kind}", big_hex(b)), "pow with a long exponent panics", json!({"field": n, "a": big_hex(b), "limbs": lc, "panic": er}));
                    }
                    Ok((r, rv)) => {
                        ctx.case("l.pow_long", true, &line, &hx(&r));
                        if r != rv || canon(&r) != b.modpow(&eb, &p) {
                            fail(ctx, format!("{n}:pow-long:{}:{lc}:{kind}", big_hex(b)), "pow / pow_vartime with a long exponent differ from modular exponentiation",
                                json!({"field": n, "a": big_hex(b), "e": big_hex(&eb)}));
                        }
                    }
                }
            }
        }
    }
}

/// Normalisation discipline of `k256/base_field.rs`: the wrapper stores the results of `invert`,
/// `sqrt`, `sqrt_ratio`, `conditional_select`, `random` and `From<k256::FieldElement>` WITHOUT
/// normalising them; every predicate / comparison / encoder / arithmetic method must therefore
/// behave on weakly normalised (magnitude 1, not normalised) values, and — through the public
/// `From<k256::FieldElement>` (which normalises since /repo 0cce575; regression case of the fixed
/// finding `k256.Fp:from-unnormalized`) — on lazily accumulated values as well.
pub fn run_k256_norm(ctx: &mut Ctx) {
    let n = "K256Fp";
    let p = modulus::<K256Fp>();
    let cls = classes::<K256Fp>(ctx, crate::sz(ctx, 4, 20));
    let mut rng = ctx.rng("k256norm");
    // (how the un-normalised wrapper value was obtained, the value)
    let mut sources: Vec<(String, K256Fp)> = vec![];
    for (c, v) in &cls {
        let a = fe::<K256Fp>(v);
        if let Some(i) = Option::<K256Fp>::from(a.invert()) {
            sources.push((format!("invert({c})"), i));
        }
        if let Some(r) = Option::<K256Fp>::from(a.square().sqrt()) {
            sources.push((format!("sqrt(sq({c}))"), r));
        }
        let (_, r) = K256Fp::sqrt_ratio(&a, &K256Fp::from(3u64));
        sources.push((format!("sqrt_ratio({c},3)"), r));
        let inv = Option::<K256Fp>::from(a.invert()).unwrap_or(a);
        sources.push((format!("select(invert({c}))"), K256Fp::conditional_select(&a, &inv, 1.into())));
        // lazily accumulated k256 elements injected through the public From impl
        let raw = a.into_inner();
        if !matches!(*c, "0" | "1" | "-1" | "(p-1)/2" | "limbs-all-ones") {
            continue;
        }
        for m in [2usize, 3, 8] {
            let mut acc = raw;
            for _ in 1..m {
                acc = acc + raw;
            }
            sources.push((format!("from(lazy·{m})({c})"), K256Fp::from(acc)));
        }
        sources.push((format!("from(-raw)({c})"), K256Fp::from(-raw)));
    }
    for _ in 0..4 {
        sources.push(("random".into(), K256Fp::random(&mut rng)));
    }
    for (how, r) in &sources {
        let kind = how.split('(').next().unwrap_or("?").to_string();
        ctx.count(&format!("k256-unnormalized:{kind}"));
        // the value denoted (to_repr normalises internally)
        let v = match catch(|| canon(r)) {
            Ok(v) => v,
            Err(e) => {
                fail(ctx, format!("{n}:unnormalized:to_repr:{how}"), "to_repr of an un-normalised wrapper value panics", json!({"how": how, "panic": e}));
                continue;
            }
        };
        let vh = big_hex(&v);
        let y = K256Fp::from(7u64);
        let checks: Vec<(&str, Result<String, String>, String)> = vec![
            ("is_zero", catch(|| format!("{}", r.is_zero().unwrap_u8())), format!("pf {n} is_zero {vh}")),
            ("is_odd", catch(|| format!("{}", K256Fp::is_odd(r).unwrap_u8())), format!("pf {n} is_odd {vh}")),
            ("is_odd", catch(|| format!("{}", <K256Fp as ff::PrimeField>::is_odd(r).unwrap_u8())), format!("pf {n} is_odd {vh}")),
            ("is_odd", catch(|| format!("{}", 1 - r.is_even().unwrap_u8())), format!("pf {n} is_odd {vh}")),
            ("neg", catch(|| hx(&-*r)), format!("pf {n} neg {vh}")),
            ("neg", catch(|| hx(&-r)), format!("pf {n} neg {vh}")),
            ("double", catch(|| hx(&r.double())), format!("pf {n} double {vh}")),
            ("square", catch(|| hx(&r.square())), format!("pf {n} square {vh}")),
            ("add", catch(|| hx(&(*r + y))), format!("pf {n} add {vh} 0x7")),
            ("add", catch(|| hx(&(y + r))), format!("pf {n} add 0x7 {vh}")),
            ("sub", catch(|| hx(&(*r - y))), format!("pf {n} sub {vh} 0x7")),
            ("sub", catch(|| hx(&(y - r))), format!("pf {n} sub 0x7 {vh}")),
            ("mul", catch(|| hx(&(*r * y))), format!("pf {n} mul {vh} 0x7")),
            ("mul", catch(|| hx(&(*r * r))), format!("pf {n} mul {vh} {vh}")),
            ("inv", catch(|| Option::<K256Fp>::from(r.invert()).map(|i| hx(&i)).unwrap_or("none".into())), format!("pf {n} inv {vh}")),
            ("sqrt", catch(|| {
                Option::<K256Fp>::from(r.sqrt()).map(|s| {
                    let sv = canon(&s);
                    let o = (&p - &sv) % &p;
                    big_hex(&sv.min(o))
                }).unwrap_or("none".into())
            }), format!("pf {n} sqrt {vh}")),
            ("normalize", catch(|| hx(&r.normalize())), format!("pf {n} reduce {vh}")),
            ("to_bytes", catch(|| big_hex(&BigUint::from_bytes_be(&r.to_bytes()))), format!("pf {n} reduce {vh}")),
            ("sum", catch(|| hx(&vec![*r; 3000].iter().sum::<K256Fp>())), format!("pl {n} sum rep:{vh}:3000")),
            ("product", catch(|| hx(&vec![*r; 20].iter().product::<K256Fp>())), format!("pl {n} product rep:{vh}:20")),
            ("pow", catch(|| hx(&r.pow([5u64, 0, 0, 1]))), format!("pf {n} pow {vh} 0x1000000000000000000000000000000000000000000000005")),
        ];
        for (op, got, line) in checks {
            match got {
                Ok(ans) => ctx.case(&format!("k256n.{op}"), true, &line, &ans),
                Err(e) => {
                    ctx.case(&format!("k256n.{op}"), true, &line, "panic");
                    // lazily accumulated inputs of magnitude > 1 injected through From: regression
                    // of the fixed finding k256.Fp:from-unnormalized (/repo 0cce575), one stable key
                    if kind == "from" {
                        fail(ctx, "k256.Fp:from-unnormalized".into(),
                            "k256::Fp::from(k256::FieldElement) stores a lazily reduced element (magnitude > 1) without normalising it; neg / sub of the wrapper then violate k256's magnitude contract (panic in debug builds, limb underflow = wrong value in release builds for magnitude >= 5)",
                            json!({"how": how, "value": vh, "op": op, "panic": e}));
                    } else {
                        fail(ctx, format!("{n}:unnormalized:{op}:{how}"), "a method of the secp256k1 base-field wrapper panics on an un-normalised value it stores itself", json!({"how": how, "value": vh, "op": op, "panic": e}));
                    }
                }
            }
        }
        // comparisons
        let nrm = fe::<K256Fp>(&v);
        match catch(|| *r == nrm && bool::from(r.ct_eq(&nrm)) && nrm == *r && *r != nrm + K256Fp::ONE) {
            Ok(true) => {}
            other => {
                let key = if kind == "from" { "k256.Fp:from-unnormalized".to_string() } else { format!("{n}:unnormalized:eq:{how}") };
                fail(ctx, key, "== / ct_eq between an un-normalised wrapper value and its canonical form is wrong or panics", json!({"how": how, "value": vh, "got": format!("{other:?}")}));
            }
        }
    }
}

/// Extension fields: `Sum` / `Sum<&T>` / `Product` / `Product<&T>` (`impl_sum!`, `impl_product!`,
/// `impl_sum_prod!`) over long lists against the fold with the binary operator (whose values are
/// compared with the Lean tower model in `tower.rs`). Oracle only.
fn run_tower_lists<T: Field>(ctx: &mut Ctx, name: &str) {
    let mut rng = ctx.rng(&format!("towerlists:{name}"));
    let seeds: Vec<T> = vec![T::ONE, -T::ONE, T::random(&mut rng), T::random(&mut rng), T::ZERO - T::random(&mut rng)];
    for len in [0usize, 1, 2, 3, 257, 2049, 5000] {
        for stride in [1usize, 2, 5] {
            let xs: Vec<T> = (0..len).map(|i| seeds[(i * stride) % seeds.len()] + seeds[i % 3]).collect();
            ctx.count(&format!("tower-list:{name}"));
            let r = catch(|| {
                let s1: T = xs.iter().copied().sum();
                let s2: T = xs.iter().sum();
                let p1: T = xs.iter().copied().product();
                let p2: T = xs.iter().product();
                let fs = xs.iter().fold(T::ZERO, |a, x| a + x);
                let fp = xs.iter().fold(T::ONE, |a, x| a * x);
                s1 == fs && s2 == fs && p1 == fp && p2 == fp
            });
            if r != Ok(true) {
                fail(ctx, format!("{name}:tower-sum-product:{len}:{stride}"), "Sum/Product of an extension field over a long list differ from the fold (or panic)",
                    json!({"type": name, "len": len, "stride": stride, "result": format!("{r:?}")}));
            }
        }
    }
}

pub fn run(ctx: &mut Ctx) {
    run_tower_lists::<midnight_curves::bls12_381::Fp2>(ctx, "Bls2");
    run_tower_lists::<midnight_curves::bls12_381::Fp6>(ctx, "Bls6");
    run_tower_lists::<midnight_curves::bls12_381::Fp12>(ctx, "Bls12");
    run_tower_lists::<midnight_curves::bn256::Fq2>(ctx, "Bn2562");
    run_tower_lists::<midnight_curves::bn256::Fq6>(ctx, "Bn2566");
    run_tower_lists::<midnight_curves::bn256::Fq12>(ctx, "Bn25612");
    run_lists::<K256Fp>(ctx, true);
    run_lists::<K256Fq>(ctx, true);
    run_lists::<C25519Fp>(ctx, true);
    run_lists::<C25519Scalar>(ctx, true);
    run_lists::<BlsFq>(ctx, false);
    run_lists::<BlsFp>(ctx, false);
    run_lists::<JubjubFr>(ctx, false);
    run_lists::<Bn256Fq>(ctx, false);
    run_lists::<Bn256Fr>(ctx, false);

    run_chains::<K256Fp>(ctx);
    run_chains::<K256Fq>(ctx);
    run_chains::<C25519Fp>(ctx);
    run_chains::<C25519Scalar>(ctx);
    run_chains::<BlsFq>(ctx);
    run_chains::<BlsFp>(ctx);
    run_chains::<JubjubFr>(ctx);
    run_chains::<Bn256Fq>(ctx);
    run_chains::<Bn256Fr>(ctx);

    run_long_pow::<K256Fp>(ctx);
    run_long_pow::<K256Fq>(ctx);
    run_long_pow::<C25519Fp>(ctx);
    run_long_pow::<C25519Scalar>(ctx);
    run_long_pow::<BlsFq>(ctx);
    run_long_pow::<BlsFp>(ctx);
    run_long_pow::<JubjubFr>(ctx);
    run_long_pow::<Bn256Fq>(ctx);
    run_long_pow::<Bn256Fr>(ctx);

    run_k256_norm(ctx);
}
