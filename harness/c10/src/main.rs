//! Correspondence harness of property C10 (stub).
use mzkh::Ctx;

fn main() {
    let ctx = Ctx::from_args("C10");
    ctx.finish();
}
