//! probe
use ff::{Field, PrimeField};
use midnight_curves::{Fp, Fq, Fr as JFr};
fn main() {
    let a: Vec<String> = std::env::args().collect();
    if a.len() > 1 && a[1] == "sumref" {
        let v = vec![JFr::ONE, JFr::ONE];
        let s: JFr = v.iter().sum();
        println!("sum ok {:?}", s);
        return;
    }
    if a.len() > 1 && a[1] == "fq6" {
        use midnight_curves::bn256::{Fq2, Fq6};
        let x = Fq6::new(Fq2::ZERO, Fq2::ZERO, Fq2::ONE);
        println!("is_zero {:?} inv {:?}", bool::from(x.is_zero()), x.invert().is_some().unwrap_u8());
        return;
    }
    if a.len() > 1 && a[1] == "fq2" {
        use midnight_curves::bn256::{Fq2};
        let mut r = <Fq2 as PrimeField>::Repr::default();
        for b in r.as_mut().iter_mut() { *b = 0xff; }
        let x = mzkh::catch(|| Fq2::from_repr(r).is_some().unwrap_u8());
        println!("from_repr ff.. {:?}", x);
        let x = mzkh::catch(|| Fq2::from_bytes(&[0xffu8; 64]).is_some().unwrap_u8());
        println!("from_bytes ff.. {:?}", x);
        return;
    }
    println!("{:?} {:?}", Fp::S, Fq::S);
}
