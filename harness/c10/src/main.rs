//! Correspondence harness of property C10: every exported field type of `midnight-curves`
//! against integer arithmetic modulo its modulus (answered by the Lean driver `mzk-c10`), plus
//! the limb-level Montgomery code of the pure-Rust fields against the Lean limb model.
//!
//! Request lines (see `lean/MidnightZK/Driver/C10.lean`):
//!   `pf <Field> <op> <hex…>`, `lf <Field> <op> <limbs…>`, `const <Field> <NAME>`, `tw <Tower> <op> …`,
//!   `pl <Field> sum|product|batch_invert <list-descriptor>`, `pl <Field> chain <x0> <y> <prog> <n>` (see `batch.rs`),
//!   `by …`, `byv …`, `jac …` (Bernstein–Yang inversion and Jacobi symbol with their loop states, see `byjac.rs`).
//! Oracles checked here directly (→ `oracle_fail`): agreement of all operator variants (by
//! value / by reference / in place), `x * x⁻¹ = 1`, `sqrt(x)² = x`, codec round trips, decoders
//! rejecting every non-canonical encoding without panicking, batched = element-wise.

mod batch;
mod byjac;
mod limbs;
mod pf;
mod tower;

use mzkh::Ctx;

/// Case count by tier: quick `q`, thorough `t`, search in between (wide enough to hit an
/// oracle failure, small enough for the 5-minute budget).
pub fn sz(ctx: &Ctx, q: usize, t: usize) -> usize {
    if ctx.quick() {
        q
    } else if ctx.search() {
        (2 * q).min(t)
    } else {
        t
    }
}

/// A panic of the implementation outside the per-case guards is a failing input of the property
/// ("for every input"), not a crash of the harness: the remaining stages still run.
fn guarded(ctx: &mut Ctx, stage: &str, f: fn(&mut Ctx)) {
    if let Err(e) = mzkh::catch(|| f(ctx)) {
        ctx.oracle_fail(
            &format!("stage-panic:{stage}"),
            "a field operation panicked outside the per-case guards of the harness",
            serde_json::json!({"stage": stage, "panic": e, "hint": "rerun h-c10 with MZKH_VERBOSE=1 C10_TRACE=1 to see the location"}),
        );
    }
}

fn main() {
    // child mode used by the Sum/Product-by-reference probe (a regression of an infinite recursion)
    let args: Vec<String> = std::env::args().collect();
    if args.len() > 1 && args[1] == "--probe-sum-ref" {
        pf::probe_sum_ref_child();
        return;
    }
    if args.len() > 1 && args[1] == "--probe-shift-zero" {
        pf::probe_shift_zero_child();
        return;
    }
    let mut ctx = Ctx::from_args("C10");
    guarded(&mut ctx, "pf", pf::run);
    guarded(&mut ctx, "limbs", limbs::run);
    guarded(&mut ctx, "tower", tower::run);
    guarded(&mut ctx, "batch", batch::run);
    guarded(&mut ctx, "byjac", byjac::run);
    ctx.finish();
}
