//! Correspondence harness of property C10: every exported field type of `midnight-curves`
//! against integer arithmetic modulo its modulus (answered by the Lean driver `mzk-c10`), plus
//! the limb-level Montgomery code of the pure-Rust fields against the Lean limb model.
//!
//! Request lines (see `lean/MidnightZK/Driver/C10.lean`):
//!   `pf <Field> <op> <hex…>`, `lf <Field> <op> <limbs…>`, `const <Field> <NAME>`, `tw <Tower> <op> …`.
//! Oracles checked here directly (→ `oracle_fail`): agreement of all operator variants (by
//! value / by reference / in place), `x * x⁻¹ = 1`, `sqrt(x)² = x`, codec round trips, decoders
//! rejecting every non-canonical encoding without panicking, batched = element-wise.

mod limbs;
mod pf;
mod tower;

use mzkh::Ctx;

/// Case count by tier: quick `q`, thorough `t`, search in between (wide enough to hit an
/// oracle failure, small enough for the 5-minute budget).
pub fn sz(ctx: &Ctx, q: usize, t: usize) -> usize {
    if ctx.quick() {
        q
    } else if ctx.search() {
        (2 * q).min(t)
    } else {
        t
    }
}

fn main() {
    // child mode used by the Sum/Product-by-reference probe (a regression of an infinite recursion)
    let args: Vec<String> = std::env::args().collect();
    if args.len() > 1 && args[1] == "--probe-sum-ref" {
        pf::probe_sum_ref_child();
        return;
    }
    if args.len() > 1 && args[1] == "--probe-shift-zero" {
        pf::probe_shift_zero_child();
        return;
    }
    let mut ctx = Ctx::from_args("C10");
    pf::run(&mut ctx);
    limbs::run(&mut ctx);
    tower::run(&mut ctx);
    ctx.finish();
}
