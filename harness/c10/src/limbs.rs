//! Limb-level correspondence of the pure-Rust Montgomery fields (`jubjub::Fr`, the `const fn`
//! paths of `bls12_381::Fq`, `curve25519::Fp`) against the Lean limb model: raw (also
//! non-canonical) limb vectors in, raw limb vectors out.

use ff::{Field, PrimeField};
use mzkh::Ctx;
use num_bigint::BigUint;
use num_traits::{One, Zero};
use rand_core::RngCore;

use crate::pf::{modulus, BlsFq, JubjubFr};
use midnight_curves::curve25519::Fp as C25519Fp;
use midnight_curves::serde::SerdeObject;

type L = [u64; 4];

fn ls(l: &L) -> String {
    l.iter().map(|x| format!("0x{x:x}")).collect::<Vec<_>>().join(",")
}

fn of_big(b: &BigUint) -> L {
    let mut d = b.to_u64_digits();
    d.resize(4, 0);
    [d[0], d[1], d[2], d[3]]
}

fn big(l: &L) -> BigUint {
    let mut b = BigUint::zero();
    for x in l.iter().rev() {
        b = (b << 64) + BigUint::from(*x);
    }
    b
}

/// Limb-vector operand classes: canonical and non-canonical.
fn limb_classes(ctx: &Ctx, label: &str, p: &BigUint, nrandom: usize) -> Vec<(&'static str, L)> {
    let one = BigUint::one();
    let top = &one << 256usize;
    let r = &top % p;
    let mut v: Vec<(&'static str, L)> = vec![
        ("0", [0; 4]),
        ("1", [1, 0, 0, 0]),
        ("R", of_big(&r)),
        ("R2", of_big(&((&r * &r) % p))),
        ("p-1", of_big(&(p - 1u32))),
        ("p", of_big(p)),
        ("p+1", of_big(&(p + 1u32))),
        ("(p-1)/2", of_big(&((p - 1u32) / 2u32))),
        ("(p+1)/2", of_big(&((p + 1u32) / 2u32))),
        ("all-ones", [u64::MAX; 4]),
        ("2^64-1", [u64::MAX, 0, 0, 0]),
        ("2^64", [0, 1, 0, 0]),
        ("2^128-1", [u64::MAX, u64::MAX, 0, 0]),
        ("2^128+1", [1, 0, 1, 0]),
        ("2^192-1", [u64::MAX, u64::MAX, u64::MAX, 0]),
        ("2^192", [0, 0, 0, 1]),
        ("2^255", [0, 0, 0, 1 << 63]),
        ("2^256-2^64", [0, u64::MAX, u64::MAX, u64::MAX]),
        ("p-2^64", of_big(&(p - (&one << 64usize)))),
    ];
    if p * 2u32 < top {
        v.push(("2p-1", of_big(&(p * 2u32 - 1u32))));
        v.push(("2p", of_big(&(p * 2u32))));
    }
    let mut rng = ctx.rng(label);
    for _ in 0..nrandom {
        let l: L = [rng.next_u64(), rng.next_u64(), rng.next_u64(), rng.next_u64()];
        v.push(("random-256", l));
        v.push(("random<p", of_big(&(big(&l) % p))));
        v.push(("band[p-2^64,p)", of_big(&(p - 1u32 - BigUint::from(rng.next_u64())))));
    }
    v
}

/// Eight-limb inputs of `montgomery_reduce`.
fn wide_classes(ctx: &Ctx, label: &str, p: &BigUint, nrandom: usize) -> Vec<(&'static str, [u64; 8])> {
    let one = BigUint::one();
    let top = &one << 256usize;
    let to8 = |b: &BigUint| -> [u64; 8] {
        let mut d = b.to_u64_digits();
        d.resize(8, 0);
        d.try_into().unwrap()
    };
    let mut v: Vec<(&'static str, [u64; 8])> = vec![
        ("0", [0; 8]),
        ("1", to8(&one)),
        ("p", to8(p)),
        ("(p-1)^2", to8(&((p - 1u32) * (p - 1u32)))),
        ("p*2^256-1", to8(&(p * &top - 1u32))),
        ("p*2^256", to8(&(p * &top))),
        ("(2^256-1)*(p-1)", to8(&((&top - 1u32) * (p - 1u32)))),
        ("(2^256-1)^2", to8(&((&top - 1u32) * (&top - 1u32)))),
        ("all-ones", [u64::MAX; 8]),
        ("2^256", to8(&top)),
        ("2^256-1", to8(&(&top - 1u32))),
    ];
    let mut rng = ctx.rng(label);
    for _ in 0..nrandom {
        let mut l = [0u64; 8];
        for x in l.iter_mut() {
            *x = rng.next_u64();
        }
        v.push(("random-512", l));
        let lo: L = [l[0], l[1], l[2], l[3]];
        let hi: L = [l[4], l[5], l[6], l[7]];
        v.push(("random-product<p", to8(&((big(&lo) % p) * (big(&hi) % p)))));
    }
    v
}

fn split8(r: &[u64; 8]) -> (L, L) {
    ([r[0], r[1], r[2], r[3]], [r[4], r[5], r[6], r[7]])
}

fn run_jubjub(ctx: &mut Ctx) {
    let n = "JubjubFr";
    let p = modulus::<JubjubFr>();
    let nr = crate::sz(ctx, 4, 40);
    let cls = limb_classes(ctx, "lf:JubjubFr", &p, nr);
    let f = JubjubFr::verif_from_limbs;
    for (c, a) in &cls {
        ctx.count(&format!("limbs:{c}"));
        let nt = c.starts_with("random") || c.starts_with("band");
        let x = f(*a);
        ctx.case("lf.neg", nt, &format!("lf {n} neg {}", ls(a)), &ls(&x.neg().verif_limbs()));
        ctx.case("lf.square", nt, &format!("lf {n} square {}", ls(a)), &ls(&x.square().verif_limbs()));
        ctx.case("lf.from_raw", nt, &format!("lf {n} from_raw {}", ls(a)), &ls(&JubjubFr::from_raw(*a).verif_limbs()));
        let bytes = x.to_bytes();
        ctx.case("lf.to_canon", nt, &format!("lf {n} to_canon {}", ls(a)), &ls(&of_big(&BigUint::from_bytes_le(&bytes))));
        let mut raw = [0u8; 32];
        for i in 0..4 {
            raw[8 * i..8 * i + 8].copy_from_slice(&a[i].to_le_bytes());
        }
        let d = JubjubFr::from_bytes(&raw);
        let ans = match Option::<JubjubFr>::from(d) {
            Some(y) => format!("1 {}", ls(&y.verif_limbs())),
            None => "0".to_string(),
        };
        ctx.case("lf.from_bytes", nt, &format!("lf {n} from_bytes {}", ls(a)), &ans);
        if big(a) < p {
            // canonical Montgomery limbs: the algorithms with data-dependent length
            let s = Option::<JubjubFr>::from(x.sqrt());
            ctx.case("lf.sqrt", nt, &format!("lf {n} sqrt {}", ls(a)), &s.map(|y| ls(&y.verif_limbs())).unwrap_or("none".into()));
            let i = Option::<JubjubFr>::from(x.invert());
            ctx.case("lf.invert", nt, &format!("lf {n} invert {}", ls(a)), &i.map(|y| ls(&y.verif_limbs())).unwrap_or("none".into()));
        }
    }
    for (ca, a) in &cls {
        for (cb, b) in &cls {
            let nt = ca.starts_with("random") || cb.starts_with("random") || ca.starts_with("band") || cb.starts_with("band");
            let (x, y) = (f(*a), f(*b));
            ctx.case("lf.add", nt, &format!("lf {n} add {} {}", ls(a), ls(b)), &ls(&x.add(&y).verif_limbs()));
            ctx.case("lf.sub", nt, &format!("lf {n} sub {} {}", ls(a), ls(b)), &ls(&x.sub(&y).verif_limbs()));
            ctx.case("lf.mul", nt, &format!("lf {n} mul {} {}", ls(a), ls(b)), &ls(&x.mul(&y).verif_limbs()));
        }
    }
    // pow with raw exponents on a few canonical bases
    let exps: Vec<L> = vec![[0; 4], [1, 0, 0, 0], [2, 0, 0, 0], of_big(&(&p - 2u32)), [u64::MAX; 4], [0, 0, 0, 1 << 63]];
    for (c, a) in cls.iter().filter(|(c, l)| (*c == "random<p" || *c == "R" || *c == "p-1" || *c == "0") && big(l) < p).take(8) {
        let _ = c;
        for e in &exps {
            let x = f(*a);
            let r = x.pow_vartime(e);
            ctx.case("lf.pow", true, &format!("lf {n} pow {} {}", ls(a), ls(e)), &ls(&r.verif_limbs()));
            if r != x.pow(e) {
                ctx.oracle_fail(&format!("{n}:lf-pow:{}:{}", ls(a), ls(e)), "Fr::pow != Fr::pow_vartime", serde_json::json!({"a": ls(a), "e": ls(e)}));
            }
        }
    }
    for (c, w) in wide_classes(ctx, "wide:JubjubFr", &p, crate::sz(ctx, 8, 200)) {
        ctx.count(&format!("wide:{c}"));
        let (lo, hi) = split8(&w);
        ctx.case("lf.mont_reduce", true, &format!("lf {n} mont_reduce {} {}", ls(&lo), ls(&hi)), &ls(&JubjubFr::verif_montgomery_reduce(w).verif_limbs()));
        let mut bytes = [0u8; 64];
        for i in 0..8 {
            bytes[8 * i..8 * i + 8].copy_from_slice(&w[i].to_le_bytes());
        }
        ctx.case("lf.from_u512", true, &format!("lf {n} from_u512 {} {}", ls(&lo), ls(&hi)), &ls(&JubjubFr::from_bytes_wide(&bytes).verif_limbs()));
    }
}

fn fq_limbs(x: &BlsFq) -> L {
    let b = x.to_raw_bytes();
    core::array::from_fn(|i| u64::from_le_bytes(b[8 * i..8 * i + 8].try_into().unwrap()))
}

fn run_bls_fq(ctx: &mut Ctx) {
    let n = "BlsFq";
    let p = modulus::<BlsFq>();
    let nr = crate::sz(ctx, 4, 40);
    let cls = limb_classes(ctx, "lf:BlsFq", &p, nr);
    for (c, a) in &cls {
        ctx.count(&format!("limbs:{c}"));
        let nt = c.starts_with("random") || c.starts_with("band");
        ctx.case("lf.from_raw", nt, &format!("lf {n} from_raw {}", ls(a)), &ls(&fq_limbs(&BlsFq::from_raw(*a))));
    }
    for (ca, a) in &cls {
        for (cb, b) in &cls {
            let nt = ca.starts_with("random") || cb.starts_with("random") || ca.starts_with("band") || cb.starts_with("band");
            ctx.case("lf.mul", nt, &format!("lf {n} mul {} {}", ls(a), ls(b)), &ls(&fq_limbs(&BlsFq::mul_const(a, b))));
            ctx.case("lf.sub", nt, &format!("lf {n} sub {} {}", ls(a), ls(b)), &ls(&BlsFq::verif_sub(a, b)));
            // the const path and the blst path must agree on canonical operands
            if big(a) < p && big(b) < p {
                let mut ab = [0u8; 32];
                let mut bb = [0u8; 32];
                for i in 0..4 {
                    ab[8 * i..8 * i + 8].copy_from_slice(&a[i].to_le_bytes());
                    bb[8 * i..8 * i + 8].copy_from_slice(&b[i].to_le_bytes());
                }
                let (x, y) = (BlsFq::from_raw_bytes_unchecked(&ab), BlsFq::from_raw_bytes_unchecked(&bb));
                if x * y != BlsFq::mul_const(a, b) || fq_limbs(&(x - y)) != BlsFq::verif_sub(a, b) {
                    ctx.oracle_fail(&format!("{n}:const-vs-blst:{}:{}", ls(a), ls(b)), "const fn mul_const/sub differ from the blst-backed operators", serde_json::json!({"a": ls(a), "b": ls(b)}));
                }
            }
        }
    }
    for (c, w) in wide_classes(ctx, "wide:BlsFq", &p, crate::sz(ctx, 8, 200)) {
        ctx.count(&format!("wide:{c}"));
        let (lo, hi) = split8(&w);
        ctx.case("lf.mont_reduce", true, &format!("lf {n} mont_reduce {} {}", ls(&lo), ls(&hi)), &ls(&BlsFq::verif_montgomery_reduce(w)));
    }
}

fn run_c25519(ctx: &mut Ctx) {
    let n = "C25519Fp";
    let p = modulus::<C25519Fp>();
    let nr = crate::sz(ctx, 4, 40);
    let cls = limb_classes(ctx, "lf:C25519Fp", &p, nr);
    for (c, a) in &cls {
        ctx.count(&format!("limbs:{c}"));
        let nt = c.starts_with("random") || c.starts_with("band");
        let x = C25519Fp(*a);
        ctx.case("lf.neg", nt, &format!("lf {n} neg {}", ls(a)), &ls(&x.neg().0));
        ctx.case("lf.square", nt, &format!("lf {n} square {}", ls(a)), &ls(&x.square().0));
        ctx.case("lf.from_raw", nt, &format!("lf {n} from_raw {}", ls(a)), &ls(&C25519Fp::from_raw(*a).0));
        ctx.case("lf.to_canon", nt, &format!("lf {n} to_canon {}", ls(a)), &ls(&x.verif_from_mont()));
        let mut raw = [0u8; 32];
        for i in 0..4 {
            raw[8 * i..8 * i + 8].copy_from_slice(&a[i].to_le_bytes());
        }
        let ans = match Option::<C25519Fp>::from(C25519Fp::from_bytes(&raw)) {
            Some(y) => format!("1 {}", ls(&y.0)),
            None => "0".to_string(),
        };
        ctx.case("lf.from_bytes", nt, &format!("lf {n} from_bytes {}", ls(a)), &ans);
        if big(a) < p {
            let s = Option::<C25519Fp>::from(x.sqrt());
            ctx.case("lf.sqrt", nt, &format!("lf {n} sqrt {}", ls(a)), &s.map(|y| ls(&y.0)).unwrap_or("none".into()));
        }
    }
    for (ca, a) in &cls {
        for (cb, b) in &cls {
            let nt = ca.starts_with("random") || cb.starts_with("random") || ca.starts_with("band") || cb.starts_with("band");
            let (x, y) = (C25519Fp(*a), C25519Fp(*b));
            ctx.case("lf.add", nt, &format!("lf {n} add {} {}", ls(a), ls(b)), &ls(&x.add(&y).0));
            ctx.case("lf.sub", nt, &format!("lf {n} sub {} {}", ls(a), ls(b)), &ls(&x.sub(&y).0));
            ctx.case("lf.mul", nt, &format!("lf {n} mul {} {}", ls(a), ls(b)), &ls(&x.mul(&y).0));
        }
    }
    for (c, w) in wide_classes(ctx, "wide:C25519Fp", &p, crate::sz(ctx, 8, 200)) {
        ctx.count(&format!("wide:{c}"));
        let (lo, hi) = split8(&w);
        ctx.case("lf.mont_reduce", true, &format!("lf {n} mont_reduce {} {}", ls(&lo), ls(&hi)), &ls(&C25519Fp::verif_montgomery_reduce(&w).0));
        let mut bytes = [0u8; 64];
        for i in 0..8 {
            bytes[8 * i..8 * i + 8].copy_from_slice(&w[i].to_le_bytes());
        }
        let x = <C25519Fp as ff::FromUniformBytes<64>>::from_uniform_bytes(&bytes);
        ctx.case("lf.from_u512", true, &format!("lf {n} from_u512 {} {}", ls(&lo), ls(&hi)), &ls(&x.0));
    }
    let _ = C25519Fp::ONE;
    let _ = <C25519Fp as PrimeField>::S;
}

pub fn run(ctx: &mut Ctx) {
    run_jubjub(ctx);
    run_bls_fq(ctx);
    run_c25519(ctx);
}
